------------------------------ MODULE MC_Schema ------------------------------
(***************************************************************************)
(* C14 at model level and as case generator: for every schema of the       *)
(* universe (all primitives, logical types on primitives and on fixed,     *)
(* namespaces, enum, fixed, unions, nested collections and records to      *)
(* depth 3) and every variation, Parse(Vary(Serialise(s), v)) = s.         *)
(* With Dump the schemas are written to cases.ndjson; the harness renders  *)
(* each variation as text for SchemaFromString and compares Schema.Marshal *)
(* output, read back by encoding/json, with s.                             *)
(***************************************************************************)
EXTENDS SchemaJSON, Json, CSV

CONSTANTS Dump, Size
VARIABLES x, ph

P(k) == Prim(k)
LT(k, lt) == [Prim(k) EXCEPT !.lt = lt]
Rec(n, ns, fs) == [RecordS(n, fs) EXCEPT !.ns = ns]
Prims == {P(k) : k \in PrimNames}
Logical == {LT("long", "timestamp-micros"), LT("long", "timestamp-millis"), LT("int", "date"), LT("bytes", "decimal"), LT("string", "uuid"),
            [FixedS("Dec", 8) EXCEPT !.lt = "decimal"], [FixedS("Dur", 12) EXCEPT !.lt = "duration", !.ns = "a.b"]}
Named0 == {FixedS("F", 4), FixedS("F0", 0), EnumS("E", <<"A", "B", "C">>), [EnumS("E1", <<"X">>) EXCEPT !.ns = "org.x"], Rec("Empty", "", <<>>)}
L1 == {ArrayS(P("long")), MapS(P("string")), UnionS(<<P("null"), P("string")>>), UnionS(<<P("long"), P("null")>>), UnionS(<<P("string")>>),
       UnionS(<<P("null"), LT("long", "timestamp-micros"), FixedS("UF", 2)>>),
       Rec("R", "", <<FieldS("a", P("long")), FieldS("b", P("string"))>>), Rec("R", "com.example.x_y", <<FieldS("t", LT("long", "timestamp-millis"))>>),
       Rec("a.b.Dotted", "ns.other", <<FieldS("f", [FixedS("x.y.Fx", 2) EXCEPT !.ns = "deep.ns"])>>), [EnumS("pkg.Color", <<"R", "G">>) EXCEPT !.ns = "n"]}
L2 == {ArrayS(ArrayS(P("long"))), MapS(UnionS(<<P("null"), MapS(P("bytes"))>>)), ArrayS(UnionS(<<P("null"), Rec("In", "", <<FieldS("x", P("double"))>>)>>)),
       Rec("Outer", "ns1", <<FieldS("in", Rec("Inner", "ns2", <<FieldS("l", ArrayS(P("string"))), FieldS("e", EnumS("Suit", <<"S", "H">>))>>)),
                             FieldS("u", UnionS(<<P("null"), MapS(ArrayS(FixedS("F3", 3)))>>)), FieldS("d", LT("int", "date"))>>),
       Rec("Refs", "", <<FieldS("first", Rec("Node", "", <<FieldS("v", P("long"))>>)), FieldS("again", P("Node"))>>)}
Universe == IF Size = "quick" THEN Prims \cup Logical \cup Named0 \cup L1 ELSE Prims \cup Logical \cup Named0 \cup L1 \cup L2
                                                                               \cup {ArrayS(s) : s \in Logical \cup Named0} \cup {UnionS(<<P("null"), s>>) : s \in L1 \ {u \in L1 : u.k = "union"}}

Init == x \in Universe /\ ph = 0
Next == ph = 0 /\ ph' = 1 /\ x' = x

RoundTrip == ph = 1 => /\ Parse(Serialise(x)) = x
                       /\ \A v \in 0..5 : Parse(Vary(Serialise(x), v)) = x
\* documents that are not schemas
Rejects == ph = 1 => /\ Parse(JObj(<<Mem("name", JStr("n"))>>)) = BadS
                     /\ Parse(JNum(5)) = BadS
                     /\ Parse(JObj(<<Mem("type", JNum(5))>>)) = BadS
                     /\ (x.k = "record" => Parse(JObj(<<Mem("type", JStr("record")), Mem("name", JStr("n"))>>)) = BadS)
DumpOK == (Dump /\ ph = 1) => CSVWrite("%1$s", <<ToJson([s |-> x])>>, "cases.ndjson")
=============================================================================
