INIT Init
NEXT Next
INVARIANTS Inv DumpOK
CHECK_DEADLOCK FALSE
