-------------------------------- MODULE Heap --------------------------------
(***************************************************************************)
(* Why decoded values must be referenced through typed pointer slots (C11).*)
(* A heap of objects; every object has words, some of which the collector  *)
(* knows to be pointers (typed) and some it treats as plain data (untyped).*)
(* GC frees everything not reachable from the roots through typed words;   *)
(* Churn lets unrelated allocation reuse (and overwrite) freed objects.    *)
(* The decoder's allocation mechanisms are actions:                        *)
(*   "bank-typed"   ResourceBank.Alloc(T): array allocated with T's type   *)
(*   "new-array"    unsafe_NewArray(elem): typed by the element type       *)
(*   "map-slot"     MapCodec.New after the fix: a pointer-typed slot that  *)
(*                  Read fills with the real map                           *)
(*   "map-header"   MapCodec.New before the fix: a map header whose first  *)
(*                  word (a count, untyped) receives the real map          *)
(* GCSafe: whatever a delivered value reaches through any word, it reaches *)
(* through typed words -- so no interleaving of GC/Churn can free or       *)
(* overwrite it.  The constant Mechanisms selects what the decoder uses;   *)
(* with "map-header" included TLC finds the violation (a sanity check that *)
(* the invariant is not vacuous).                                          *)
(***************************************************************************)
EXTENDS Integers, FiniteSets, TLC

CONSTANTS MaxObj, Mechanisms
VARIABLES objs,     \* id -> [alive, typed: set of word names, w: word name -> target id or 0, clobbered]
          root,     \* the delivered value's top object (0 = none yet)
          steps

vars == <<objs, root, steps>>
Ids == 1..MaxObj
Words == {"a", "b"}
Dead == [alive |-> FALSE, typed |-> {}, w |-> [x \in Words |-> 0], clobbered |-> FALSE]

Init == objs = [i \in Ids |-> Dead] /\ root = 0 /\ steps = 0
Fresh == {i \in Ids : ~objs[i].alive}

\* the record delivered to the callback: a bank slot typed as the struct; its word "a" is a pointer field
Deliver == /\ root = 0 /\ Fresh # {}
           /\ LET i == CHOOSE i \in Fresh : TRUE IN
              /\ objs' = [objs EXCEPT ![i] = [alive |-> TRUE, typed |-> {"a"}, w |-> [x \in Words |-> 0], clobbered |-> FALSE]]
              /\ root' = i
           /\ steps' = steps + 1

\* decode a pointer / map field of object p through mechanism m: allocates what New returns (n) and what Read creates (v)
Decode(p, m) ==
  /\ m \in Mechanisms /\ objs[p].alive /\ objs[p].w["a"] = 0 /\ Cardinality(Fresh) >= 2 /\ steps < 6
  /\ LET n == CHOOSE i \in Fresh : TRUE
         v == CHOOSE i \in Fresh \ {n} : TRUE
         \* what New returns: which of its words the collector treats as pointers
         newTyped == IF m = "map-header" THEN {} ELSE {"a"}
     IN objs' = [objs EXCEPT ![p].w["a"] = n,
                             ![n] = [alive |-> TRUE, typed |-> newTyped, w |-> [x \in Words |-> IF x = "a" THEN v ELSE 0], clobbered |-> FALSE],
                             ![v] = [alive |-> TRUE, typed |-> {"a"}, w |-> [x \in Words |-> 0], clobbered |-> FALSE]]
  /\ steps' = steps + 1 /\ UNCHANGED root

RECURSIVE ReachT(_, _)
Targets(i, typedOnly) == {objs[i].w[y] : y \in {z \in Words : ~typedOnly \/ z \in objs[i].typed}}
Step1(Q, typedOnly) == Q \cup ((UNION {Targets(i, typedOnly) : i \in Q}) \ {0})
ReachT(S, typedOnly) == LET N == Step1(S, typedOnly) IN IF N = S THEN S ELSE ReachT(N, typedOnly)
Roots == IF root = 0 THEN {} ELSE {root}

GC == /\ steps < 8
      /\ objs' = [i \in Ids |-> IF objs[i].alive /\ i \notin ReachT(Roots, TRUE) THEN [Dead EXCEPT !.clobbered = TRUE] ELSE objs[i]]
      /\ steps' = steps + 1 /\ UNCHANGED root
Next == Deliver \/ GC \/ (\E p \in Ids, m \in Mechanisms : Decode(p, m))
Spec == Init /\ [][Next]_vars

\* everything the delivered value reaches is reachable for the collector, hence alive and never clobbered
GCSafe == /\ ReachT(Roots, FALSE) = ReachT(Roots, TRUE)
          /\ \A i \in ReachT(Roots, FALSE) : objs[i].alive /\ ~objs[i].clobbered
=============================================================================
