------------------------------ MODULE GoModel ------------------------------
(***************************************************************************)
(* The relation between Go values (as projected by harness/project.go) and *)
(* Avro datums: which datum a Go value denotes under a schema (direction   *)
(* "w": what a writer must have produced) and which Go value a datum       *)
(* becomes when read into a target (direction "r").  This is the           *)
(* documented mapping of the library (readme, package doc, SchemaForType   *)
(* comments) plus the statement of properties C01-C04, C13; it contains    *)
(* nothing derived from the codec implementations.                         *)
(*                                                                         *)
(* Go value nodes (kind-specific fields):                                  *)
(*   bool[b] int[b,w] f32[b,b2,nan] f64[b,b32,nan] string[b] bytes[b,nil]  *)
(*   bytearr[b] slice[c,nil] map[c,nil] entry[b,c] ptr[c] struct[c]        *)
(*   field[n,omit,c] time[b,off,zero] nullint/nullbool/nullfloat/          *)
(*   nullstring/nulltime[valid,c]                                          *)
(***************************************************************************)
EXTENDS AvroWire, TimeParse

NullKinds == {"nullint", "nullbool", "nullfloat", "nullstring", "nulltime"}

IsNullS(s)    == s.k = "null"
Nullable(s)   == s.k = "union" /\ Len(s.c) = 2 /\ (IsNullS(s.c[1]) \/ IsNullS(s.c[2]))
NullIdx(s)    == IF IsNullS(s.c[1]) THEN 0 ELSE 1
NonNullS(s)   == s.c[(1 - NullIdx(s)) + 1]

AllZero(b) == \A i \in 1..Len(b) : b[i] = 0
\* +0 or -0
FloatZeroish(b) == \A i \in 1..Len(b) : (IF i = Len(b) THEN b[i] \in {0, 128} ELSE b[i] = 0)
IsNaN32(b) == (b[4] % 128 = 127) /\ (b[3] >= 128) /\ ((b[3] % 128) + b[2] + b[1] > 0)
IsNaN64(b) == (b[8] % 128 = 127) /\ (b[7] >= 240) /\ ((b[7] % 16) + b[6] + b[5] + b[4] + b[3] + b[2] + b[1] > 0)

RECURSIVE IsZeroV(_)
IsZeroV(g) ==
  CASE g.k = "bool"   -> g.b = <<0>>
    [] g.k = "int"    -> AllZero(g.b)
    [] g.k \in {"f32", "f64"} -> AllZero(g.b)
    [] g.k \in {"string", "bytes"} -> g.b = <<>>
    [] g.k = "bytearr" -> AllZero(g.b)
    [] g.k \in {"slice", "map", "ptr"} -> g.c = <<>>
    [] g.k = "struct" -> \A i \in 1..Len(g.c) : IsZeroV(g.c[i].c[1])
    [] g.k = "time"   -> g.zero
    [] g.k \in NullKinds -> ~g.valid
    [] g.k = "uint"   -> AllZero(g.b)
    [] g.k = "array"  -> \A i \in 1..Len(g.c) : IsZeroV(g.c[i])
    [] g.k = "other"  -> g.zero
    [] OTHER -> FALSE

\* every bool in the value holds 0 or 1 (a bool variable holding any other byte is not a Go value)
RECURSIVE BoolsValid(_)
BoolsValid(g) == IF g.k = "bool" THEN g.b \in {<<0>>, <<1>>}
                 ELSE IF "c" \in DOMAIN g THEN \A i \in 1..Len(g.c) : BoolsValid(g.c[i]) ELSE TRUE

\* write direction, nullable position: must the value be the null branch / the non-null branch?
ScalarKinds == {"bool", "int", "f32", "f64", "string", "bytes"}
MustNull(g, omit) == \/ (g.k = "ptr" /\ g.c = <<>>)
                     \/ (g.k \in NullKinds /\ ~g.valid)
                     \/ (omit /\ g.k \in ScalarKinds /\ IsZeroV(g))
\* cases the statement leaves open (see DESIGN section 7): zero time.Time, empty collections and zero
\* structs under omitempty, negative zero under omitempty
EitherBranch(g, omit) == \/ (g.k = "time" /\ g.zero)
                         \/ (g.k = "nulltime" /\ g.valid /\ g.c[1].zero)
                         \/ (omit /\ g.k \in {"slice", "map"} /\ g.c = <<>>)
                         \/ (omit /\ g.k = "struct" /\ IsZeroV(g))
                         \/ (omit /\ g.k \in {"f32", "f64"} /\ FloatZeroish(g.b))
MustNonNull(g, omit) == ~MustNull(g, omit) /\ ~EitherBranch(g, omit)

(* ---------------- time.Time against string / date / timestamp schemas ----------------- *)
(* time nodes carry the civil fields in their own zone (y mo d h mi s ns off), and the    *)
(* instant as days = floor(unix / 86400), sod = second of that day, ns.                   *)
UnitOf(lt) == CASE lt = "timestamp-millis" -> "ms" [] lt = "timestamp-micros" -> "us" [] OTHER -> "ns"   \* plain long: the library's nanosecond convention
PerSec(u)  == CASE u = "ms" -> 1000 [] u = "us" -> 1000000 [] OTHER -> 1000000000
MulUnit(a, u) == CASE u = "ms" -> MulSmall(a, 1000) [] u = "us" -> MulSmall(a, 1000000) [] OTHER -> MulSmall(MulSmall(MulSmall(a, 1000), 1000), 1000)
\* floor(instant / unit) as an 8-byte two's-complement long, or <<>> when it does not fit
StoredFloor(g, u) ==
  LET fu == g.ns \div (1000000000 \div PerSec(u)) IN
  IF g.days >= 0 THEN
       LET v == AddBig(MulUnit(AddBig(MulSmall(Small(g.days), 86400), Small(g.sod)), u), Small(fu)) IN IF FitsPos63(v) THEN Low8(v) ELSE <<>>
  ELSE LET m == SubBig(MulUnit(SubBig(MulSmall(Small(-g.days), 86400), Small(g.sod)), u), Small(fu)) IN
       IF m[9] = 0 /\ m[10] = 0 /\ (m[8] < 128 \/ (m[8] = 128 /\ \A i \in 1..7 : m[i] = 0)) THEN Neg8(m) ELSE <<>>
ExactIn(g, u) == g.ns % (1000000000 \div PerSec(u)) = 0
Plus1(b8) == SubSeq(AddBig(b8 \o <<0, 0>>, Small(1)), 1, 8)

RepTime(s, d, g, dir) ==
  CASE s.k = "string" -> d.k = "string" /\ SameCivil(ParseRFC3339(d.b), g)
    [] s.k = "int" /\ s.lt = "date" ->
         /\ d.k = "long"
         /\ IF g.sod = 0 /\ g.ns = 0 THEN d.b = IntBytes8(g.days) /\ (dir = "r" => g.off = 0)
            ELSE dir = "w" /\ d.b = IntBytes8(g.days)        \* not a whole day: the day the instant falls in (floor; what decodes back to it at day resolution)
    [] s.k = "long" ->
         LET u == UnitOf(s.lt)
             f == StoredFloor(g, u) IN
         /\ d.k = "long" /\ f # <<>>
         /\ IF ExactIn(g, u) THEN d.b = f /\ (dir = "r" => g.off = 0)
            ELSE dir = "w" /\ d.b = f                        \* floor: the stored value decodes to the instant truncated to the unit (time.Truncate, UnixMilli/UnixMicro)
    [] OTHER -> FALSE

RECURSIVE Rep(_, _, _, _, _), RepNN(_, _, _, _), RepFields(_, _, _, _)

Rep(s, d, g, omit, dir) ==
  IF s.k = "union" THEN
     IF d.k # "union" THEN FALSE
     ELSE IF Nullable(s) THEN
        IF d.b[1] = NullIdx(s) THEN (IF dir = "w" THEN ~MustNonNull(g, omit) ELSE IsZeroV(g))
        ELSE (dir = "w" => ~MustNull(g, omit)) /\ RepNN(NonNullS(s), d.c[1], g, dir)
     ELSE RepNN(s.c[d.b[1] + 1], d.c[1], g, dir)
  ELSE RepNN(s, d, g, dir)

KeysDistinct(es) == \A i, j \in 1..Len(es) : i # j => es[i].b # es[j].b

RepNN(s, d, g, dir) ==
  CASE s.k = "null" -> dir = "r" /\ d.k = "null" /\ IsZeroV(g)       \* a null datum leaves the target untouched
    [] g.k = "ptr" ->
         IF g.c = <<>> THEN
              \* a nil pointer outside a union: only a pointer to a slice or map, written as the empty collection
              dir = "w" /\ s.k \in {"array", "map"} /\ d.k = s.k /\ d.c = <<>>
         ELSE IF s.k = "union" THEN Rep(s, d, g.c[1], FALSE, dir) ELSE RepNN(s, d, g.c[1], dir)
    [] g.k \in NullKinds -> g.valid /\ RepNN(s, d, g.c[1], dir)
    [] g.k = "bool"   -> s.k = "boolean" /\ d.k = "boolean" /\ d.b = g.b
    [] g.k = "int"    -> s.k \in {"int", "long"} /\ d.k = "long" /\ d.b = g.b
    [] g.k = "f32"    -> \/ (s.k = "float" /\ d.k = "float" /\ d.b = g.b)
                         \/ (s.k = "double" /\ d.k = "double" /\ (IF g.nan THEN IsNaN64(d.b) ELSE d.b = g.b2))
    [] g.k = "f64"    -> \/ (s.k = "double" /\ d.k = "double" /\ d.b = g.b)
                         \/ (s.k = "float" /\ d.k = "float" /\ (IF g.nan THEN IsNaN32(d.b) ELSE d.b = g.b32))
    [] g.k = "string" -> s.k = "string" /\ d.k = "string" /\ d.b = g.b
    [] g.k = "bytes"  -> s.k = "bytes" /\ d.k = "bytes" /\ d.b = g.b
    [] g.k = "bytearr" -> s.k = "fixed" /\ d.k = "fixed" /\ d.b = g.b
    [] g.k = "slice"  -> s.k = "array" /\ d.k = "array" /\ Len(d.c) = Len(g.c)
                         /\ \A i \in 1..Len(g.c) : Rep(s.c[1], d.c[i], g.c[i], FALSE, dir)
    [] g.k = "map"    -> s.k = "map" /\ d.k = "map" /\ Len(d.c) = Len(g.c) /\ KeysDistinct(d.c)
                         /\ \A i \in 1..Len(d.c) : \E j \in 1..Len(g.c) :
                               d.c[i].b = g.c[j].b /\ Rep(s.c[1], d.c[i].c[1], g.c[j].c[1], FALSE, dir)
    [] g.k = "struct" -> s.k = "record" /\ d.k = "record" /\ Len(d.c) = Len(s.c) /\ RepFields(s, d, g, dir)
    [] g.k = "time"   -> RepTime(s, d, g, dir)
    [] OTHER -> FALSE

RepFields(s, d, g, dir) ==
  /\ \A i \in 1..Len(s.c) :
        LET J == {j \in 1..Len(g.c) : g.c[j].n = s.c[i].name} IN
        IF J = {} THEN dir = "r"
        ELSE LET j == CHOOSE x \in J : \A y \in J : y <= x IN Rep(s.c[i].c[1], d.c[i], g.c[j].c[1], g.c[j].omit, dir)
  /\ dir = "r" => \A j \in 1..Len(g.c) :
        (\A i \in 1..Len(s.c) : s.c[i].name # g.c[j].n) => IsZeroV(g.c[j].c[1])

(* Does every integer of the datum fit the Go field it is read into?  Go type nodes: [k, w, name, c]; *)
(* struct fields [n, c = <<type>>]; map c = <<key type, element type>>.                               *)
FieldNamed(t, nm) == LET J == {j \in 1..Len(t.c) : t.c[j].n = nm} IN IF J = {} THEN 0 ELSE CHOOSE x \in J : \A y \in J : y <= x
RECURSIVE Fits(_, _, _)
Fits(s, d, t) ==
  CASE t.k = "ptr" -> IF s.k = "union" /\ Nullable(s) THEN (d.b[1] = NullIdx(s) \/ Fits(NonNullS(s), d.c[1], t.c[1])) ELSE Fits(s, d, t.c[1])
    [] s.k = "union" -> IF Nullable(s) /\ d.b[1] = NullIdx(s) THEN TRUE ELSE Fits(s.c[d.b[1] + 1], d.c[1], t)
    [] t.k = "int" -> d.k # "long" \/ FitsWidth(d.b, t.w)
    [] t.k = "slice" -> s.k # "array" \/ \A i \in 1..Len(d.c) : Fits(s.c[1], d.c[i], t.c[1])
    [] t.k = "map" -> s.k # "map" \/ \A i \in 1..Len(d.c) : Fits(s.c[1], d.c[i].c[1], t.c[2])
    [] t.k = "struct" -> s.k # "record" \/ \A i \in 1..Len(s.c) :
                            LET j == FieldNamed(t, s.c[i].name) IN j = 0 \/ Fits(s.c[i].c[1], d.c[i], t.c[j].c[1])
    [] OTHER -> TRUE

(* ------------- the documented normalisations of C01 ------------------- *)
RECURSIVE NormV(_, _)
NormV(g, omit) ==
  \* a struct is never omitted as a whole (its fields are normalised one by one)
  IF omit /\ g.k # "struct" /\ (IsZeroV(g) \/ (g.k \in {"f32", "f64"} /\ FloatZeroish(g.b))) THEN [k |-> "zero"]
  ELSE CASE g.k = "bytes"  -> [k |-> "bytes", b |-> g.b]
         [] g.k = "slice"  -> [k |-> "slice", c |-> [i \in 1..Len(g.c) |-> NormV(g.c[i], FALSE)]]
         [] g.k = "map"    -> [k |-> "map", c |-> [i \in 1..Len(g.c) |-> [b |-> g.c[i].b, v |-> NormV(g.c[i].c[1], FALSE)]]]
         \* a pointer to a slice or map has a plain array/map schema (C15), which cannot carry null:
         \* nil and pointer-to-empty are the same datum
         [] g.k = "ptr"    -> IF g.c # <<>> /\ g.c[1].k \in {"slice", "map"} /\ g.c[1].c = <<>> THEN [k |-> "ptr", c |-> <<>>]
                              ELSE [k |-> "ptr", c |-> [i \in 1..Len(g.c) |-> NormV(g.c[i], FALSE)]]
         [] g.k = "struct" -> [k |-> "struct", c |-> [i \in 1..Len(g.c) |->
                                  IF g.c[i].n = "-" THEN [k |-> "excluded"] ELSE NormV(g.c[i].c[1], g.c[i].omit)]]
         [] g.k = "time"   -> IF g.zero THEN [k |-> "zero"] ELSE [k |-> "time", b |-> g.b, off |-> g.off]
         [] g.k \in NullKinds -> IF ~g.valid THEN [k |-> "zero"] ELSE [k |-> g.k, c |-> <<NormV(g.c[1], FALSE)>>]
         [] g.k = "f32"    -> IF g.nan THEN [k |-> "f32nan"] ELSE [k |-> "f32", b |-> g.b]   \* float32 travels as a double: a NaN stays a NaN, its payload is not demanded
         [] g.k = "f64"    -> [k |-> "f64", b |-> g.b]
         [] OTHER -> g

SameValue(a, b) == NormV(a, FALSE) = NormV(b, FALSE)
=============================================================================
