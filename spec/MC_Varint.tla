------------------------------ MODULE MC_Varint ------------------------------
(***************************************************************************)
(* Model-level theorems about the varint layer of AvroWire (C17).          *)
(* Three enumerations, selected by the constant Which:                     *)
(*  "int16"  every 16-bit value: the bit layer agrees with the integer     *)
(*           layer (Zig(n) = 2n / -2n-1, groups by div/mod), the encoding  *)
(*           is the unique shortest form and ParseVarlong inverts it;      *)
(*  "bytes8" every long whose 8 bytes are drawn from {00,01,7f,80,ff}      *)
(*           restricted by Alphabet8: inverse, shortest, <= 10 bytes;      *)
(*  "strs"   every byte string of length <= MaxLen over Alphabet:          *)
(*           ParseVarlong is total and classifies it; when it is a value,  *)
(*           re-encoding is never longer than what was parsed.             *)
(***************************************************************************)
EXTENDS AvroWire

CONSTANTS Which, Alphabet8, Alphabet, MaxLen
VARIABLES x, ph

\* integer layer, written independently of the bit layer
Zig(n) == IF n >= 0 THEN 2 * n ELSE -2 * n - 1
RECURSIVE Groups(_)
Groups(z) == IF z < 128 THEN <<z>> ELSE <<(z % 128) + 128>> \o Groups(z \div 128)

WellFormed(e) == /\ Len(e) >= 1 /\ Len(e) <= 10
                 /\ \A i \in 1..(Len(e) - 1) : e[i] >= 128
                 /\ e[Len(e)] < 128
                 /\ (Len(e) > 1 => e[Len(e)] # 0)          \* shortest: no padding group
                 /\ (Len(e) = 10 => e[10] <= 1)

RECURSIVE StrsUpTo(_)
StrsUpTo(n) == IF n = 0 THEN {<<>>} ELSE LET P == StrsUpTo(n - 1) IN P \cup {Append(s, a) : s \in {p \in P : Len(p) = n - 1}, a \in Alphabet}

\* Two-level enumeration so that TLC's workers share the work: a small set of
\* seeds as initial states (ph = 0), each expanded by Next into its cases (ph = 1).
Seeds == CASE Which = "int16"  -> -128..127
           [] Which = "bytes8" -> [1..4 -> Alphabet8]
           [] Which = "strs"   -> StrsUpTo(2)
Expand(s) == CASE Which = "int16"  -> {s * 256 + lo : lo \in 0..255}
               [] Which = "bytes8" -> {s \o t : t \in [1..4 -> Alphabet8]}
               [] Which = "strs"   -> IF Len(s) < 2 THEN {s} ELSE {s \o t : t \in StrsUpTo(MaxLen - 2)}
Init == x \in Seeds /\ ph = 0
Next == ph = 0 /\ x' \in Expand(x) /\ ph' = 1

InvInt16 == (Which = "int16" /\ ph = 1) =>
  LET b == IntBytes8(x)
      e == VarlongOf(b)
      p == ParseVarlong(e, 1)
  IN /\ e = Groups(Zig(x))
     /\ WellFormed(e)
     /\ p.st = "ok" /\ p.b = b /\ p.pos = Len(e) + 1
     /\ IsSmall(b) /\ SmallVal(b) = x
     /\ FitsWidth(b, 2) /\ FitsWidth(b, 4)
     /\ (FitsWidth(b, 1) <=> (x >= -128 /\ x <= 127))

InvBytes8 == (Which = "bytes8" /\ ph = 1) =>
  LET e == VarlongOf(x)
      p == ParseVarlong(e, 1)
  IN /\ WellFormed(e)
     /\ p.st = "ok" /\ p.b = x /\ p.pos = Len(e) + 1
     /\ BitsToBytes(UnZigZag(ZigZag(BytesToBits(x)))) = x
     \* trailing garbage is not consumed
     /\ ParseVarlong(e \o <<255>>, 1).pos = Len(e) + 1
     \* every proper prefix is truncated
     /\ \A k \in 0..(Len(e) - 1) : ParseVarlong(SubSeq(e, 1, k), 1).st = "trunc"

InvStrs == (Which = "strs" /\ ph = 1) =>
  LET p == ParseVarlong(x, 1) IN
  /\ p.st \in {"ok", "trunc", "over"}
  /\ (p.st = "trunc" <=> \A i \in 1..Len(x) : x[i] >= 128)
  /\ (p.st = "ok" => /\ Len(VarlongOf(p.b)) <= p.pos - 1
                     /\ ParseVarlong(VarlongOf(p.b), 1).b = p.b)
  /\ (p.st = "over" => Len(x) >= 10)
=============================================================================
