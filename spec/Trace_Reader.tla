----------------------------- MODULE Trace_Reader -----------------------------
(***************************************************************************)
(* Judge for C07 and C08: the container reader on prefixes of a valid file *)
(* (every cut position = every crash point of the writer), on single-bit   *)
(* corruptions of sync markers / checksums / compressed payloads, on       *)
(* damaged headers, and with a callback that fails at record i.            *)
(*                                                                         *)
(* rd_open fixes the file under test (parsed here with Container!ParseFile *)
(* -- the harness's own view of the file is not used) and the values that  *)
(* were written.  Each following event is one ReadFile call on a variant   *)
(* of that file; the expectation is computed from the variant's position   *)
(* relative to the field boundaries of the parsed file.                    *)
(***************************************************************************)
EXTENDS GoModel, Container, Json

Trace == ndJsonDeserialize("trace.ndjson")
VARIABLES l, rej, file, pf, inputs, codec, valid
vars == <<l, rej, file, pf, inputs, codec, valid>>

Chk(cond, msg) == IF cond THEN <<>> ELSE <<msg>>

\* number of records in blocks 1..k of the parsed file
RECURSIVE RecsUpTo(_, _)
RecsUpTo(blocks, k) == IF k = 0 THEN 0 ELSE blocks[k].count + RecsUpTo(blocks, k - 1)

\* delivered values are exactly inputs[1..n]
DeliveredIs(e, n) == /\ Len(e.delivered) = n
                     /\ \A i \in 1..n : SameValue(inputs[i], e.delivered[i])
                     /\ Len(e.recheck) = n /\ \A i \in 1..n : SameValue(inputs[i], e.recheck[i])
DeliveredPrefixBetween(e, lo, hi) == /\ Len(e.delivered) >= lo /\ Len(e.delivered) <= hi
                                     /\ \A i \in 1..Len(e.delivered) : SameValue(inputs[i], e.delivered[i])

(* ------------------------------- C08 ----------------------------------- *)
\* What a reader must do on the first `cut` bytes: K = records of the blocks whose payload is completely
\* present; clean = the prefix ends exactly at the end of the header or of a block.
CutExpect(cut) ==
  LET bs == SubSeq(file, 1, cut) IN
  IF cut < pf.hdr.pos - 1 THEN [k |-> 0, clean |-> FALSE]      \* inside the header
  ELSE CutWalk(bs, pf.hdr.pos, 0)

FailsCut(e) ==
  LET x == CutExpect(e.cut) IN
  Chk(e.panic = "", "reader panicked")
  \o Chk(DeliveredIs(e, x.k), "delivered records are not exactly the records of the completely present blocks")
  \o (IF x.clean THEN Chk(e.err = "none", "prefix ends at a header/block boundary but an error was returned")
      ELSE Chk(e.err = "other", "truncated file but success was reported"))

(* ------------------------------- C07 ----------------------------------- *)
\* callback fails at record index i (0-based): reading stops there, the error is returned unchanged
FailsCb(e) ==
  Chk(e.panic = "", "reader panicked")
  \o Chk(e.err = "sentinel", "callback error not returned unchanged")
  \o Chk(e.calls = e.failAt + 1, "callback called again after it returned an error (or not reached)")
  \o Chk(DeliveredIs(e, e.failAt), "records before the failing callback were not delivered exactly")

\* the same on a file whose block holding record i has a damaged / missing sync marker.  A reader may refuse such a
\* block before it delivers anything from it (then the callback is never reached at record i and the error is the
\* reader's own); but once the callback has been reached and has returned its error, that error is what comes back
FailsCbDmg(e) ==
  Chk(e.panic = "", "reader panicked")
  \o (IF e.calls = e.failAt + 1
      THEN Chk(e.err = "sentinel", "the callback returned an error at this record but a different error (or success) came back")
           \o Chk(DeliveredIs(e, e.failAt), "records before the failing callback were not delivered exactly")
      ELSE Chk(e.calls <= e.failAt /\ e.err = "other", "callback called again after it returned an error, or a damaged block read with success")
           \o Chk(DeliveredPrefixBetween(e, 0, e.failAt), "wrong records delivered ahead of a damaged block"))

\* a single flipped bit at 1-based position e.pos
BlockOfPos(p) == LET Q == {k \in 1..Len(pf.blocks) : p >= pf.blocks[k].start /\ p < pf.blocks[k].end} IN IF Q = {} THEN 0 ELSE CHOOSE k \in Q : TRUE
FailsFlip(e) ==
  LET p == e.pos
      k == BlockOfPos(p)
      total == RecsUpTo(pf.blocks, Len(pf.blocks)) IN
  Chk(e.panic = "", "reader panicked")
  \o (IF p >= pf.hdr.pos - 16 /\ p < pf.hdr.pos THEN
        \* header sync damaged: the first block's trailing marker no longer matches
        IF Len(pf.blocks) = 0 THEN Chk(e.err = "none" /\ DeliveredIs(e, 0), "empty file with damaged header sync must read as empty")
        ELSE Chk(e.err = "other", "sync marker mismatch accepted") \o Chk(DeliveredPrefixBetween(e, 0, pf.blocks[1].count), "records delivered beyond the block whose sync check fails")
      ELSE IF k = 0 THEN <<"flip outside header sync and blocks (harness bug)">>
      ELSE IF p >= pf.blocks[k].syncAt THEN
        Chk(e.err = "other", "block sync marker differs from the header's but no error")
        \o Chk(DeliveredPrefixBetween(e, RecsUpTo(pf.blocks, k - 1), RecsUpTo(pf.blocks, k)), "wrong records delivered around a damaged sync marker")
      ELSE IF p >= pf.blocks[k].dataAt THEN
        \* inside the (compressed) payload or checksum of block k
        IF ~e.dec.ok \/ ~e.dec.crc THEN
             Chk(e.err = "other", "decompressor / checksum rejects the block but ReadFile reported success")
             \o Chk(DeliveredIs(e, RecsUpTo(pf.blocks, k - 1)), "a record of the block whose payload failed decompression / checksum was delivered (or earlier records are missing)")
        ELSE IF e.dec.same THEN Chk(e.err = "none" /\ DeliveredIs(e, total), "payload still decompresses to the same data but the read differs")
        \* the independent decompressor accepts the damaged payload (with different data): nothing is
        \* demanded of this block; the records of the earlier blocks must still have been delivered intact
        ELSE LET n0 == RecsUpTo(pf.blocks, k - 1) IN
             Chk(Len(e.delivered) >= n0 /\ \A i \in 1..n0 : SameValue(inputs[i], e.delivered[i]), "records before the damaged block are wrong")
      ELSE <<"flip in block framing (not a C07 site)">>)

\* damaged headers (stand-alone files built by the harness's own writer)
FailsHdr(e) ==
  Chk(e.panic = "", "reader panicked")
  \o (CASE e.variant \in {"intact", "nocodec", "intact-split1", "nocodec-split1", "intact-split4", "nocodec-split4"} ->
             Chk(e.err = "none", "valid file rejected (a header without avro.codec means uncompressed)")
             \o Chk(Len(e.delivered) = 1 /\ (Len(e.delivered) # 1 \/ SameValue(e.input, e.delivered[1])), "record not delivered")
        [] e.variant \in {"badmagic", "unknowncodec", "noschema", "unknowncodec-empty", "unknowncodec-upper", "unknowncodec-space", "unknowncodec-zstd",
                           "unknowncodec-split1", "unknowncodec-zstd-split1", "unknowncodec-split4", "unknowncodec-zstd-split4"} ->
             Chk(e.err = "other", "damaged header accepted: " \o e.variant) \o Chk(e.delivered = <<>>, "records delivered from a file with a damaged header")
        [] OTHER -> <<"unknown header variant">>)

Fails(e) == CASE e.op = "rd_cut"  -> FailsCut(e)
              [] e.op = "rd_cb"   -> FailsCb(e)
              [] e.op = "rd_cb_dmg" -> FailsCbDmg(e)
              [] e.op = "rd_flip" -> FailsFlip(e)
              [] e.op = "rd_hdr"  -> FailsHdr(e)
              [] OTHER -> <<"unknown event">>

Init == l = 1 /\ rej = <<>> /\ file = <<>> /\ pf = [ok |-> FALSE] /\ inputs = <<>> /\ codec = "" /\ valid = FALSE

Step ==
  /\ l <= Len(Trace)
  /\ l' = l + 1
  /\ LET e == Trace[l] IN
     IF e.op = "rd_open" THEN
        LET p == ParseFile(e.file)
            ok == p.ok /\ RecsUpTo(p.blocks, Len(p.blocks)) = Len(e.inputs) /\ \A k \in 1..Len(p.blocks) : p.blocks[k].sync = p.hdr.sync
        IN /\ file' = e.file /\ pf' = p /\ inputs' = e.inputs /\ codec' = e.codec /\ valid' = ok
           /\ rej' = IF ok THEN rej ELSE Append(rej, [line |-> l, seq |-> e.seq, key |-> e.key, why |-> <<"file under test is not a valid container for its inputs">>])
     ELSE /\ UNCHANGED <<file, pf, inputs, codec, valid>>
          /\ IF e.op # "rd_hdr" /\ ~valid THEN UNCHANGED rej
             ELSE LET f == Fails(e) IN
                  rej' = IF f = <<>> THEN rej ELSE Append(rej, [line |-> l, seq |-> e.seq, key |-> e.key, why |-> f])

Finish == /\ l = Len(Trace) + 1
          /\ JsonSerialize("verdict.json", [n |-> Len(Trace), rejected |-> rej])
          /\ l' = l + 1 /\ UNCHANGED <<rej, file, pf, inputs, codec, valid>>
Next == Step \/ Finish
Spec == Init /\ [][Next]_vars
=============================================================================
