SPECIFICATION Spec
CONSTANTS Holders = {h1, h2, h3} NBanks = 3 TypesB = {t1, t2} MaxOps = 8 MaxCap = 2 DoublePut = FALSE
INVARIANTS TypeOK PoolOnce Disjoint ZeroAtBirth
PROPERTY Intact
CHECK_DEADLOCK FALSE
