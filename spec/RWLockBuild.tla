----------------------------- MODULE RWLockBuild -----------------------------
(***************************************************************************)
(* Why the codec builder must not keep the registry's read lock while it   *)
(* recurses (C12: "independent ... codec-construction, registration ...    *)
(* operations ... each produces the result it would produce running        *)
(* alone" -- in particular each of them finishes).                         *)
(*                                                                         *)
(* Go's sync.RWMutex is writer-preferring: once a writer has announced     *)
(* itself (Lock called), new RLock calls wait until that writer is done,   *)
(* and the writer waits for the readers already inside.  The module        *)
(* Concurrency abstracts from this (plain readers/writer exclusion); here  *)
(* the lock is modelled faithfully and the builder is a recursive          *)
(* procedure: at every level of the type it looks its type up under the    *)
(* read lock, then builds the children.                                    *)
(*                                                                         *)
(*   HoldAcrossBuild = FALSE  what build.go does: RLock; lookup; RUnlock;  *)
(*                            only then call the registered builder /      *)
(*                            recurse.  Deadlock-free, every operation     *)
(*                            terminates (checked with fairness).          *)
(*   HoldAcrossBuild = TRUE   "defer RUnlock": the lock is released when   *)
(*                            the level returns.  A Register announced     *)
(*                            between two levels deadlocks the builder     *)
(*                            against the writer.  cfg RWLockBuild_defect  *)
(*                            must be violated (vacuity check).            *)
(*                                                                         *)
(* The design rule is the invariant NoRecursiveRLock; the trace spec       *)
(* Trace_Conc checks it on the hook events of real single-goroutine builds *)
(* (op "nesting") and checks completion of a real build racing a real      *)
(* Register (op "progress").                                               *)
(***************************************************************************)
EXTENDS Integers, FiniteSets, TLC

CONSTANTS Builders, Writers, Depth, HoldAcrossBuild
ASSUME Builders \cap Writers = {} /\ Depth \in Nat \ {0} /\ HoldAcrossBuild \in BOOLEAN

Procs == Builders \cup Writers

VARIABLES
  rcount,     \* rcount[p]: read holds of p (RLock calls not yet matched by RUnlock)
  writer,     \* the process holding the write lock, or 0
  pending,    \* writers that have called Lock and wait (they block new readers)
  pc, level,  \* builder: program counter and current nesting level (1 = outermost)
  reg, got    \* the registry content (a version number) and what each builder saw at each level
vars == <<rcount, writer, pending, pc, level, reg, got>>

Init ==
  /\ rcount = [p \in Procs |-> 0] /\ writer = 0 /\ pending = {}
  /\ pc = [p \in Procs |-> IF p \in Builders THEN "rlock" ELSE "announce"]
  /\ level = [p \in Builders |-> 1]
  /\ reg = 0 /\ got = [p \in Builders |-> [l \in 1..Depth |-> -1]]

\* ---- sync.RWMutex ----
CanRLock == writer = 0 /\ pending = {}
CanLock  == writer = 0 /\ \A q \in Procs : rcount[q] = 0

\* ---- builder ----
BRLock(p) == /\ pc[p] = "rlock" /\ CanRLock
             /\ rcount' = [rcount EXCEPT ![p] = @ + 1]
             /\ pc' = [pc EXCEPT ![p] = "lookup"]
             /\ UNCHANGED <<writer, pending, level, reg, got>>
BLookup(p) == /\ pc[p] = "lookup"
              /\ got' = [got EXCEPT ![p][level[p]] = reg]
              /\ pc' = [pc EXCEPT ![p] = IF HoldAcrossBuild THEN "children" ELSE "runlock"]
              /\ UNCHANGED <<rcount, writer, pending, level, reg>>
BRUnlock(p) == /\ pc[p] = "runlock"
               /\ rcount' = [rcount EXCEPT ![p] = @ - 1]
               /\ pc' = [pc EXCEPT ![p] = "children"]
               /\ UNCHANGED <<writer, pending, level, reg, got>>
\* build the children: one more level, or return
BChildren(p) == /\ pc[p] = "children"
                /\ IF level[p] < Depth
                     THEN /\ level' = [level EXCEPT ![p] = @ + 1]
                          /\ pc' = [pc EXCEPT ![p] = "rlock"]
                          /\ UNCHANGED rcount
                     ELSE \* all levels return; with the deferred unlock every level releases now
                          /\ rcount' = [rcount EXCEPT ![p] = 0]
                          /\ pc' = [pc EXCEPT ![p] = "done"]
                          /\ UNCHANGED level
                /\ UNCHANGED <<writer, pending, reg, got>>

\* ---- Register ----
WAnnounce(p) == /\ pc[p] = "announce"
                /\ pending' = pending \cup {p}
                /\ pc' = [pc EXCEPT ![p] = "acquire"]
                /\ UNCHANGED <<rcount, writer, level, reg, got>>
WAcquire(p) == /\ pc[p] = "acquire" /\ CanLock
               /\ writer' = p /\ pending' = pending \ {p}
               /\ pc' = [pc EXCEPT ![p] = "write"]
               /\ UNCHANGED <<rcount, level, reg, got>>
WWrite(p) == /\ pc[p] = "write"
             /\ reg' = reg + 1
             /\ pc' = [pc EXCEPT ![p] = "release"]
             /\ UNCHANGED <<rcount, writer, pending, level, got>>
WRelease(p) == /\ pc[p] = "release"
               /\ writer' = 0
               /\ pc' = [pc EXCEPT ![p] = "done"]
               /\ UNCHANGED <<rcount, pending, level, reg, got>>

AllDone == \A p \in Procs : pc[p] = "done"
Next == \/ \E p \in Builders : BRLock(p) \/ BLookup(p) \/ BRUnlock(p) \/ BChildren(p)
        \/ \E p \in Writers : WAnnounce(p) \/ WAcquire(p) \/ WWrite(p) \/ WRelease(p)
        \/ (AllDone /\ UNCHANGED vars)          \* so that termination is not reported as deadlock
Spec == Init /\ [][Next]_vars /\ WF_vars(Next)

\* ---- properties ----
TypeOK == /\ rcount \in [Procs -> 0..Depth] /\ writer \in Procs \cup {0} /\ pending \subseteq Writers
Exclusion == writer # 0 => \A q \in Procs : rcount[q] = 0
\* the design rule: a goroutine never takes the read lock while it holds it
NoRecursiveRLock == \A p \in Procs : rcount[p] <= 1
\* a lookup returns the registration that was current when it happened: versions seen never decrease with the level
LookupsMonotone == \A p \in Builders : \A a, b \in 1..Depth :
                     (a < b /\ got[p][a] >= 0 /\ got[p][b] >= 0) => got[p][a] <= got[p][b]
Terminates == <>AllDone
=============================================================================
