------------------------------ MODULE BankPool ------------------------------
(***************************************************************************)
(* The ResourceBank pool seen from its users (C10).  Bank.tla models one   *)
(* owner per bank; here the owners are explicit: a *holder* is whoever was *)
(* handed a bank (a callback that keeps its record, a ReadBuf between two  *)
(* records).  The pool (sync.Pool) is a bag of banks: Put adds one copy,   *)
(* Get removes one copy or creates a fresh bank, the collector may drop    *)
(* copies.                                                                 *)
(*                                                                         *)
(* What keeps C10 true is a protocol, not a data structure: a bank is put  *)
(* into the pool exactly once per Get, by its holder.  Then (PoolOnce) no  *)
(* bank is in the pool twice or in the pool while held, no two holders     *)
(* hold the same bank, and the memory handed out to different holders is   *)
(* disjoint (Disjoint) and stays as its owner left it (Intact).            *)
(*                                                                         *)
(*   DoublePut = FALSE   the protocol of the library (ReadFile hands the   *)
(*                       bank to the callback and forgets it)              *)
(*   DoublePut = TRUE    the library closes a bank its holder has already  *)
(*                       closed (seeded change C12-bank-closed-twice-on-   *)
(*                       abort): cfg BankPool_defect must violate Disjoint *)
(*                       (vacuity check, run by C10)                       *)
(***************************************************************************)
EXTENDS Integers, FiniteSets, TLC

CONSTANTS Holders, NBanks, TypesB, MaxOps, MaxCap, DoublePut

VARIABLES arena,   \* bank -> type -> [arr, cap, len]
          pool,    \* bank -> number of copies in the pool
          held,    \* holder -> bank, or 0
          born,    \* banks that exist (were created by a Get on an empty pool)
          mem,     \* <<arr, idx>> -> content (0 = zero)
          live,    \* cells [holder, bank, arr, idx] handed out and not yet given back
          nextArr, ops, lastZero
vars == <<arena, pool, held, born, mem, live, nextArr, ops, lastZero>>

BankIds == 1..NBanks
EmptyArena == [t \in TypesB |-> [arr |-> 0, cap |-> 0, len |-> 0]]

Init == /\ arena = [b \in BankIds |-> EmptyArena] /\ pool = [b \in BankIds |-> 0]
        /\ held = [h \in Holders |-> 0] /\ born = {}
        /\ mem = [c \in {} |-> 0] /\ live = {} /\ nextArr = 1 /\ ops = 0 /\ lastZero = TRUE

\* newResourceBank(): one copy out of the pool, or a bank that did not exist yet
Get(h) == /\ ops < MaxOps /\ held[h] = 0
          /\ \E b \in BankIds :
               /\ \/ pool[b] > 0 /\ pool' = [pool EXCEPT ![b] = @ - 1] /\ born' = born
                  \/ b \notin born /\ born' = born \cup {b} /\ pool' = pool
               /\ held' = [held EXCEPT ![h] = b]
          /\ ops' = ops + 1 /\ UNCHANGED <<arena, mem, live, nextArr, lastZero>>

Alloc(h, t) ==
  /\ ops < MaxOps /\ held[h] # 0
  /\ LET b == held[h]
         a == arena[b][t]
         grow == a.len = a.cap
         newCap == IF a.cap = 0 THEN 1 ELSE 2 * a.cap
         arr == IF grow THEN nextArr ELSE a.arr
         idx == a.len + 1 IN
     /\ (grow => newCap <= MaxCap)
     /\ arena' = [arena EXCEPT ![b][t] = [arr |-> arr, cap |-> IF grow THEN newCap ELSE a.cap, len |-> idx]]
     /\ nextArr' = IF grow THEN nextArr + 1 ELSE nextArr
     /\ lastZero' = TRUE                                         \* typedmemclr as the slot is handed out
     /\ mem' = [c \in DOMAIN mem \cup {<<arr, idx>>} |-> IF c = <<arr, idx>> THEN 0 ELSE mem[c]]
     /\ live' = live \cup {[holder |-> h, bank |-> b, arr |-> arr, idx |-> idx]}
  /\ ops' = ops + 1 /\ UNCHANGED <<pool, held, born>>

AppWrite(c, v) == /\ ops < MaxOps /\ c \in live /\ mem' = [mem EXCEPT ![<<c.arr, c.idx>>] = v]
                  /\ ops' = ops + 1 /\ UNCHANGED <<arena, pool, held, born, live, nextArr, lastZero>>

\* the holder is done with everything it got from the bank; with the defect the library puts the bank back as well
Close(h) == /\ ops < MaxOps /\ held[h] # 0
            /\ LET b == held[h] IN
               /\ arena' = [arena EXCEPT ![b] = [t \in TypesB |-> [arena[b][t] EXCEPT !.len = 0]]]
               /\ pool' = [pool EXCEPT ![b] = @ + (IF DoublePut THEN 2 ELSE 1)]
            /\ held' = [held EXCEPT ![h] = 0]
            /\ live' = {c \in live : c.holder # h}
            /\ ops' = ops + 1 /\ UNCHANGED <<born, mem, nextArr, lastZero>>

\* sync.Pool forgets items at collections
Drop(b) == /\ pool[b] > 0 /\ pool' = [pool EXCEPT ![b] = @ - 1]
           /\ UNCHANGED <<arena, held, born, mem, live, nextArr, ops, lastZero>>

Next == \/ \E h \in Holders : Get(h) \/ Close(h) \/ \E t \in TypesB : Alloc(h, t)
        \/ \E c \in live, v \in {1, 2} : AppWrite(c, v)
        \/ \E b \in BankIds : Drop(b)
Spec == Init /\ [][Next]_vars

TypeOK == /\ pool \in [BankIds -> 0..(2 * MaxOps)] /\ held \in [Holders -> BankIds \cup {0}] /\ born \subseteq BankIds
PoolOnce == /\ \A b \in BankIds : pool[b] <= 1 /\ (pool[b] = 1 => \A h \in Holders : held[h] # b)
            /\ \A h, g \in Holders : (held[h] # 0 /\ held[h] = held[g]) => h = g
Disjoint == \A c, d \in live : (c.arr = d.arr /\ c.idx = d.idx) => c = d
ZeroAtBirth == lastZero
Intact == [][\A c \in live \cap live' : mem'[<<c.arr, c.idx>>] = mem[<<c.arr, c.idx>>] \/ (\E v \in {1, 2} : AppWrite(c, v))]_vars
=============================================================================
