------------------------------ MODULE Container ------------------------------
(***************************************************************************)
(* The Avro 1.8 object container file, from the specification text:        *)
(*   magic 'O' 'b' 'j' 1; file metadata as an Avro map<bytes>; 16-byte     *)
(*   sync marker; then blocks: long count, long byte-size, the serialized  *)
(*   objects (after the codec), the sync marker.                           *)
(* Compression is an environment function: this module never produces or   *)
(* interprets deflate/snappy bytes (see Trace specs: the raw payload comes *)
(* from an independent decompression recorded in the trace).               *)
(***************************************************************************)
EXTENDS AvroWire

Magic == <<79, 98, 106, 1>>
KeySchema == <<97, 118, 114, 111, 46, 115, 99, 104, 101, 109, 97>>      \* "avro.schema"
KeyCodec  == <<97, 118, 114, 111, 46, 99, 111, 100, 101, 99>>           \* "avro.codec"
NameNull    == <<110, 117, 108, 108>>
NameDeflate == <<100, 101, 102, 108, 97, 116, 101>>
NameSnappy  == <<115, 110, 97, 112, 112, 121>>
CodecBytes(c) == CASE c = "null" -> NameNull [] c = "deflate" -> NameDeflate [] c = "snappy" -> NameSnappy [] OTHER -> <<>>

MetaSchema == MapS(Prim("bytes"))

\* header: [ok, meta (sequence of entry datums: b = key bytes, c[1].b = value bytes), sync, pos (first byte after the header)]
ParseHeader(bs) ==
  IF Len(bs) < 4 \/ SubSeq(bs, 1, 4) # Magic THEN [ok |-> FALSE, meta |-> <<>>, sync |-> <<>>, pos |-> 0]
  ELSE LET m == Dec(MetaSchema, bs, 5) IN
       IF ~m.ok \/ ~Have(bs, m.pos, 16) THEN [ok |-> FALSE, meta |-> <<>>, sync |-> <<>>, pos |-> 0]
       ELSE [ok |-> TRUE, meta |-> m.d.c, sync |-> SubSeq(bs, m.pos, m.pos + 15), pos |-> m.pos + 16]

MetaHas(meta, key) == \E i \in 1..Len(meta) : meta[i].b = key
\* the last entry wins if a key is repeated
MetaGet(meta, key) == LET I == {i \in 1..Len(meta) : meta[i].b = key} IN meta[CHOOSE i \in I : \A j \in I : j <= i].c[1].b

\* blocks from pos to the end of the input; every block must be complete
\* [count, payload, sync, start, dataAt, syncAt, end] positions are 1-based byte indexes
RECURSIVE ParseBlocks(_, _, _)
ParseBlocks(bs, pos, acc) ==
  IF pos = Len(bs) + 1 THEN [ok |-> TRUE, blocks |-> acc]
  ELSE LET c == SmallAt(bs, pos) IN
       IF ~c.ok THEN [ok |-> FALSE, blocks |-> acc] ELSE
       LET n == SmallAt(bs, c.pos) IN
       IF ~n.ok \/ n.val < 0 \/ ~Have(bs, n.pos, n.val + 16) THEN [ok |-> FALSE, blocks |-> acc] ELSE
       ParseBlocks(bs, n.pos + n.val + 16,
                   Append(acc, [count |-> c.val, payload |-> SubSeq(bs, n.pos, n.pos + n.val - 1),
                                sync |-> SubSeq(bs, n.pos + n.val, n.pos + n.val + 15),
                                start |-> pos, lenAt |-> c.pos, dataAt |-> n.pos, syncAt |-> n.pos + n.val, end |-> n.pos + n.val + 16]))

ParseFile(bs) ==
  LET h == ParseHeader(bs) IN
  IF ~h.ok THEN [ok |-> FALSE, hdr |-> h, blocks |-> <<>>]
  ELSE LET b == ParseBlocks(bs, h.pos, <<>>) IN [ok |-> b.ok, hdr |-> h, blocks |-> b.blocks]

\* What a reader must do on a prefix bs of a valid file whose header ends before pos: k = number of records of the
\* blocks whose payload is completely present; clean = the prefix ends exactly at the end of the header or of a block.
RECURSIVE CutWalk(_, _, _)
CutWalk(bs, pos, acc) ==
  IF pos = Len(bs) + 1 THEN [k |-> acc, clean |-> TRUE]
  ELSE LET c == SmallAt(bs, pos) IN
       IF ~c.ok THEN [k |-> acc, clean |-> FALSE] ELSE
       LET n == SmallAt(bs, c.pos) IN
       IF ~n.ok \/ n.val < 0 \/ ~Have(bs, n.pos, n.val) THEN [k |-> acc, clean |-> FALSE]
       ELSE IF ~Have(bs, n.pos + n.val, 16) THEN [k |-> acc + c.val, clean |-> FALSE]
       ELSE CutWalk(bs, n.pos + n.val + 16, acc + c.val)


\* file bytes from parts (used by the model-level theorem Parse(FileBytes(h, bs)) = (h, bs))
EncBytes(b) == VarintOfInt(Len(b)) \o b
HeaderBytes(meta, sync) ==
  Magic \o (IF meta = <<>> THEN <<>> ELSE VarintOfInt(Len(meta)) \o ConcatAll([i \in 1..Len(meta) |-> EncBytes(meta[i][1]) \o EncBytes(meta[i][2])]))
        \o <<0>> \o sync
BlockBytes(count, payload, sync) == VarintOfInt(count) \o VarintOfInt(Len(payload)) \o payload \o sync
=============================================================================
