SPECIFICATION Spec
CONSTANTS Dests = {d1, d2} Syncs = {s1, s2, s3} MaxBlocks = 3 FreshSyncPerHeader = TRUE
INVARIANTS EveryDestinationValid
CHECK_DEADLOCK FALSE
