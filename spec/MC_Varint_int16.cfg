INIT Init
NEXT Next
CONSTANTS Which = "int16" Alphabet8 = {0} Alphabet = {0} MaxLen = 0
INVARIANTS InvInt16
CHECK_DEADLOCK FALSE
