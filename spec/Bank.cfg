SPECIFICATION Spec
CONSTANTS NBanks = 2 TypesB = {"T", "U"} MaxOps = 8 MaxCap = 4
INVARIANTS Disjoint ZeroAtBirth
PROPERTY IntactUntilClosed
CHECK_DEADLOCK FALSE
