------------------------------ MODULE ZoneCache ------------------------------
(***************************************************************************)
(* The timestamp parser's zone cache seen from the application (C18).     *)
(* Parsing a timestamp with a numeric offset yields a time value that      *)
(* *refers* to a zone object (Go: *time.Location); the parser keeps zone   *)
(* objects in a cache so that equal offsets share one.  The application    *)
(* goes on holding the time values it was given while further timestamps   *)
(* -- with any number of other offsets -- are parsed.                      *)
(*                                                                         *)
(* C18 demands of every parsed value the offset its text carries; that has *)
(* to stay true for as long as the application holds the value (HeldStable)*)
(* whatever the cache does in the meantime.  What keeps it true is that a  *)
(* zone object, once referred to, is never changed: the cache only adds.   *)
(*                                                                         *)
(*   Bounded = FALSE   the library (a map from offset to zone, add-only)   *)
(*   Bounded = TRUE    a table of Slots entries whose entries are          *)
(*                     overwritten in place when it is full (seeded change *)
(*                     C18-zone-table-overwritten-in-place): cfg           *)
(*                     ZoneCache_defect must violate HeldStable (vacuity   *)
(*                     check, run by C18)                                  *)
(*                                                                         *)
(* Observed on the real code by the `held` events of the C18 driver (every *)
(* time parsed in the all-offsets run is projected again after the run).   *)
(***************************************************************************)
EXTENDS Integers, FiniteSets, TLC

CONSTANTS Offsets, MaxParses, Slots, Bounded

VARIABLES zone,     \* zone object id -> the offset it currently denotes
          cache,    \* offset -> zone object id (what the parser would reuse)
          held,     \* set of [z |-> zone object id, want |-> offset of the text]: times the application holds
          next,     \* next slot to overwrite (Bounded) / next fresh object id
          parses
vars == <<zone, cache, held, next, parses>>

Init == zone = [z \in {} |-> 0] /\ cache = [o \in {} |-> 0] /\ held = {} /\ next = 1 /\ parses = 0

Parse(o) ==
  /\ parses < MaxParses /\ parses' = parses + 1
  /\ IF o \in DOMAIN cache
       THEN /\ held' = held \cup {[z |-> cache[o], want |-> o]}
            /\ UNCHANGED <<zone, cache, next>>
     ELSE IF ~Bounded \/ Cardinality(DOMAIN zone) < Slots
       THEN \* a new zone object
            /\ zone' = [z \in DOMAIN zone \cup {next} |-> IF z = next THEN o ELSE zone[z]]
            /\ cache' = [p \in DOMAIN cache \cup {o} |-> IF p = o THEN next ELSE cache[p]]
            /\ held' = held \cup {[z |-> next, want |-> o]}
            /\ next' = IF Bounded /\ next = Slots THEN 1 ELSE next + 1
     ELSE \* the table is full: slot `next` is given the new offset, in place
            /\ zone' = [zone EXCEPT ![next] = o]
            /\ cache' = [p \in (DOMAIN cache \ {zone[next]}) \cup {o} |-> IF p = o THEN next ELSE cache[p]]
            /\ held' = held \cup {[z |-> next, want |-> o]}
            /\ next' = IF next = Slots THEN 1 ELSE next + 1

\* the application lets go of a time
Drop(h) == /\ h \in held /\ held' = held \ {h} /\ UNCHANGED <<zone, cache, next, parses>>

Next == (\E o \in Offsets : Parse(o)) \/ (\E h \in held : Drop(h))
Spec == Init /\ [][Next]_vars

\* every held time still has the offset its text carried
HeldStable == \A h \in held : zone[h.z] = h.want
\* equal offsets share one zone object as long as the cache knows the offset
CacheSound == \A o \in DOMAIN cache : zone[cache[o]] = o
\* zone objects are never changed once made (the design rule that gives HeldStable)
AddOnly == [][\A z \in DOMAIN zone : zone'[z] = zone[z]]_vars
=============================================================================
