INIT Init
NEXT Next
CONSTANTS Which = "units" Grid = "quick"
INVARIANTS InvParse InvDateOnly InvReject InvBig InvUnits
CHECK_DEADLOCK FALSE
