------------------------------ MODULE MC_Mutate ------------------------------
(***************************************************************************)
(* C06, role B: every single-field mutation of a valid encoding.           *)
(* Toks(s, d) is the canonical encoding as a sequence of tokens            *)
(* [role, b]; the token layer knows where each length, count, union        *)
(* selector and long sits, so TLC can enumerate                            *)
(*   (schema, datum, token index, replacement)                             *)
(* with replacement in {-1, 0, 1, 2, 2^31-1, 2^31, 2^62, 2^63-1, -2^63,    *)
(* 11-byte overflow, truncated continuation, drop}.  The model-level       *)
(* property checked on each mutant is totality of the reference decoder    *)
(* (Dec returns Ok or Fail, never a TLC error); the mutants are dumped to  *)
(* cases.ndjson and fed to the real Read / Skip / ReadFile.                *)
(***************************************************************************)
EXTENDS MC_Wire

VARIABLES y, ph2

T(role, b) == [role |-> role, b |-> b]
RECURSIVE Toks(_, _), ToksSeq(_, _, _)
Toks(s, d) ==
  CASE s.k = "null"    -> <<>>
    [] s.k = "boolean" -> <<T("raw", d.b)>>
    [] s.k \in {"int", "long"} -> <<T("long", VarlongOf(d.b))>>
    [] s.k \in {"float", "double", "fixed"} -> IF d.b = <<>> THEN <<>> ELSE <<T("raw", d.b)>>
    [] s.k \in {"bytes", "string"} -> <<T("len", VarintOfInt(Len(d.b)))>> \o (IF d.b = <<>> THEN <<>> ELSE <<T("raw", d.b)>>)
    [] s.k = "enum"    -> <<T("selector", VarintOfInt(d.b[1]))>>
    [] s.k \in {"array", "map"} ->
         IF d.c = <<>> THEN <<T("count", <<0>>)>> ELSE <<T("count", VarintOfInt(Len(d.c)))>> \o ToksSeq(s, d.c, 1) \o <<T("count", <<0>>)>>
    [] s.k = "union"   -> <<T("selector", VarintOfInt(d.b[1]))>> \o Toks(s.c[d.b[1] + 1], d.c[1])
    [] s.k = "record"  -> ToksSeq(s, d.c, 1)
    [] OTHER -> <<>>
ToksSeq(s, ds, i) ==
  IF i > Len(ds) THEN <<>>
  ELSE (CASE s.k = "array"  -> Toks(s.c[1], ds[i])
          [] s.k = "map"    -> <<T("len", VarintOfInt(Len(ds[i].b)))>> \o (IF ds[i].b = <<>> THEN <<>> ELSE <<T("raw", ds[i].b)>>) \o Toks(s.c[1], ds[i].c[1])
          [] s.k = "record" -> Toks(s.c[i].c[1], ds[i])
          [] OTHER -> <<>>) \o ToksSeq(s, ds, i + 1)

Bytes(ts) == ConcatAll([i \in 1..Len(ts) |-> ts[i].b])

Replacements ==
  { <<"-1", <<1>>>>, <<"0", <<0>>>>, <<"1", <<2>>>>, <<"2", <<4>>>>, <<"64", <<128, 1>>>>,
    <<"2^31-1", <<254, 255, 255, 255, 15>>>>, <<"2^31", <<128, 128, 128, 128, 16>>>>, <<"-2^31-1", <<129, 128, 128, 128, 16>>>>,
    <<"2^40", <<128, 128, 128, 128, 128, 64>>>>,
    <<"2^62", <<128, 128, 128, 128, 128, 128, 128, 128, 128, 1>>>>,
    <<"2^63-1", <<254, 255, 255, 255, 255, 255, 255, 255, 255, 1>>>>,
    <<"-2^63", <<255, 255, 255, 255, 255, 255, 255, 255, 255, 1>>>>,
    <<"-2^62", <<255, 255, 255, 255, 255, 255, 255, 255, 127>>>>,
    <<"overflow11", <<128, 128, 128, 128, 128, 128, 128, 128, 128, 128, 1>>>>,
    <<"overflow10", <<255, 255, 255, 255, 255, 255, 255, 255, 255, 2>>>>,
    <<"truncated", <<128>>>>, <<"drop", <<>>>> }

Mutable(ts) == {i \in 1..Len(ts) : ts[i].role # "raw"}

InitM == x \in {[s |-> s, d |-> NilD, e |-> <<>>] : s \in Universe} /\ ph = 0 /\ y = [role |-> "", repl |-> "", bytes |-> <<>>, cut |-> FALSE] /\ ph2 = 0
NextM == \/ ph = 0 /\ x' \in {[s |-> x.s, d |-> d, e |-> <<>>] : d \in Datums(x.s)} /\ ph' = 1 /\ UNCHANGED <<y, ph2>>
         \/ /\ ph = 1 /\ ph2 = 0 /\ ph' = 1 /\ ph2' = 1 /\ UNCHANGED x
            /\ LET ts == Toks(x.s, x.d) IN
               \/ \E i \in Mutable(ts), r \in Replacements :
                     y' = [role |-> ts[i].role, repl |-> r[1], bytes |-> Bytes([ts EXCEPT ![i].b = r[2]]), cut |-> FALSE]
               \* mutated field followed by nothing (input ends right after the mutated field)
               \/ \E i \in Mutable(ts), r \in {q \in Replacements : q[1] \in {"-1", "1", "2^31-1", "2^62", "-2^63", "2^40"}} :
                     y' = [role |-> ts[i].role, repl |-> r[1], bytes |-> Bytes(SubSeq([ts EXCEPT ![i].b = r[2]], 1, i)), cut |-> TRUE]

\* the canonical token stream is the canonical encoding
ToksAreEnc == ph = 1 => Bytes(Toks(x.s, x.d)) = Enc(x.s, x.d)
\* the reference decoder is total on every mutant
DecTotal == ph2 = 1 => Dec(x.s, y.bytes, 1).ok \in BOOLEAN
DumpM == ph2 = 1 => CSVWrite("%1$s", <<ToJson([s |-> x.s, role |-> y.role, repl |-> y.repl, cut |-> y.cut, bytes |-> y.bytes])>>, "cases.ndjson")
=============================================================================
