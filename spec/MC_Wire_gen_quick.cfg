INIT Init
NEXT Next
CONSTANTS Dump = TRUE Size = "quick"
INVARIANTS Inv DumpOK
CHECK_DEADLOCK FALSE
