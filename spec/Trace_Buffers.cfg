SPECIFICATION Spec
INVARIANT TypeOK
CHECK_DEADLOCK FALSE
