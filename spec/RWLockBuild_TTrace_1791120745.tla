---- MODULE RWLockBuild_TTrace_1791120745 ----
EXTENDS Sequences, TLCExt, Toolbox, Naturals, TLC, RWLockBuild

_expression ==
    LET RWLockBuild_TEExpression == INSTANCE RWLockBuild_TEExpression
    IN RWLockBuild_TEExpression!expression
----

_trace ==
    LET RWLockBuild_TETrace == INSTANCE RWLockBuild_TETrace
    IN RWLockBuild_TETrace!trace
----

_inv ==
    ~(
        TLCGet("level") = Len(_TETrace)
        /\
        rcount = ((1 :> 1 @@ 11 :> 0))
        /\
        pc = ((1 :> "rlock" @@ 11 :> "acquire"))
        /\
        level = (<<2>>)
        /\
        reg = (0)
        /\
        pending = ({11})
        /\
        writer = (0)
        /\
        got = (<<<<0, -1>>>>)
    )
----

_init ==
    /\ pending = _TETrace[1].pending
    /\ rcount = _TETrace[1].rcount
    /\ level = _TETrace[1].level
    /\ reg = _TETrace[1].reg
    /\ pc = _TETrace[1].pc
    /\ writer = _TETrace[1].writer
    /\ got = _TETrace[1].got
----

_next ==
    /\ \E i,j \in DOMAIN _TETrace:
        /\ \/ /\ j = i + 1
              /\ i = TLCGet("level")
        /\ pending  = _TETrace[i].pending
        /\ pending' = _TETrace[j].pending
        /\ rcount  = _TETrace[i].rcount
        /\ rcount' = _TETrace[j].rcount
        /\ level  = _TETrace[i].level
        /\ level' = _TETrace[j].level
        /\ reg  = _TETrace[i].reg
        /\ reg' = _TETrace[j].reg
        /\ pc  = _TETrace[i].pc
        /\ pc' = _TETrace[j].pc
        /\ writer  = _TETrace[i].writer
        /\ writer' = _TETrace[j].writer
        /\ got  = _TETrace[i].got
        /\ got' = _TETrace[j].got

\* Uncomment the ASSUME below to write the states of the error trace
\* to the given file in Json format. Note that you can pass any tuple
\* to `JsonSerialize`. For example, a sub-sequence of _TETrace.
    \* ASSUME
    \*     LET J == INSTANCE Json
    \*         IN J!JsonSerialize("RWLockBuild_TTrace_1791120745.json", _TETrace)

=============================================================================

 Note that you can extract this module `RWLockBuild_TEExpression`
  to a dedicated file to reuse `expression` (the module in the 
  dedicated `RWLockBuild_TEExpression.tla` file takes precedence 
  over the module `RWLockBuild_TEExpression` below).

---- MODULE RWLockBuild_TEExpression ----
EXTENDS Sequences, TLCExt, Toolbox, Naturals, TLC, RWLockBuild

expression == 
    [
        \* To hide variables of the `RWLockBuild` spec from the error trace,
        \* remove the variables below.  The trace will be written in the order
        \* of the fields of this record.
        pending |-> pending
        ,rcount |-> rcount
        ,level |-> level
        ,reg |-> reg
        ,pc |-> pc
        ,writer |-> writer
        ,got |-> got
        
        \* Put additional constant-, state-, and action-level expressions here:
        \* ,_stateNumber |-> _TEPosition
        \* ,_pendingUnchanged |-> pending = pending'
        
        \* Format the `pending` variable as Json value.
        \* ,_pendingJson |->
        \*     LET J == INSTANCE Json
        \*     IN J!ToJson(pending)
        
        \* Lastly, you may build expressions over arbitrary sets of states by
        \* leveraging the _TETrace operator.  For example, this is how to
        \* count the number of times a spec variable changed up to the current
        \* state in the trace.
        \* ,_pendingModCount |->
        \*     LET F[s \in DOMAIN _TETrace] ==
        \*         IF s = 1 THEN 0
        \*         ELSE IF _TETrace[s].pending # _TETrace[s-1].pending
        \*             THEN 1 + F[s-1] ELSE F[s-1]
        \*     IN F[_TEPosition - 1]
    ]

=============================================================================



Parsing and semantic processing can take forever if the trace below is long.
 In this case, it is advised to uncomment the module below to deserialize the
 trace from a generated binary file.

\*
\*---- MODULE RWLockBuild_TETrace ----
\*EXTENDS IOUtils, TLC, RWLockBuild
\*
\*trace == IODeserialize("RWLockBuild_TTrace_1791120745.bin", TRUE)
\*
\*=============================================================================
\*

---- MODULE RWLockBuild_TETrace ----
EXTENDS TLC, RWLockBuild

trace == 
    <<
    ([rcount |-> (1 :> 0 @@ 11 :> 0),pc |-> (1 :> "rlock" @@ 11 :> "announce"),level |-> <<1>>,reg |-> 0,pending |-> {},writer |-> 0,got |-> <<<<-1, -1>>>>]),
    ([rcount |-> (1 :> 1 @@ 11 :> 0),pc |-> (1 :> "lookup" @@ 11 :> "announce"),level |-> <<1>>,reg |-> 0,pending |-> {},writer |-> 0,got |-> <<<<-1, -1>>>>]),
    ([rcount |-> (1 :> 1 @@ 11 :> 0),pc |-> (1 :> "lookup" @@ 11 :> "acquire"),level |-> <<1>>,reg |-> 0,pending |-> {11},writer |-> 0,got |-> <<<<-1, -1>>>>]),
    ([rcount |-> (1 :> 1 @@ 11 :> 0),pc |-> (1 :> "children" @@ 11 :> "acquire"),level |-> <<1>>,reg |-> 0,pending |-> {11},writer |-> 0,got |-> <<<<0, -1>>>>]),
    ([rcount |-> (1 :> 1 @@ 11 :> 0),pc |-> (1 :> "rlock" @@ 11 :> "acquire"),level |-> <<2>>,reg |-> 0,pending |-> {11},writer |-> 0,got |-> <<<<0, -1>>>>])
    >>
----


=============================================================================

---- CONFIG RWLockBuild_TTrace_1791120745 ----
CONSTANTS
    Builders = { 1 }
    Writers = { 11 }
    Depth = 2
    HoldAcrossBuild = TRUE

INVARIANT
    _inv

CHECK_DEADLOCK
    \* CHECK_DEADLOCK off because of PROPERTY or INVARIANT above.
    FALSE

INIT
    _init

NEXT
    _next

CONSTANT
    _TETrace <- _trace

ALIAS
    _expression
=============================================================================
\* Generated on Sun Oct 04 13:32:26 UTC 2026