INIT Init
NEXT Next
CONSTANTS Dump = TRUE Lite = TRUE Size = "proj"
INVARIANTS Inv DumpOK
CHECK_DEADLOCK FALSE
