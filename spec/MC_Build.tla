------------------------------ MODULE MC_Build ------------------------------
(***************************************************************************)
(* C05 at model level: type soundness of the (schema type, Go kind) table. *)
(* Compatible(s, t) is the set of pairs for which a sound decoder exists:  *)
(* the stored value has exactly the destination's size and type.  For      *)
(* every pair, datum and candidate destination value the model checks      *)
(*   Compatible /\ Fits  =>  Rep(s, d, Coerce(s, d, t), "r")    (a sound   *)
(*                           decoder has something correct to store)       *)
(*   ~Compatible         =>  no value of kind t represents d    (the only  *)
(*                           sound outcome is a build error)               *)
(*   Footprint(s, t) = SizeOf(t) on compatible pairs.                      *)
(***************************************************************************)
EXTENDS GoModel

VARIABLES x, ph

TInt(w)  == [k |-> "int", w |-> w, name |-> "", c |-> <<>>]
TUint(w) == [k |-> "uint", w |-> w, name |-> "", c |-> <<>>]
TK(k, w) == [k |-> k, w |-> w, name |-> "", c |-> <<>>]
GoKinds == {TK("bool", 1), TInt(1), TInt(2), TInt(4), TInt(8), TUint(1), TUint(8), TK("f32", 4), TK("f64", 8), TK("complex", 16),
            TK("string", 16), TK("bytes", 24), TK("bytearr", 0), TK("bytearr", 3), TK("bytearr", 4), TK("bytearr", 16), TK("chan", 8), TK("func", 8), TK("iface", 16)}
Schemas == {Prim("boolean"), Prim("int"), Prim("long"), Prim("float"), Prim("double"), Prim("bytes"), Prim("string"), FixedS("F4", 4), FixedS("F0", 0), FixedS("F16", 16)}

SizeOf(t) == IF t.k = "bytearr" THEN t.w ELSE t.w
Compatible(s, t) ==
  \/ (s.k = "boolean" /\ t.k = "bool")
  \/ (s.k \in {"int", "long"} /\ t.k = "int" /\ t.w \in {1, 2, 4, 8})      \* a sound decoder exists for int8 too; the library may still refuse it (the property is a disjunction)
  \/ (s.k = "float" /\ t.k \in {"f32", "f64"})            \* widening a float into a float64 is sound (null.Float does it)
  \/ (s.k = "double" /\ t.k \in {"f32", "f64"})
  \/ (s.k = "bytes" /\ t.k = "bytes")
  \/ (s.k = "string" /\ t.k = "string")
  \/ (s.k = "fixed" /\ t.k = "bytearr" /\ t.w = s.size)
\* bytes a sound decoder writes into the destination
Footprint(s, t) == CASE s.k = "boolean" -> 1 [] s.k \in {"int", "long"} -> t.w [] s.k = "float" -> t.w [] s.k = "double" -> t.w
                     [] s.k = "bytes" -> 24 [] s.k = "string" -> 16 [] s.k = "fixed" -> s.size [] OTHER -> 0

Datums(s) ==
  CASE s.k = "boolean" -> {D("boolean", <<0>>, <<>>), D("boolean", <<1>>, <<>>)}
    [] s.k = "int" -> {L(0), L(-1), L(32767), L(-32769), L(2147483647)}
    [] s.k = "long" -> {L(0), L(127), L(-129), L(32768), D("long", <<0, 0, 0, 0, 1, 0, 0, 0>>, <<>>), D("long", <<0, 0, 0, 0, 0, 0, 0, 128>>, <<>>)}
    [] s.k = "float" -> {D("float", <<0, 0, 128, 63>>, <<>>)}
    [] s.k = "double" -> {D("double", <<0, 0, 0, 0, 0, 0, 240, 63>>, <<>>)}
    [] s.k \in {"bytes", "string"} -> {D(s.k, <<>>, <<>>), D(s.k, <<104, 105>>, <<>>)}
    [] s.k = "fixed" -> {D("fixed", [i \in 1..s.size |-> i], <<>>)}

\* the value a sound decoder stores (only meaningful on compatible pairs)
Coerce(s, d, t) ==
  CASE t.k = "bool" -> [k |-> "bool", b |-> d.b]
    [] t.k = "int" -> [k |-> "int", w |-> t.w, b |-> d.b]
    [] t.k = "f32" -> IF s.k = "float" THEN [k |-> "f32", b |-> d.b, b2 |-> <<>>, nan |-> FALSE]
                      ELSE [k |-> "f32", b |-> <<0, 0, 128, 63>>, b2 |-> d.b, nan |-> FALSE]       \* 1.0
    [] t.k = "f64" -> IF s.k = "double" THEN [k |-> "f64", b |-> d.b, b32 |-> <<>>, nan |-> FALSE]
                      ELSE [k |-> "f64", b |-> <<0, 0, 0, 0, 0, 0, 240, 63>>, b32 |-> d.b, nan |-> FALSE]
    [] t.k = "string" -> [k |-> "string", b |-> d.b]
    [] t.k = "bytes" -> [k |-> "bytes", b |-> d.b, nil |-> FALSE]
    [] t.k = "bytearr" -> [k |-> "bytearr", b |-> d.b]
    [] OTHER -> [k |-> "other", zero |-> TRUE]
\* some values of kind t (to show none of them represents d on incompatible pairs)
Some(t, d) ==
  CASE t.k = "bool" -> {[k |-> "bool", b |-> <<0>>], [k |-> "bool", b |-> <<1>>]}
    [] t.k = "int" -> {[k |-> "int", w |-> t.w, b |-> IntBytes8(0)], [k |-> "int", w |-> t.w, b |-> IF Len(d.b) = 8 THEN d.b ELSE IntBytes8(1)]}
    [] t.k = "uint" -> {[k |-> "uint", w |-> t.w, b |-> IntBytes8(0)], [k |-> "uint", w |-> t.w, b |-> IF Len(d.b) = 8 THEN d.b ELSE IntBytes8(1)]}
    [] t.k = "f32" -> {[k |-> "f32", b |-> <<0, 0, 128, 63>>, b2 |-> <<0, 0, 0, 0, 0, 0, 240, 63>>, nan |-> FALSE]}
    [] t.k = "f64" -> {[k |-> "f64", b |-> <<0, 0, 0, 0, 0, 0, 240, 63>>, b32 |-> <<0, 0, 128, 63>>, nan |-> FALSE]}
    [] t.k = "string" -> {[k |-> "string", b |-> d.b], [k |-> "string", b |-> <<>>]}
    [] t.k = "bytes" -> {[k |-> "bytes", b |-> d.b, nil |-> FALSE]}
    [] t.k = "bytearr" -> {[k |-> "bytearr", b |-> [i \in 1..t.w |-> i]]}
    [] OTHER -> {[k |-> "other", zero |-> TRUE], [k |-> "other", zero |-> FALSE]}

Init == x \in [s : Schemas, t : GoKinds] /\ ph = 0
Next == ph = 0 /\ ph' = 1 /\ x' \in {[s |-> x.s, t |-> x.t, d |-> d] : d \in Datums(x.s)}

Sound == ph = 1 =>
  IF Compatible(x.s, x.t) THEN
       /\ Footprint(x.s, x.t) = SizeOf(x.t)
       /\ (Fits(x.s, x.d, x.t) => Rep(x.s, x.d, Coerce(x.s, x.d, x.t), FALSE, "r"))
       /\ (~Fits(x.s, x.d, x.t) => ~Rep(x.s, x.d, Coerce(x.s, x.d, x.t), FALSE, "r") \/ x.t.k # "int" \/ TRUE)
  ELSE \A v \in Some(x.t, x.d) : ~Rep(x.s, x.d, v, FALSE, "r")
=============================================================================
