INIT InitM
NEXT NextM
CONSTANTS Dump = FALSE Size = "thorough"
INVARIANTS ToksAreEnc DecTotal DumpM
CHECK_DEADLOCK FALSE
