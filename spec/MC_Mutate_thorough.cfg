INIT InitM
NEXT NextM
CONSTANTS Dump = FALSE Lite = FALSE Size = "thorough"
INVARIANTS ToksAreEnc DecTotal DumpM
CHECK_DEADLOCK FALSE
