SPECIFICATION Spec
CONSTANTS MaxObj = 5 Mechanisms = {"bank-typed", "new-array", "map-slot"}
INVARIANT GCSafe
CHECK_DEADLOCK FALSE
