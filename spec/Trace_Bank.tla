------------------------------ MODULE Trace_Bank ------------------------------
(***************************************************************************)
(* Judge for C10.  The trace spec keeps the abstract state of module Bank  *)
(* that is observable from outside: the set of live allocations (those of  *)
(* banks not yet closed) with the content each must have.  Events report   *)
(* facts measured on the real memory: rank-compressed address ranges       *)
(* (order preserving, so disjointness is preserved), content hashes, and   *)
(* whether a fresh allocation was all zero.                                *)
(*   bank_alloc   the new range is zero and disjoint from every live range *)
(*   bank_string  the interned bytes equal the source and are disjoint     *)
(*   bank_write   the owner wrote: expected hash := observed hash          *)
(*   any step     every other live allocation still has its expected hash  *)
(*   bank_close   that bank's allocations leave the live set               *)
(*   retain       (ReadFile level) every retained record whose bank is     *)
(*                still open equals the value written, at every checkpoint *)
(***************************************************************************)
EXTENDS GoModel, Json

Trace == ndJsonDeserialize("trace.ndjson")
VARIABLES l, rej, expect, skipping     \* expect: allocation id -> expected content hash (live allocations only)
vars == <<l, rej, expect, skipping>>
Chk(cond, msg) == IF cond THEN <<>> ELSE <<msg>>

LiveIds(e) == {e.live[i].id : i \in 1..Len(e.live)}
Entry(e, id) == e.live[CHOOSE i \in 1..Len(e.live) : e.live[i].id = id]
Overlap(a, b) == a.size > 0 /\ b.size > 0 /\ a.lo < b.hi /\ b.lo < a.hi
DisjointAll(e) == \A i, j \in 1..Len(e.live) : i < j => ~Overlap(e.live[i], e.live[j])
\* every allocation we knew keeps its content, except `except` (just written by its owner)
Unchanged(e, except) == \A id \in (DOMAIN expect) \cap LiveIds(e) : id \in except \/ Entry(e, id).hash = expect[id]

FailsBankEvent(e) ==
  CASE e.op = "bank_alloc" -> Chk(e.zero, "memory handed out by Alloc is not zeroed")
                              \o Chk(DisjointAll(e), "a new allocation overlaps a live allocation of a bank that is not closed")
                              \o Chk(Unchanged(e, {e.id}), "a live allocation changed when another one was made")
    [] e.op = "bank_string" -> Chk(e.equal, "ToString returned different bytes")
                               \o Chk(DisjointAll(e), "interned string overlaps a live allocation")
                               \o Chk(Unchanged(e, {e.id}), "a live allocation changed when a string was interned")
    [] e.op = "bank_write" -> Chk(Unchanged(e, {e.id}), "writing into one allocation changed another")
    [] e.op \in {"bank_get", "bank_close"} -> Chk(Unchanged(e, {}), "a live allocation of an open bank changed when another bank was taken or closed")
    [] OTHER -> <<"unknown bank event">>

RECURSIVE CpBad(_, _, _)
CpBad(e, k, acc) ==
  IF k > Len(e.checkpoints) THEN acc
  ELSE LET cp == e.checkpoints[k]
           \* what a held record must be: the value that was written to the file, or -- once the application has written
           \* into the memory it was handed with it (BankPool!AppWrite) -- the record as its owner left it
           Want(i) == IF "written" \notin DOMAIN cp \/ cp.written[i].k = "none" THEN e.inputs[cp.open[i]] ELSE cp.written[i]
           bad == {i \in 1..Len(cp.open) : ~SameValue(Want(i), cp.values[i])} IN
       IF bad # {} THEN <<"a retained record changed while its bank was still open (checkpoint after " \o cp.after \o ")">>
       \* BankPool!PoolOnce observed: the banks of records held at the same time are different objects
       ELSE IF \E i, j \in 1..Len(cp.banks) : i # j /\ cp.banks[i] = cp.banks[j]
            THEN <<"two records held at the same time were handed the same resource bank (checkpoint after " \o cp.after \o ")">>
       ELSE CpBad(e, k + 1, acc)
\* "unchanged" also covers what the projection does not carry as a value: the zone names reachable from the record's times
ZnChanged(e) == LET cps == e.checkpoints IN
  \E a, b \in 1..Len(cps) : a < b /\ \E i \in 1..Len(cps[a].open), j \in 1..Len(cps[b].open) :
     cps[a].open[i] = cps[b].open[j] /\ cps[a].zn[i] # cps[b].zn[j]
FailsRetain(e) == IF e.panic # "" THEN <<"panic: " \o e.panic>> ELSE IF e.err # "" THEN <<"read failed: " \o e.err>>
                  ELSE Chk(e.delivered = Len(e.inputs), "wrong number of records") \o CpBad(e, 1, <<>>)
                       \o Chk(~ZnChanged(e), "the zone name of a retained time changed while its bank was still open")

Init == l = 1 /\ rej = <<>> /\ expect = [i \in {} |-> 0] /\ skipping = FALSE
Step ==
  /\ l <= Len(Trace) /\ l' = l + 1
  /\ LET e == Trace[l] IN
     IF e.op = "driver_crash" THEN
          /\ rej' = Append(rej, [line |-> l, seq |-> e.seq, key |-> e.key, why |-> <<"the process using the library was killed by the Go runtime (memory corruption): " \o e.detail>>])
          /\ UNCHANGED <<expect, skipping>>
     ELSE IF e.op = "bank_reset" THEN expect' = [i \in {} |-> 0] /\ skipping' = FALSE /\ UNCHANGED rej
     ELSE IF e.op = "retain" THEN
          LET f == FailsRetain(e) IN
          /\ rej' = IF f = <<>> THEN rej ELSE Append(rej, [line |-> l, seq |-> e.seq, key |-> e.key, why |-> f])
          /\ UNCHANGED <<expect, skipping>>
     ELSE IF skipping THEN UNCHANGED <<rej, expect, skipping>>
     ELSE LET f == FailsBankEvent(e) IN
          /\ rej' = IF f = <<>> THEN rej ELSE Append(rej, [line |-> l, seq |-> e.seq, key |-> e.key, why |-> f])
          /\ skipping' = (f # <<>>)
          \* the live set and expected contents after this step: what the event reports for the live allocations
          /\ expect' = [id \in LiveIds(e) |-> IF id \in DOMAIN expect /\ ~(e.op \in {"bank_write", "bank_alloc", "bank_string"} /\ e.id = id) THEN expect[id] ELSE Entry(e, id).hash]
Finish == /\ l = Len(Trace) + 1
          /\ JsonSerialize("verdict.json", [n |-> Len(Trace), rejected |-> rej])
          /\ l' = l + 1 /\ UNCHANGED <<rej, expect, skipping>>
Next == Step \/ Finish
Spec == Init /\ [][Next]_vars
=============================================================================
