---------------------------- MODULE MirrorWriter ----------------------------
(***************************************************************************)
(* One FileWriter, several destinations (C09, C02).  A FileWriter is made  *)
(* once (NewFileWriter draws the 16-byte sync marker) and may then be used *)
(* to write the same container to more than one destination: WriteHeader   *)
(* once per destination, WriteBlock for every block to each of them, in    *)
(* any interleaving.  What a reader requires of each destination (C07) is  *)
(* that every block's trailing marker equals the marker in *that*          *)
(* destination's header.                                                   *)
(*                                                                         *)
(* What keeps that true is that the marker belongs to the writer and never *)
(* changes after NewFileWriter:                                            *)
(*                                                                         *)
(*   FreshSyncPerHeader = FALSE   the library                              *)
(*   FreshSyncPerHeader = TRUE    a marker drawn anew by every WriteHeader *)
(*                                (seeded changes C02-fresh-sync-marker-   *)
(*                                per-header and its C09 twin): cfg        *)
(*                                MirrorWriter_defect must violate         *)
(*                                EveryDestinationValid (vacuity check,    *)
(*                                run by C09)                              *)
(*                                                                         *)
(* Observed on the real code by the mirrored histories of the C09 driver   *)
(* (harness/encoder.go, fwMirror) and the mirrored files of C02            *)
(* (harness/roundtrip.go), judged by Trace_Encoder / Trace_Codec on the    *)
(* first destination.                                                      *)
(***************************************************************************)
EXTENDS Integers, Sequences, FiniteSets, TLC

CONSTANTS Dests, Syncs, MaxBlocks, FreshSyncPerHeader

VARIABLES sync,     \* the writer's marker
          used,     \* markers drawn so far
          out,      \* destination -> what has been written to it: <<[k |-> "hdr", s], [k |-> "blk", s, n], ...>>
          nblocks   \* blocks written so far (bounds the model)
vars == <<sync, used, out, nblocks>>

Init == /\ sync \in Syncs /\ used = {sync}
        /\ out = [d \in Dests |-> <<>>] /\ nblocks = 0

\* WriteHeader(w): once per destination, before its first block
WriteHeader(d) ==
  /\ out[d] = <<>>
  /\ IF FreshSyncPerHeader
       THEN \E s \in Syncs \ used : sync' = s /\ used' = used \cup {s}
       ELSE UNCHANGED <<sync, used>>
  /\ out' = [out EXCEPT ![d] = <<[k |-> "hdr", s |-> sync', n |-> 0]>>]
  /\ UNCHANGED nblocks

\* WriteBlock(w, count, payload): block number nblocks+1 goes to destination d with the writer's marker behind it
WriteBlock(d) ==
  /\ out[d] # <<>> /\ nblocks < MaxBlocks
  /\ out' = [out EXCEPT ![d] = Append(@, [k |-> "blk", s |-> sync, n |-> nblocks + 1])]
  /\ nblocks' = nblocks + 1
  /\ UNCHANGED <<sync, used>>

Next == \E d \in Dests : WriteHeader(d) \/ WriteBlock(d)
Spec == Init /\ [][Next]_vars

TypeOK == /\ sync \in Syncs /\ used \subseteq Syncs /\ nblocks \in 0..MaxBlocks
          /\ \A d \in Dests : \A i \in 1..Len(out[d]) : out[d][i].k \in {"hdr", "blk"} /\ out[d][i].s \in Syncs

\* what a reader accepts: a header, then blocks that all end in the header's marker
ValidContainer(seq) == seq = <<>> \/ (seq[1].k = "hdr" /\ \A i \in 2..Len(seq) : seq[i].k = "blk" /\ seq[i].s = seq[1].s)
EveryDestinationValid == \A d \in Dests : ValidContainer(out[d])
\* the marker is the writer's: it is the one drawn by NewFileWriter for as long as the writer lives
MarkerStable == [][sync' = sync]_vars
=============================================================================
