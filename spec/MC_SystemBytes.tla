--------------------------- MODULE MC_SystemBytes ---------------------------
(***************************************************************************)
(* Refinement of AvroSystem to concrete bytes (growth plan item): the      *)
(* writer rules that Trace_Encoder enforces on the real Encoder, the file  *)
(* layout of Container and the expectation Trace_Reader computes for a     *)
(* truncated file, composed inside TLA+ for a small record schema:         *)
(*   history over {encode(datum), flush}, block size B                     *)
(*   -> disk = HeaderBytes ++ the blocks the writer rules emit (null codec)*)
(*   -> for EVERY cut: Container!CutWalk on the prefix                     *)
(* Theorems (the two judges agree with each other and with C01/C08/C09):   *)
(*   the whole file parses, its blocks decode (AvroWire!Dec) to exactly    *)
(*   the encoded datums in order, no block is empty;                       *)
(*   for every cut the records of the payload-complete blocks are a prefix *)
(*   of the encoded datums and "clean" holds exactly at header/block ends. *)
(***************************************************************************)
EXTENDS Container

CONSTANTS MaxOps, BlockSizes
VARIABLES B, pend, blocks, encoded, nops

vars == <<B, pend, blocks, encoded, nops>>

RecSchema == RecordS("R", <<FieldS("a", Prim("long")), FieldS("s", Prim("string")), FieldS("u", UnionS(<<Prim("null"), ArrayS(Prim("long"))>>))>>)
Null0 == D("null", <<>>, <<>>)
Datums == { D("record", <<>>, <<L(0), D("string", <<>>, <<>>), D("union", <<0>>, <<Null0>>)>>),                                  \* 3 bytes
            D("record", <<>>, <<L(-65), D("string", <<97, 98>>, <<>>), D("union", <<1>>, <<D("array", <<>>, <<L(1), L(2)>>)>>)>>),   \* 10 bytes
            D("record", <<>>, <<L(64), D("string", <<122>>, <<>>), D("union", <<1>>, <<D("array", <<>>, <<>>)>>)>>) }
Sync == [i \in 1..16 |-> 200 + i]
Meta == << <<KeySchema, <<123, 125>>>>, <<KeyCodec, NameNull>> >>
Header == HeaderBytes(Meta, Sync)

Init == B \in BlockSizes /\ pend = <<>> /\ blocks = <<>> /\ encoded = <<>> /\ nops = 0
Emit(ps) == Append(blocks, [count |-> Len(ps), payload |-> ConcatAll([i \in 1..Len(ps) |-> Enc(RecSchema, ps[i])])])
Encode(d) == /\ nops < MaxOps /\ nops' = nops + 1 /\ encoded' = Append(encoded, d)
             /\ LET p2 == Append(pend, d) IN
                IF Len(ConcatAll([i \in 1..Len(p2) |-> Enc(RecSchema, p2[i])])) >= B
                THEN blocks' = Emit(p2) /\ pend' = <<>>
                ELSE pend' = p2 /\ UNCHANGED blocks
             /\ UNCHANGED B
Flush == /\ nops < MaxOps /\ nops' = nops + 1
         /\ IF pend # <<>> THEN blocks' = Emit(pend) /\ pend' = <<>> ELSE UNCHANGED <<blocks, pend>>
         /\ UNCHANGED <<B, encoded>>
Next == Flush \/ \E d \in Datums : Encode(d)
Spec == Init /\ [][Next]_vars

Disk == Header \o ConcatAll([i \in 1..Len(blocks) |-> BlockBytes(blocks[i].count, blocks[i].payload, Sync)])

RECURSIVE DecodeBlocks(_, _, _)
DecodeBlocks(bs, i, acc) == IF i > Len(bs) THEN [ok |-> TRUE, ds |-> acc]
                            ELSE LET dm == DecMany(RecSchema, bs[i].payload, 1, bs[i].count, <<>>) IN
                                 IF dm.ok /\ dm.pos = Len(bs[i].payload) + 1 THEN DecodeBlocks(bs, i + 1, acc \o dm.ds) ELSE [ok |-> FALSE, ds |-> acc]
RECURSIVE CountUpTo(_)
CountUpTo(k) == IF k = 0 THEN 0 ELSE blocks[k].count + CountUpTo(k - 1)
IsPrefixOf(a, b) == Len(a) <= Len(b) /\ SubSeq(b, 1, Len(a)) = a

\* C01 / C02 / C09 at byte level: the file is well formed and holds exactly the encoded datums minus what is pending
WholeFile ==
  LET pf == ParseFile(Disk)
      dec == DecodeBlocks(pf.blocks, 1, <<>>) IN
  /\ pf.ok /\ pf.hdr.sync = Sync /\ Len(pf.blocks) = Len(blocks)
  /\ \A i \in 1..Len(pf.blocks) : pf.blocks[i].count > 0 /\ pf.blocks[i].sync = Sync
  /\ dec.ok /\ dec.ds \o pend = encoded
\* C08 at byte level, for every cut position
EveryCut ==
  LET hdrEnd == Len(Header) IN
  \A cut \in hdrEnd..Len(Disk) :
     LET w == CutWalk(SubSeq(Disk, 1, cut), hdrEnd + 1, 0)
         ends == {hdrEnd} \cup {ParseFile(Disk).blocks[i].end - 1 : i \in 1..Len(blocks)} IN
     /\ \E k \in 0..Len(blocks) : w.k = CountUpTo(k)           \* whole blocks only: never a partial record
     /\ w.k <= Len(encoded) - Len(pend)
     /\ (w.clean <=> cut \in ends)
=============================================================================
