INIT Init
NEXT Next
CONSTANTS Dump = TRUE Size = "thorough"
INVARIANTS RoundTrip Rejects DumpOK
CHECK_DEADLOCK FALSE
