------------------------------ MODULE Trace_Conc ------------------------------
(***************************************************************************)
(* Judge for C12.                                                          *)
(*  gate      a goroutine was parked inside section `parked`; did a second *)
(*            one arrive inside section `probe`?  Concurrency!             *)
(*            MutualExclusion allows that only for two readers of the same *)
(*            RW lock.  Non-arrival is never a failure (Go's RWMutex may   *)
(*            delay a reader behind a waiting writer).                     *)
(*  sections  enter/leave events of a free-running stress run, ordered by  *)
(*            a sequence number taken inside the section, replayed against *)
(*            the lock model: occupancy per lock, exclusion at every step. *)
(*  nesting   the section events of single-goroutine operations: no lock    *)
(*            is taken recursively (RWLockBuild!NoRecursiveRLock).         *)
(*  conc_rt   encode + decode with a codec shared by all goroutines gives  *)
(*            what a sequential run gives (AvroWire!Dec, GoModel!Rep).     *)
(*  conc_time timestamps parsed concurrently (shared zone cache).          *)
(*  race      a race-detector report is an observed violation of the       *)
(*            exclusion invariant (the detector reports only real races).  *)
(***************************************************************************)
EXTENDS GoModel, Json

Trace == ndJsonDeserialize("trace.ndjson")
VARIABLES l, rej
vars == <<l, rej>>
Chk(cond, msg) == IF cond THEN <<>> ELSE <<msg>>

LockOf(sec) == CASE sec \in {"registry.w", "registry.r"} -> "registry" [] sec \in {"schema.w", "schema.r"} -> "schema" [] OTHER -> "tz"
ModeOf(sec) == IF sec \in {"registry.r", "schema.r"} THEN "r" ELSE "w"
MayShare(a, b) == LockOf(a) # LockOf(b) \/ (ModeOf(a) = "r" /\ ModeOf(b) = "r")

\* a parked goroutine that never reached its section (e.g. a fast path made the section unnecessary) realises
\* nothing: no verdict either way
FailsGate(e) == Chk(~e.reached \/ ~e.arrived \/ MayShare(e.parked, e.probe), "a second goroutine entered a critical section that excludes the one already inside")

\* occupancy replay: occ[lock] = [w |-> number of writers inside, r |-> number of readers inside]
RECURSIVE Replay(_, _, _)
Replay(evs, i, occ) ==
  IF i > Len(evs) THEN ""
  ELSE LET e == evs[i]
           lk == LockOf(e.sec)
           m == ModeOf(e.sec) IN
       IF e.ph = "enter" THEN
            IF occ[lk].w > 0 \/ (m = "w" /\ occ[lk].r > 0) THEN "overlap in " \o lk
            ELSE Replay(evs, i + 1, [occ EXCEPT ![lk] = IF m = "w" THEN [w |-> 1, r |-> @.r] ELSE [w |-> @.w, r |-> @.r + 1]])
       ELSE IF (m = "w" /\ occ[lk].w = 0) \/ (m = "r" /\ occ[lk].r = 0) THEN "leave without enter in " \o lk
       ELSE Replay(evs, i + 1, [occ EXCEPT ![lk] = IF m = "w" THEN [w |-> 0, r |-> @.r] ELSE [w |-> @.w, r |-> @.r - 1]])
Occ0 == [k \in {"registry", "schema", "tz"} |-> [w |-> 0, r |-> 0]]
Sorted(evs) == \A i \in 1..(Len(evs) - 1) : evs[i].seq < evs[i + 1].seq
FailsSections(e) == Chk(Sorted(e.events), "SPECBUG: section events not in sequence order (harness)")
                    \o (LET w == Replay(e.events, 1, Occ0) IN Chk(w = "", "critical sections overlapped: " \o w))

\* one goroutine, nothing else running: the section events of codec construction, schema generation,
\* registration and timestamp parsing.  Design rule RWLockBuild!NoRecursiveRLock (and its analogue for the other
\* locks): a lock is never taken while this goroutine already holds it, every enter has its leave.
RECURSIVE Nest(_, _, _)
Nest(ev, i, held) ==
  IF i > Len(ev) THEN (IF held = {} THEN "" ELSE "a section was entered and never left")
  ELSE LET x == ev[i] lk == LockOf(x.sec) IN
       IF x.ph = "enter" THEN
            IF lk \in held THEN "lock of " \o x.sec \o " taken while the same goroutine already holds it (recursive locking: deadlocks as soon as a writer queues in between, see RWLockBuild_defect.cfg)"
            ELSE Nest(ev, i + 1, held \cup {lk})
       ELSE IF lk \notin held THEN "leave without enter: " \o x.sec
            ELSE Nest(ev, i + 1, held \ {lk})
FailsNesting(e) == Chk(e.panic = "", "panic: " \o e.panic)
                   \o (LET w == Nest(e.events, 1, {}) IN Chk(w = "", w))

FailsRT(e) ==
  LET r == Dec(e.schema, e.bytes, 1) IN
  Chk(e.out = "ok", "decode with the shared codec failed")
  \o Chk(r.ok /\ r.pos = Len(e.bytes) + 1 /\ Rep(e.schema, r.d, e.value, FALSE, "w"), "bytes written through the shared codec are not the encoding of this goroutine's value")
  \o Chk(e.out # "ok" \/ SameValue(e.value, e.back), "value decoded through the shared codec differs from what this goroutine encoded")
FailsTime(e) == Chk(e.out = "ok" /\ SameCivil(ParseRFC3339(e.s), e.t), "concurrently parsed timestamp differs from its sequential value")

Fails(e) == CASE e.op = "gate" -> FailsGate(e)
              [] e.op = "sections" -> FailsSections(e)
              [] e.op = "nesting" -> FailsNesting(e)
              [] e.op = "conc_rt" -> FailsRT(e)
              [] e.op = "conc_time" -> FailsTime(e)
              [] e.op = "conc_reg" -> Chk(e.out = "ok", "a registration that had returned was not in effect for a codec / schema built afterwards by the same goroutine (lost update?): " \o e.out)
              [] e.op = "conc_err" -> Chk(e.bytes = e.s, "a failing decode through the shared codec reported another input's error (state on the codec's error path?)")
              [] e.op = "conc_gen" -> Chk(e.bytes = e.s, "schema generation gave a different result while other goroutines were generating schemas")
              [] e.op = "conc_str" -> Chk(e.bytes = e.s, "a string decoded into this goroutine's own bank is not the string that was encoded (banks shared between goroutines?)")
              [] e.op = "conc_time_batch" -> Chk(\A i \in 1..Len(e.items) : e.items[i].out = "ok" /\ SameCivil(ParseRFC3339(e.items[i].s), e.items[i].t),
                                                 "a concurrently parsed timestamp differs from its sequential value (shared zone cache)")
              [] e.op = "conc_file" -> Chk(e.out = "ok" /\ e.n = Len(e.inputs), "concurrent ReadFile failed or delivered the wrong number of records")
                                        \o Chk(e.n # Len(e.inputs) \/ \A i \in 1..Len(e.inputs) : (i % 3 = 1) \/ SameValue(e.inputs[i], e.value.c[i]),
                                               "a record retained from a concurrent ReadFile (its bank still open) no longer holds what the file contains")
              [] e.op = "progress" -> Chk(e.completed, "deadlock: " \o e.what \o " never completed (the lock model is deadlock-free, see Concurrency.cfg)")
              [] e.op = "race" -> Chk(~e.detected, "the race detector reported a data race")
              [] e.op = "conc_crash" -> <<"the stress process crashed: " \o e.detail>>
              [] OTHER -> <<"unknown event">>

Init == l = 1 /\ rej = <<>>
Step == /\ l <= Len(Trace)
        /\ LET f == Fails(Trace[l]) IN
           rej' = IF f = <<>> THEN rej ELSE Append(rej, [line |-> l, seq |-> Trace[l].seq, key |-> Trace[l].key, why |-> f])
        /\ l' = l + 1
Finish == /\ l = Len(Trace) + 1
          /\ JsonSerialize("verdict.json", [n |-> Len(Trace), rejected |-> rej])
          /\ l' = l + 1 /\ UNCHANGED rej
Next == Step \/ Finish
Spec == Init /\ [][Next]_vars
=============================================================================
