SPECIFICATION Spec
CONSTANTS MaxOps = 3 BlockSizes = {0, 1, 2, 3} RecSizes = {0, 1, 2} WithFaults = TRUE WithCrash = TRUE
INVARIANTS C09_GapFree C09_Threshold C09_AfterFlush C16_Err C08_Prefix C01_RoundTrip DeliveredPrefix
PROPERTY Terminates
CHECK_DEADLOCK FALSE
