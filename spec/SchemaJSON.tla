----------------------------- MODULE SchemaJSON -----------------------------
(***************************************************************************)
(* Avro schema declarations as JSON (spec section "Schema Declaration"),   *)
(* over an abstract JSON syntax tree:                                      *)
(*   J("str", v, <<>>)  J("num", n, <<>>)  J("lit", "true|false|null", ..) *)
(*   J("arr", "", items)  J("obj", "", members)  member = [key, val]       *)
(* Serialise(s) is the canonical document of a schema; Parse(ast) reads    *)
(* any document: a string is a primitive (or named) type, an array a       *)
(* union, an object is decided by its "type" member; members are looked up *)
(* by key, so their order is irrelevant and unknown members (doc, default, *)
(* aliases, order, precision, ...) are ignored.  MC_Schema checks          *)
(*   Parse(v(Serialise(s))) = s  for every variation v (member             *)
(*   permutations at every level, inserted unknown members of every JSON   *)
(*   kind) and  Parse(Serialise(s)) = s.                                   *)
(***************************************************************************)
EXTENDS AvroWire

J(t, v, c) == [t |-> t, v |-> v, c |-> c]
JStr(v) == J("str", v, <<>>)
JNum(n) == J("num", n, <<>>)
Mem(k, v) == [key |-> k, val |-> v]
JObj(ms) == J("obj", "", ms)
JArr(xs) == J("arr", "", xs)

PrimNames == {"null", "boolean", "int", "long", "float", "double", "bytes", "string"}

RECURSIVE Serialise(_)
Serialise(s) ==
  CASE s.k \in PrimNames -> IF s.lt = "" THEN JStr(s.k) ELSE JObj(<<Mem("type", JStr(s.k)), Mem("logicalType", JStr(s.lt))>>)
    [] s.k = "union"  -> JArr([i \in 1..Len(s.c) |-> Serialise(s.c[i])])
    [] s.k = "record" -> JObj(<<Mem("type", JStr("record"))>> \o (IF s.name = "" THEN <<>> ELSE <<Mem("name", JStr(s.name))>>)
                              \o (IF s.ns = "" THEN <<>> ELSE <<Mem("namespace", JStr(s.ns))>>)
                              \o <<Mem("fields", JArr([i \in 1..Len(s.c) |-> JObj(<<Mem("name", JStr(s.c[i].name)), Mem("type", Serialise(s.c[i].c[1]))>>)]))>>)
    [] s.k = "array"  -> JObj(<<Mem("type", JStr("array")), Mem("items", Serialise(s.c[1]))>>)
    [] s.k = "map"    -> JObj(<<Mem("type", JStr("map")), Mem("values", Serialise(s.c[1]))>>)
    [] s.k = "fixed"  -> JObj(<<Mem("type", JStr("fixed"))>> \o (IF s.lt = "" THEN <<>> ELSE <<Mem("logicalType", JStr(s.lt))>>)
                              \o <<Mem("name", JStr(s.name))>> \o (IF s.ns = "" THEN <<>> ELSE <<Mem("namespace", JStr(s.ns))>>) \o <<Mem("size", JNum(s.size))>>)
    [] s.k = "enum"   -> JObj(<<Mem("type", JStr("enum")), Mem("name", JStr(s.name))>> \o (IF s.ns = "" THEN <<>> ELSE <<Mem("namespace", JStr(s.ns))>>)
                              \o <<Mem("symbols", JArr([i \in 1..Len(s.syms) |-> JStr(s.syms[i])]))>>)
    [] OTHER -> JStr(s.k)          \* a reference to a named type

Has(ms, k) == \E i \in 1..Len(ms) : ms[i].key = k
Get(ms, k) == ms[CHOOSE i \in 1..Len(ms) : ms[i].key = k].val
StrOr(ms, k) == IF Has(ms, k) /\ Get(ms, k).t = "str" THEN Get(ms, k).v ELSE ""

BadS == S("BAD", "", "", 0, <<>>, <<>>)
RECURSIVE Parse(_)
Parse(a) ==
  CASE a.t = "str" -> Prim(a.v)
    [] a.t = "arr" -> LET bs == [i \in 1..Len(a.c) |-> Parse(a.c[i])] IN IF \E i \in 1..Len(bs) : bs[i] = BadS THEN BadS ELSE UnionS(bs)
    [] a.t = "obj" ->
         IF ~Has(a.c, "type") \/ Get(a.c, "type").t # "str" THEN BadS
         ELSE LET k == Get(a.c, "type").v
                  base == [S(k, StrOr(a.c, "name"), StrOr(a.c, "logicalType"), 0, <<>>, <<>>) EXCEPT !.ns = StrOr(a.c, "namespace")] IN
              CASE k = "record" ->
                     IF ~Has(a.c, "fields") \/ Get(a.c, "fields").t # "arr" THEN BadS
                     ELSE LET fa == Get(a.c, "fields").c
                              fs == [i \in 1..Len(fa) |->
                                       IF fa[i].t # "obj" \/ ~Has(fa[i].c, "name") \/ ~Has(fa[i].c, "type") THEN BadS
                                       ELSE LET ft == Parse(Get(fa[i].c, "type")) IN IF ft = BadS THEN BadS ELSE FieldS(StrOr(fa[i].c, "name"), ft)] IN
                          IF \E i \in 1..Len(fs) : fs[i] = BadS THEN BadS ELSE [base EXCEPT !.c = fs]
                [] k = "array" -> IF ~Has(a.c, "items") THEN BadS ELSE LET it == Parse(Get(a.c, "items")) IN IF it = BadS THEN BadS ELSE [base EXCEPT !.c = <<it>>]
                [] k = "map"   -> IF ~Has(a.c, "values") THEN BadS ELSE LET it == Parse(Get(a.c, "values")) IN IF it = BadS THEN BadS ELSE [base EXCEPT !.c = <<it>>]
                [] k = "fixed" -> IF ~Has(a.c, "size") \/ Get(a.c, "size").t # "num" THEN BadS ELSE [base EXCEPT !.size = Get(a.c, "size").v]
                [] k = "enum"  -> IF ~Has(a.c, "symbols") \/ Get(a.c, "symbols").t # "arr" THEN BadS
                                  ELSE [base EXCEPT !.syms = [i \in 1..Len(Get(a.c, "symbols").c) |-> Get(a.c, "symbols").c[i].v]]
                [] OTHER -> base
    [] OTHER -> BadS

(* ---- variations of a document that must not change its meaning ---- *)
Rotate(q) == IF q = <<>> THEN q ELSE Tail(q) \o <<Head(q)>>
Extras == << Mem("doc", JStr("some text")), Mem("default", J("lit", "null", <<>>)), Mem("aliases", JArr(<<JStr("x"), JStr("y")>>)),
             Mem("order", JStr("ascending")), Mem("precision", JNum(10)), Mem("x-meta", JObj(<<Mem("type", JStr("record")), Mem("deep", JArr(<<J("lit", "true", <<>>)>>))>>)) >>
\* v in 0..5: 0 identity, 1 reverse members, 2 rotate, 3 extras first, 4 extras last + reverse, 5 extras interleaved
RECURSIVE Vary(_, _)
Vary(a, v) ==
  CASE a.t = "arr" -> JArr([i \in 1..Len(a.c) |-> Vary(a.c[i], v)])
    [] a.t = "obj" ->
         LET ms == [i \in 1..Len(a.c) |-> Mem(a.c[i].key, Vary(a.c[i].val, v))] IN
         JObj(CASE v = 0 -> ms [] v = 1 -> Reverse(ms) [] v = 2 -> Rotate(ms)
                [] v = 3 -> Extras \o ms [] v = 4 -> Reverse(ms) \o Reverse(Extras)
                [] OTHER -> <<Extras[1]>> \o Rotate(ms) \o <<Extras[6], Extras[2]>>)
    [] OTHER -> a
=============================================================================
