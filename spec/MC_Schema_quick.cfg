INIT Init
NEXT Next
CONSTANTS Dump = TRUE Size = "quick"
INVARIANTS RoundTrip Rejects DumpOK
CHECK_DEADLOCK FALSE
