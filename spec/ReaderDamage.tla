---------------------------- MODULE ReaderDamage ----------------------------
(***************************************************************************)
(* The container reader as a state machine over an abstract file, with the *)
(* environment free to damage it (C07):                                    *)
(*   header   in {ok, badmagic, noschema, unknowncodec, nocodec}           *)
(*   block k  = [n records, pay in {ok, reject, crc}, sync in {ok, bad}]   *)
(*   the callback fails at record number cbFail (0 = never)                *)
(* One action per read the implementation performs (header, block start,   *)
(* decompress, record+callback, sync check).  The invariants are the       *)
(* statement of C07; Trace_Reader applies the same rules to recorded       *)
(* executions of ReadFile.                                                 *)
(***************************************************************************)
EXTENDS Integers, Sequences, FiniteSets, TLC

CONSTANTS MaxBlocks, MaxRecs,
          DeferCbError   \* FALSE: the library. TRUE: the callback's error is held back until the block's sync marker has been
                         \* checked (seeded change C07-callback-error-deferred-behind-sync-check); cfg ReaderDamage_defect must violate AtEnd
VARIABLES hdr, blocks, cbFail, pc, bi, ri, delivered, calls, result

vars == <<hdr, blocks, cbFail, pc, bi, ri, delivered, calls, result>>

Block == [n : 1..MaxRecs, pay : {"ok", "reject", "crc"}, sync : {"ok", "bad"}]
RECURSIVE Total(_, _)
Total(bs, k) == IF k = 0 THEN 0 ELSE bs[k].n + Total(bs, k - 1)

Init == /\ hdr \in {"ok", "badmagic", "noschema", "unknowncodec", "nocodec"}
        /\ blocks \in UNION {[1..k -> Block] : k \in 0..MaxBlocks}
        /\ cbFail \in 0..(MaxBlocks * MaxRecs)
        /\ pc = "header" /\ bi = 1 /\ ri = 0 /\ delivered = <<>> /\ calls = 0 /\ result = "none"

Stop(r) == pc' = "end" /\ result' = r /\ UNCHANGED <<hdr, blocks, cbFail, bi, ri, delivered, calls>>

RHeader == /\ pc = "header"
           /\ IF hdr \in {"ok", "nocodec"} THEN pc' = "block" /\ UNCHANGED <<hdr, blocks, cbFail, bi, ri, delivered, calls, result>>
              ELSE Stop("err")
RBlock == /\ pc = "block"
          /\ IF bi > Len(blocks) THEN Stop("ok")
             ELSE pc' = "decomp" /\ UNCHANGED <<hdr, blocks, cbFail, bi, ri, delivered, calls, result>>
RDecomp == /\ pc = "decomp"
           /\ IF blocks[bi].pay = "ok" THEN pc' = "rec" /\ ri' = 1 /\ UNCHANGED <<hdr, blocks, cbFail, bi, delivered, calls, result>>
              ELSE Stop("err")
RRec == /\ pc = "rec"
        /\ IF ri > blocks[bi].n THEN pc' = "sync" /\ UNCHANGED <<hdr, blocks, cbFail, bi, ri, delivered, calls, result>>
           ELSE /\ calls' = calls + 1
                /\ IF calls + 1 = cbFail THEN /\ pc' = (IF DeferCbError THEN "sync" ELSE "end")
                                                /\ result' = (IF DeferCbError THEN "held" ELSE "sentinel")
                                                /\ UNCHANGED <<hdr, blocks, cbFail, bi, ri, delivered>>
                   ELSE /\ delivered' = Append(delivered, <<bi, ri>>) /\ ri' = ri + 1 /\ UNCHANGED <<hdr, blocks, cbFail, bi, pc, result>>
RSync == /\ pc = "sync"
         /\ IF blocks[bi].sync # "ok" THEN Stop("err")
            ELSE IF result = "held" THEN Stop("sentinel")
            ELSE pc' = "block" /\ bi' = bi + 1 /\ UNCHANGED <<hdr, blocks, cbFail, ri, delivered, calls, result>>
Next == RHeader \/ RBlock \/ RDecomp \/ RRec \/ RSync
Spec == Init /\ [][Next]_vars /\ WF_vars(Next)

\* ---------------- the statement of C07 ----------------
AllRecs == LET RECURSIVE Go(_) Go(k) == IF k > Len(blocks) THEN <<>> ELSE [i \in 1..blocks[k].n |-> <<k, i>>] \o Go(k + 1) IN Go(1)
IsPrefix(a, b) == Len(a) <= Len(b) /\ \A i \in 1..Len(a) : a[i] = b[i]
FirstDamaged == LET Q == {k \in 1..Len(blocks) : blocks[k].pay # "ok" \/ blocks[k].sync # "ok"} IN IF Q = {} THEN 0 ELSE CHOOSE k \in Q : \A j \in Q : k <= j
Damaged == hdr \notin {"ok", "nocodec"} \/ FirstDamaged # 0
\* the callback failure comes first when it falls before the records of the first damaged block end
CbFirst == cbFail # 0 /\ hdr \in {"ok", "nocodec"} /\
           (IF FirstDamaged = 0 THEN cbFail <= Total(blocks, Len(blocks))
            ELSE IF blocks[FirstDamaged].pay # "ok" THEN cbFail <= Total(blocks, FirstDamaged - 1)
            ELSE cbFail <= Total(blocks, FirstDamaged))

DeliveredInOrder == IsPrefix(delivered, AllRecs)
NoRecordOfRejectedBlock == \A i \in 1..Len(delivered) : blocks[delivered[i][1]].pay = "ok"
AtEnd == pc = "end" =>
  /\ (result = "ok" <=> (~Damaged /\ ~CbFirst))
  /\ (result = "ok" => delivered = AllRecs)
  /\ (CbFirst => result = "sentinel" /\ Len(delivered) = cbFail - 1 /\ calls = cbFail)
  /\ ((Damaged /\ ~CbFirst) => result = "err")
  /\ (hdr \notin {"ok", "nocodec"} => delivered = <<>>)
  /\ ((~CbFirst /\ FirstDamaged # 0 /\ hdr \in {"ok", "nocodec"}) =>
        Len(delivered) = Total(blocks, FirstDamaged - 1) + (IF blocks[FirstDamaged].pay = "ok" THEN blocks[FirstDamaged].n ELSE 0))
Terminates == <>(pc = "end")
=============================================================================
