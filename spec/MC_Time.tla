------------------------------- MODULE MC_Time -------------------------------
(***************************************************************************)
(* Model-level checks of TimeParse and of the logical-time relation        *)
(* (C13, C18, C19):                                                        *)
(*  - big-number arithmetic agrees with TLC's integers wherever both apply *)
(*  - StoredFloor is monotone in the instant and consistent between units  *)
(*    (millis = micros div 1000 = nanos div 10^6 on exact instants)        *)
(*  - Format-then-parse: ParseRFC3339 inverts a reference formatter on a   *)
(*    grid of civil times (boundary digits of every field, fraction        *)
(*    lengths 0..12, both separators, Z and numeric offsets)               *)
(***************************************************************************)
EXTENDS GoModel

CONSTANTS Which, Grid
VARIABLES x, ph

\* ---- reference formatter (digits as bytes) ----
D2(n) == <<48 + (n \div 10), 48 + (n % 10)>>
D4(n) == <<48 + (n \div 1000), 48 + ((n \div 100) % 10), 48 + ((n \div 10) % 10), 48 + (n % 10)>>
FracDigits(ns, k) == [i \in 1..k |-> 48 + ((ns \div (10 ^ (9 - i))) % 10)]
\* fraction of exactly k digits (k <= 9 takes the leading digits of ns; k > 9 pads with a non-zero digit that must be dropped)
Frac(ns, k, sep) == IF k = 0 THEN <<>> ELSE <<sep>> \o FracDigits(ns, IF k > 9 THEN 9 ELSE k) \o [i \in 1..(IF k > 9 THEN k - 9 ELSE 0) |-> 55]
Zone(off) == IF off = 0 THEN <<90>> ELSE LET a == IF off < 0 THEN -off ELSE off IN <<IF off < 0 THEN 45 ELSE 43>> \o D2(a \div 3600) \o <<58>> \o D2((a \div 60) % 60)
Format(t, k, sep) == D4(t.y) \o <<45>> \o D2(t.mo) \o <<45>> \o D2(t.d) \o <<84>> \o D2(t.h) \o <<58>> \o D2(t.mi) \o <<58>> \o D2(t.s) \o Frac(t.ns, k, sep) \o Zone(t.off)

Years  == IF Grid = "quick" THEN {0, 1970, 2024, 9999} ELSE {0, 1, 1600, 1900, 1970, 2000, 2023, 2024, 9999}
Months == IF Grid = "quick" THEN {1, 2, 12} ELSE {1, 2, 3, 6, 9, 12}
Hours  == IF Grid = "quick" THEN {0, 23} ELSE {0, 9, 12, 23}
Offs   == IF Grid = "quick" THEN {0, 3600, -30060, 86340, -86340} ELSE {0, 60, -60, 3600, 30060, -30060, 50400, -43200, 86340, -86340}
Nanos  == {0, 1, 326000000, 326876123, 999999999, 100000000, 999}

Civil == [y : Years, mo : Months, dsel : {"first", "last"}, h : Hours, ms : {0, 59}, ns : Nanos, off : Offs]
Mk(c) == [y |-> c.y, mo |-> c.mo, d |-> IF c.dsel = "first" THEN 1 ELSE DaysIn(c.y, c.mo), h |-> c.h, mi |-> c.ms, s |-> 59 - c.ms, ns |-> c.ns, off |-> c.off]

\* ns keeps only the digits a k-digit fraction can carry
TruncTo(ns, k) == IF k >= 9 THEN ns ELSE (ns \div (10 ^ (9 - k))) * (10 ^ (9 - k))

Init == CASE Which = "parse" -> x \in [y : Years, mo : Months] /\ ph = 0
          [] Which = "big"   -> x \in [a : {0, 1, 255, 256, 20000, 86399}, b : {0, 1, 1000, 20000}] /\ ph = 1
          [] Which = "units" -> x \in [days : {0, 1, -1, 365, -365, 19000, -25000, 106000, -106000}, sod : {0, 1, 86399, 43200}] /\ ph = 0
Next == /\ ph = 0 /\ ph' = 1
        /\ CASE Which = "parse" -> x' \in {c \in Civil : c.y = x.y /\ c.mo = x.mo}
             [] Which = "units" -> x' \in {[days |-> x.days, sod |-> x.sod, ns |-> n] : n \in {0, 1, 999, 1000, 999999, 1000000, 123456789, 999999999}}
             [] OTHER -> FALSE

InvParse == (Which = "parse" /\ ph = 1) =>
  LET t == Mk(x) IN
  \A k \in {0, 1, 3, 6, 9, 10, 12}, sep \in {46, 44} :
     LET p == ParseRFC3339(Format(t, k, sep)) IN
     p = [ok |-> TRUE, y |-> t.y, mo |-> t.mo, d |-> t.d, h |-> t.h, mi |-> t.mi, s |-> t.s, ns |-> (IF k = 0 THEN 0 ELSE TruncTo(t.ns, k)), off |-> t.off]
InvDateOnly == (Which = "parse" /\ ph = 1) =>
  LET t == Mk(x) IN ParseRFC3339(D4(t.y) \o <<45>> \o D2(t.mo) \o <<45>> \o D2(t.d))
                    = [ok |-> TRUE, y |-> t.y, mo |-> t.mo, d |-> t.d, h |-> 0, mi |-> 0, s |-> 0, ns |-> 0, off |-> 0]
\* damaged strings are rejected by the reference (not a requirement on the library, a sanity check of the grammar)
InvReject == (Which = "parse" /\ ph = 1) =>
  LET f == Format(Mk(x), 3, 46) IN
  /\ ~ParseRFC3339(SubSeq(f, 1, Len(f) - 1)).ok
  /\ ~ParseRFC3339(f \o <<90>>).ok
  /\ ~ParseRFC3339([f EXCEPT ![11] = 32]).ok
  /\ ~ParseRFC3339(SubSeq(f, 1, 19) \o <<46, 90>>).ok

InvBig == (Which = "big" /\ ph = 1) =>
  /\ MulSmall(Small(x.a), x.b + 1) = Small(x.a * (x.b + 1))
  /\ AddBig(Small(x.a), Small(x.b)) = Small(x.a + x.b)
  /\ (x.a >= x.b => SubBig(Small(x.a), Small(x.b)) = Small(x.a - x.b))
  /\ GeqBig(Small(x.a), Small(x.b)) = (x.a >= x.b)
  /\ Low8(Small(x.a)) = IntBytes8(x.a)
  /\ (x.a > 0 => Neg8(Small(x.a)) = IntBytes8(-x.a))

\* unit consistency: on instants exact in the coarser unit, stored(coarse) * 1000 = stored(fine)
Mul1000(b8) == IF b8[8] < 128 THEN Low8(MulSmall(b8 \o <<0, 0>>, 1000))
               ELSE Neg8(MulSmall(Neg8(b8 \o <<0, 0>>) \o <<0, 0>>, 1000))
InvUnits == (Which = "units" /\ ph = 1) =>
  LET g == [days |-> x.days, sod |-> x.sod, ns |-> x.ns] IN
  /\ (ExactIn(g, "ms") => Mul1000(StoredFloor(g, "ms")) = StoredFloor(g, "us"))
  /\ (ExactIn(g, "us") => Mul1000(StoredFloor(g, "us")) = StoredFloor(g, "ns"))
  /\ (IsSmall(StoredFloor(g, "ms")) => SmallVal(StoredFloor(g, "ms")) = (x.days * 86400 + x.sod) * 1000 + x.ns \div 1000000)
=============================================================================
