----------------------------- MODULE Trace_Schema -----------------------------
(***************************************************************************)
(* Judge for C14 (schema JSON <-> Schema), C15 (schema generation) and the *)
(* schema part of C20.                                                     *)
(***************************************************************************)
EXTENDS SchemaJSON, SchemaGen, Json, FiniteSets

Trace == ndJsonDeserialize("trace.ndjson")
VARIABLES l, rej
vars == <<l, rej>>

Chk(cond, msg) == IF cond THEN <<>> ELSE <<msg>>

\* the harness rendered e.s (a schema chosen by TLC, MC_Schema) as text in some member order / layout / with
\* unknown members; by the model-level theorem Parse(v(Serialise(s))) = s the only correct parse is s itself
FailsParse(e) ==
  IF e.outcome = "panic" THEN <<"SchemaFromString panicked">>
  ELSE IF e.outcome # "ok" THEN <<"a valid schema document was rejected">>
  ELSE Chk(e.parsed = e.s, "parsed Schema differs from the document (type, name, namespace, logical type, fields, items, values, size, symbols or branches)")
       \o Chk(e.marshal = "ok", "Schema.Marshal failed or did not produce valid JSON: " \o e.marshal)
       \o Chk(e.marshal # "ok" \/ e.remarshalled = e.s, "serialising the parsed schema and parsing it again does not give the same schema")

FailsBad(e) == Chk(e.outcome # "panic", "panic") \o Chk(e.outcome = "err", "malformed JSON accepted")

\* C15
FailsGen(e) ==
  LET a == SchemaOf(e.type, "strict", e.regs)
      b == SchemaOf(e.type, "natural", e.regs) IN
  IF e.outcome \notin {"ok", "err"} THEN <<"SchemaForType did not return: " \o e.outcome>>
  ELSE IF e.outcome = "err" THEN Chk(a = ErrS \/ b = ErrS, "an expressible type was refused")
  ELSE Chk(a # ErrS \/ b # ErrS, "a type that cannot be expressed was given a schema")
       \o Chk((a = ErrS /\ b = ErrS) \/ e.schema \in ({a, b} \ {ErrS}), "generated schema does not follow the documented mapping")
       \o Chk(e.schema = e.schema2, "schema generation is not deterministic (value vs pointer argument)")
       \o Chk(ValidAvro(e.schema), "generated schema is not structurally valid Avro (nested/repeated union branch, or a named type defined twice)")
       \o Chk(e.codec \in {"built", "err"}, "Schema.Codec on the generated schema neither built nor returned an error: " \o e.codec)
       \o Chk(e.marshal = "ok", "generated schema does not marshal to valid JSON")

\* C20: occurrences of custom-typed values that a writer reaches (not below a nil pointer)
RECURSIVE Occ(_, _)
Occ(g, nm) == (IF g.k = "custom" /\ g.n = nm THEN 1 ELSE 0)
              + (IF "c" \in DOMAIN g THEN LET RECURSIVE Sum(_) Sum(i) == IF i > Len(g.c) THEN 0 ELSE Occ(g.c[i], nm) + Sum(i + 1) IN Sum(1) ELSE 0)
\* ... and those of them that sit directly behind a (non-nil) pointer or are the value of a map entry: their memory
\* comes from the codec's New
RECURSIVE OccPtr(_, _)
OccPtr(g, nm) == (IF g.k \in {"ptr", "entry"} /\ g.c # <<>> /\ g.c[1].k = "custom" /\ g.c[1].n = nm THEN 1 ELSE 0)
                 + (IF "c" \in DOMAIN g THEN LET RECURSIVE Sum(_) Sum(i) == IF i > Len(g.c) THEN 0 ELSE OccPtr(g.c[i], nm) + Sum(i + 1) IN Sum(1) ELSE 0)
CountOp(log, nm, op) == Cardinality({i \in 1..Len(log) : log[i].type = nm /\ log[i].op = op})
CustomNames == {"CEmail", "CCelsius", "CTags", "CPoint", "CObjID", "COpt", "CRatio", "CSuit"}
\* COpt's codec omits some values by itself (Omit), so its Write / Read calls are not one per occurrence
Counted == CustomNames \ {"COpt"}
\* value equality with custom markers kept: structural equality of the projections, nil vs empty collections identified
RECURSIVE Strip(_)
Strip(g) == IF "c" \in DOMAIN g THEN [k |-> g.k, n |-> (IF "n" \in DOMAIN g THEN g.n ELSE ""), b |-> (IF "b" \in DOMAIN g THEN g.b ELSE <<>>), c |-> [i \in 1..Len(g.c) |-> Strip(g.c[i])]]
            ELSE [k |-> g.k, n |-> "", b |-> (IF "b" \in DOMAIN g THEN g.b ELSE <<>>), c |-> <<>>]
FailsReg(e) ==
  IF e.outcome # "ok" THEN <<"using a registered type failed: " \o e.outcome \o " " \o e.detail>>
  ELSE LET exp == SchemaOf(e.type, "natural", e.regs)
           registered == {nm \in CustomNames : nm \in DOMAIN e.latest} IN
       Chk(e.schema = exp, "generated schema does not carry the (latest) registered schema at exactly the occurrences of the registered type")
       \o Chk(\A i \in 1..Len(e.log) : e.log[i].type \in registered /\ e.log[i].id = e.latest[e.log[i].type], "a codec other than the most recently registered one was used")
       \o Chk(\A nm \in registered \cap Counted : CountOp(e.log, nm, "write") = Occ(e.value, nm), "the registered codec did not write every occurrence of its type (or wrote something else)")
       \o Chk(\A nm \in registered \cap Counted : CountOp(e.log, nm, "read") = Occ(e.value, nm), "the registered codec did not read every occurrence of its type")
       \o Chk(\A nm \in registered \cap Counted : CountOp(e.log, nm, "new") = OccPtr(e.value, nm), "a value of the registered type behind a pointer or as a map value did not get its memory from the registered codec's New")
       \o Chk(\A nm \in registered \ Counted : CountOp(e.log, nm, "read") = CountOp(e.log, nm, "write") /\ CountOp(e.log, nm, "write") <= Occ(e.value, nm),
               "the registered codec of a self-omitting type did not read what it wrote")
       \o Chk(\A nm \in CustomNames \ registered : CountOp(e.log, nm, "write") = 0, "a codec ran for an unregistered type")
       \o Chk(Strip(e.rvalue) = Strip(e.value), "value did not round-trip through the registered codec")
       \o Chk(e.left = 0, "bytes left over")

\* the library's own RegisterCodecs functions are registrations like any other (C20: the most recent registration
\* wins): HLib = {t: time.Time, p: *time.Time, n: null.Int}. With the foreign codec registered last, both time
\* occurrences go through it and schema generation emits its schema (long); after RegisterCodecs is called again
\* the library's codec (RFC 3339 string, offset preserved) governs again and the foreign codec is not called.
FailsRegLib(e) ==
  IF e.outcome # "ok" THEN <<"using a library-registered type failed: " \o e.outcome \o " " \o e.detail>>
  ELSE LET tk == IF e.expectCustom THEN "long" ELSE "string"
           f == e.schema.c IN
       Chk(e.schema.k = "record" /\ Len(f) = 3
           /\ (LET Core(x) == IF x.k = "union" /\ Len(x.c) = 2 /\ x.c[1].k = "null" THEN x.c[2].k ELSE x.k IN
               Core(f[1].c[1]) = tk /\ Core(f[2].c[1]) = tk /\ f[2].c[1].k = "union" /\ Core(f[3].c[1]) = "long"),
           "generated schema does not carry the schema of the most recent registration for time.Time")
       \o Chk(e.customWrites = (IF e.expectCustom THEN 2 ELSE 0) /\ e.customReads = e.customWrites,
               "the codec of the most recent registration for time.Time was not the one used (a later RegisterCodecs call must win)")
       \o Chk(e.left = 0, "bytes left over")
       \o (IF e.expectCustom THEN <<>> ELSE Chk(e.rvalue = e.value, "value (instant, UTC offset, validity) did not round-trip through the library codecs"))

Fails(e) == CASE e.op = "schema_parse" -> FailsParse(e)
              [] e.op = "reg_lib" -> FailsRegLib(e)
              [] e.op = "reg_use" -> FailsReg(e)
              [] e.op = "schema_bad" -> FailsBad(e)
              [] e.op = "schemagen" -> FailsGen(e)
              [] e.op = "driver_crash" -> <<"the process using the library was killed by the Go runtime (memory corruption): " \o e.detail>>
              [] OTHER -> <<"unknown event">>

Init == l = 1 /\ rej = <<>>
Step == /\ l <= Len(Trace)
        /\ LET f == Fails(Trace[l]) IN
           rej' = IF f = <<>> THEN rej ELSE Append(rej, [line |-> l, seq |-> Trace[l].seq, key |-> Trace[l].key, why |-> f])
        /\ l' = l + 1
Finish == /\ l = Len(Trace) + 1
          /\ JsonSerialize("verdict.json", [n |-> Len(Trace), rejected |-> rej])
          /\ l' = l + 1 /\ UNCHANGED rej
Next == Step \/ Finish
Spec == Init /\ [][Next]_vars
=============================================================================
