SPECIFICATION Spec
CONSTANTS Procs = {1, 2, 3} OpsPer = 1
INVARIANTS MutualExclusion LookupSeesLatest TzCanonical
CHECK_DEADLOCK TRUE
