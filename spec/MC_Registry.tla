----------------------------- MODULE MC_Registry -----------------------------
(***************************************************************************)
(* The two registries as a state machine (C20, sequential part of C12):    *)
(*   Register(t, b)        reg[t] := b        (fresh builder id)           *)
(*   RegisterSchema(t, s)  sreg[t] := s                                    *)
(*   Build(tree)           a codec tree that names, for every occurrence   *)
(*                         of a type, the builder found in reg at that     *)
(*                         moment (unregistered types: the built-in codec) *)
(*   SchemaFor(tree)       likewise with sreg                              *)
(* Properties: the most recent registration governs every occurrence       *)
(* (field, pointer, slice element, map value, nullable) and nothing else;  *)
(* codecs and schemas built earlier are not changed by later registrations *)
(* (history variable); lookups never observe a value that was not the      *)
(* latest at the time of the call.                                         *)
(***************************************************************************)
EXTENDS Integers, Sequences, FiniteSets, TLC

CONSTANTS Types, MaxOps
VARIABLES reg, sreg, nextId, hist, ops

vars == <<reg, sreg, nextId, hist, ops>>
Trees == {<<t>> : t \in Types} \cup {<<a, b>> : a, b \in Types} \cup {<<"ptr", t>> : t \in Types} \cup {<<"slice", t>> : t \in Types}
         \cup {<<"map", t>> : t \in Types} \cup {<<"nullable", t>> : t \in Types}
Occurrences(tree) == {i \in 1..Len(tree) : tree[i] \in Types}

Init == reg = [t \in Types |-> 0] /\ sreg = [t \in Types |-> 0] /\ nextId = 1 /\ hist = <<>> /\ ops = 0
Register(t) == /\ ops < MaxOps /\ reg' = [reg EXCEPT ![t] = nextId] /\ nextId' = nextId + 1 /\ ops' = ops + 1 /\ UNCHANGED <<sreg, hist>>
RegisterSchema(t) == /\ ops < MaxOps /\ sreg' = [sreg EXCEPT ![t] = nextId] /\ nextId' = nextId + 1 /\ ops' = ops + 1 /\ UNCHANGED <<reg, hist>>
Build(tree) == /\ ops < MaxOps /\ ops' = ops + 1
               /\ hist' = Append(hist, [op |-> "build", tree |-> tree, uses |-> [i \in Occurrences(tree) |-> reg[tree[i]]], at |-> reg])
               /\ UNCHANGED <<reg, sreg, nextId>>
SchemaFor(tree) == /\ ops < MaxOps /\ ops' = ops + 1
                   /\ hist' = Append(hist, [op |-> "schema", tree |-> tree, uses |-> [i \in Occurrences(tree) |-> sreg[tree[i]]], at |-> sreg])
                   /\ UNCHANGED <<reg, sreg, nextId>>
Next == (\E t \in Types : Register(t) \/ RegisterSchema(t)) \/ (\E tr \in Trees : Build(tr) \/ SchemaFor(tr))
Spec == Init /\ [][Next]_vars

\* every recorded use named the registration that was the latest at the time, at every occurrence and only there
LatestWins == \A k \in 1..Len(hist) : \A i \in DOMAIN hist[k].uses : hist[k].uses[i] = hist[k].at[hist[k].tree[i]]
\* ids grow: a later registration is strictly newer, so "latest" is well defined
Monotone == \A t \in Types : reg[t] < nextId /\ sreg[t] < nextId
\* a use never names a registration of a different type
NothingElse == \A k \in 1..Len(hist) : \A i \in DOMAIN hist[k].uses :
                 hist[k].uses[i] = 0 \/ \A u \in Types \ {hist[k].tree[i]} : hist[k].at[u] # hist[k].uses[i]
\* history is append-only: earlier results are not rewritten by later registrations
AppendOnly == [][Len(hist') >= Len(hist) /\ SubSeq(hist', 1, Len(hist)) = hist]_vars
=============================================================================
