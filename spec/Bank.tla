-------------------------------- MODULE Bank --------------------------------
(***************************************************************************)
(* ResourceBank + sync.Pool lifecycle (C10).  A bank owns, per Go type, an *)
(* arena [array id, cap, len] and a string store; Alloc hands out the next *)
(* slot (growing = a fresh array, old slots stay valid), ToString appends  *)
(* to the string store (growing = fresh array, old strings keep the old    *)
(* one), Close resets the lengths and returns the bank to the pool, Get    *)
(* takes any pooled bank or a fresh one (sync.Pool may drop items).        *)
(* AppWrite is the application writing into memory it was handed.          *)
(* Invariants: slots handed out by unclosed banks are pairwise distinct    *)
(* memory; a slot is zero when handed out; the contents of live slots only *)
(* change through their owner's writes.                                    *)
(***************************************************************************)
EXTENDS Integers, Sequences, FiniteSets, TLC

CONSTANTS NBanks, TypesB, MaxOps, MaxCap
VARIABLES banks,    \* bank id -> [state: "free"|"open"|"pooled", arena: type -> [arr, cap, len]]
          mem,      \* <<arr, idx>> -> value currently stored (0 = zero)
          live,     \* set of [bank, type, arr, idx, expect] handed out by open banks
          nextArr, ops, lastAlloc

vars == <<banks, mem, live, nextArr, ops, lastAlloc>>
BankIds == 1..NBanks
Empty == [t \in TypesB |-> [arr |-> 0, cap |-> 0, len |-> 0]]

Init == /\ banks = [b \in BankIds |-> [state |-> "free", arena |-> Empty]]
        /\ mem = [c \in {} |-> 0] /\ live = {} /\ nextArr = 1 /\ ops = 0 /\ lastAlloc = [zero |-> TRUE]

\* newResourceBank(): a pooled bank (with whatever arenas it has) or a fresh one
Get(b) == /\ ops < MaxOps /\ banks[b].state \in {"free", "pooled"}
          /\ banks' = [banks EXCEPT ![b].state = "open"]
          /\ ops' = ops + 1 /\ UNCHANGED <<mem, live, nextArr, lastAlloc>>

Alloc(b, t) ==
  /\ ops < MaxOps /\ banks[b].state = "open"
  /\ LET a == banks[b].arena[t]
         grow == a.len = a.cap
         newCap == IF a.cap = 0 THEN 1 ELSE 2 * a.cap
         arr == IF grow THEN nextArr ELSE a.arr
         idx == a.len + 1 IN
     /\ (grow => newCap <= MaxCap)
     /\ banks' = [banks EXCEPT ![b].arena[t] = [arr |-> arr, cap |-> IF grow THEN newCap ELSE a.cap, len |-> idx]]
     /\ nextArr' = IF grow THEN nextArr + 1 ELSE nextArr
     \* the slot is cleared as it is handed out (typedmemclr): a recycled slot may hold an earlier record's data
     /\ lastAlloc' = [zero |-> TRUE, cell |-> <<arr, idx>>]
     /\ mem' = [c \in DOMAIN mem \cup {<<arr, idx>>} |-> IF c = <<arr, idx>> THEN 0 ELSE mem[c]]
     /\ live' = live \cup {[bank |-> b, type |-> t, arr |-> arr, idx |-> idx]}
  /\ ops' = ops + 1

AppWrite(c, v) == /\ ops < MaxOps /\ c \in live /\ mem' = [mem EXCEPT ![<<c.arr, c.idx>>] = v]
                  /\ ops' = ops + 1 /\ UNCHANGED <<banks, live, nextArr, lastAlloc>>

Close(b) == /\ ops < MaxOps /\ banks[b].state = "open"
            /\ banks' = [banks EXCEPT ![b].state = "pooled", ![b].arena = [t \in TypesB |-> [banks[b].arena[t] EXCEPT !.len = 0]]]
            /\ live' = {c \in live : c.bank # b}
            /\ ops' = ops + 1 /\ UNCHANGED <<mem, nextArr, lastAlloc>>

Next == (\E b \in BankIds : Get(b) \/ Close(b) \/ \E t \in TypesB : Alloc(b, t)) \/ (\E c \in live, v \in {1, 2} : AppWrite(c, v))
Spec == Init /\ [][Next]_vars

Disjoint == \A c, d \in live : (c.arr = d.arr /\ c.idx = d.idx) => c = d
ZeroAtBirth == lastAlloc.zero
\* only the owner's write changes a live cell: any other action leaves every live cell as it was
IntactUntilClosed == [][\A c \in live \cap live' : mem'[<<c.arr, c.idx>>] = mem[<<c.arr, c.idx>>] \/ (\E v \in {1, 2} : AppWrite(c, v))]_vars
=============================================================================
