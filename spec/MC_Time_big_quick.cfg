INIT Init
NEXT Next
CONSTANTS Which = "big" Grid = "quick"
INVARIANTS InvParse InvDateOnly InvReject InvBig InvUnits
CHECK_DEADLOCK FALSE
