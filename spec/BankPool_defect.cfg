SPECIFICATION Spec
CONSTANTS Holders = {h1, h2} NBanks = 2 TypesB = {t1} MaxOps = 8 MaxCap = 2 DoublePut = TRUE
INVARIANTS Disjoint
CHECK_DEADLOCK FALSE
