INIT Init
NEXT Next
INVARIANT Sound
CHECK_DEADLOCK FALSE
