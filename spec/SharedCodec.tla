----------------------------- MODULE SharedCodec -----------------------------
(***************************************************************************)
(* One built codec used by several goroutines at once (C12): "each         *)
(* produces the result it would produce running alone" includes the result *)
(* of a decode that FAILS.  A goroutine that is handed an error goes on    *)
(* holding it (logs it, wraps it, compares it with errors.Is) while other  *)
(* goroutines decode -- and fail -- through the same codec.                *)
(*                                                                         *)
(* A built codec is immutable: everything a decode produces, its error     *)
(* included, is made for the call.  Then the error a goroutine holds       *)
(* describes its own input for as long as it holds it (HeldIsOwn).         *)
(*                                                                         *)
(*   ErrorSlotInCodec = FALSE   the library (fmt.Errorf per failure)       *)
(*   ErrorSlotInCodec = TRUE    the failure is stored in a slot of the     *)
(*                              codec's field and a pointer to the slot is *)
(*                              returned (seeded change C12-field-error-   *)
(*                              stored-in-shared-codec): cfg               *)
(*                              SharedCodec_defect must violate HeldIsOwn  *)
(*                              (vacuity check, run by C12)                *)
(*                                                                         *)
(* Observed on the real code by the conc_err events of the C12 stress      *)
(* (the error text of every failing decode, looked at after a yield, must  *)
(* be the text the same input gives when nothing else runs).               *)
(***************************************************************************)
EXTENDS Integers, FiniteSets, TLC

CONSTANTS Goroutines, Inputs, Fields, MaxOps, ErrorSlotInCodec

\* FailsAt(i): the field of the record at which decoding input i fails (every input of this model is a bad one)
FailsAt(i) == CHOOSE f \in Fields : TRUE

VARIABLES slot,    \* field -> the input whose failure the codec's slot for that field currently describes (0 = none)
          held,    \* goroutine -> [input, ref]: ref = "own" (an error value made for the call) or a field (the slot)
          ops
vars == <<slot, held, ops>>

None == [input |-> 0, ref |-> "none"]
Init == slot = [f \in Fields |-> 0] /\ held = [g \in Goroutines |-> None] /\ ops = 0

\* goroutine g decodes bad input i through the shared codec and keeps the error
DecodeFails(g, i) ==
  /\ ops < MaxOps /\ ops' = ops + 1
  /\ IF ErrorSlotInCodec
       THEN /\ slot' = [slot EXCEPT ![FailsAt(i)] = i]
            /\ held' = [held EXCEPT ![g] = [input |-> i, ref |-> FailsAt(i)]]
       ELSE /\ held' = [held EXCEPT ![g] = [input |-> i, ref |-> "own"]]
            /\ UNCHANGED slot

\* g is done with its error
Release(g) == /\ held[g] # None /\ held' = [held EXCEPT ![g] = None] /\ UNCHANGED <<slot, ops>>

Next == \E g \in Goroutines : Release(g) \/ \E i \in Inputs : DecodeFails(g, i)
Spec == Init /\ [][Next]_vars

\* what the error g holds says, now
Says(g) == IF held[g].ref = "own" THEN held[g].input ELSE slot[held[g].ref]
HeldIsOwn == \A g \in Goroutines : held[g] # None => Says(g) = held[g].input
\* the codec carries no state that a decode changes
CodecImmutable == [][slot' = slot]_vars
=============================================================================
