INIT Init
NEXT Next
CONSTANTS Dump = TRUE Lite = TRUE Size = "projfull"
INVARIANTS Inv DumpOK
CHECK_DEADLOCK FALSE
