SPECIFICATION Spec
CONSTANTS Builders = {1, 2} Writers = {11, 12} Depth = 3 HoldAcrossBuild = FALSE
INVARIANTS TypeOK Exclusion NoRecursiveRLock LookupsMonotone
PROPERTY Terminates
CHECK_DEADLOCK TRUE
