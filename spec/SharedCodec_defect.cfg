SPECIFICATION Spec
CONSTANTS Goroutines = {g1, g2} Inputs = {1, 2} Fields = {f1} MaxOps = 4 ErrorSlotInCodec = TRUE
INVARIANTS HeldIsOwn
CHECK_DEADLOCK FALSE
