SPECIFICATION Spec
CONSTANTS MaxBlocks = 3 MaxRecs = 2
INVARIANTS DeliveredInOrder NoRecordOfRejectedBlock AtEnd
PROPERTY Terminates
CHECK_DEADLOCK FALSE
