INIT Init
NEXT Next
CONSTANTS Which = "bytes8" Alphabet8 = {0, 127, 128, 255} Alphabet = {0} MaxLen = 0
INVARIANTS InvBytes8
CHECK_DEADLOCK FALSE
