INIT Init
NEXT Next
CONSTANTS Dump = FALSE Lite = FALSE Size = "quick"
INVARIANTS Inv
CHECK_DEADLOCK FALSE
