INIT Init
NEXT Next
CONSTANTS Dump = FALSE Size = "quick"
INVARIANTS Inv
CHECK_DEADLOCK FALSE
