----------------------------- MODULE Trace_Robust -----------------------------
(***************************************************************************)
(* Judge for C06.  A reading entry point is a function from byte strings   *)
(* to {result, error}: the only outcomes the specification knows are "ok"  *)
(* and "err" ("panic", "fatal" = process died, "timeout" = did not         *)
(* terminate are not behaviours of AvroWire!Dec / Container!ParseFile /    *)
(* TimeParse, which TLC checks to be total -- MC_Mutate, MC_Wire), and the *)
(* memory allocated while reading n bytes is bounded by a + b*n.           *)
(* Whether the outcome should have been an error rather than a value is    *)
(* not judged here (C03, C07, C17 do that).                                *)
(***************************************************************************)
EXTENDS Integers, Sequences, TLC, Json

Trace == ndJsonDeserialize("trace.ndjson")
VARIABLES l, rej
vars == <<l, rej>>

Chk(cond, msg) == IF cond THEN <<>> ELSE <<msg>>

\* allocation bound in KiB: 4 MiB + 4 KiB per input byte (a legitimate 1000:1 deflate expansion passes;
\* an allocation taken from a declared length of 2^31 or more is orders of magnitude above it)
AllocBoundKiB(n) == 4096 + 4 * n

Fails(e) ==
  IF e.op # "feed" THEN <<"unknown event">>
  ELSE Chk(e.outcome \in {"ok", "err"}, "outcome is neither a result nor an error: " \o e.outcome)
       \o Chk(e.outcome \notin {"ok", "err"} \/ e.allocKiB <= AllocBoundKiB(e.len), "allocation not proportional to the input size")

Init == l = 1 /\ rej = <<>>
Step == /\ l <= Len(Trace)
        /\ LET f == Fails(Trace[l]) IN
           rej' = IF f = <<>> THEN rej ELSE Append(rej, [line |-> l, seq |-> Trace[l].seq, key |-> Trace[l].key, why |-> f])
        /\ l' = l + 1
Finish == /\ l = Len(Trace) + 1
          /\ JsonSerialize("verdict.json", [n |-> Len(Trace), rejected |-> rej])
          /\ l' = l + 1 /\ UNCHANGED rej
Next == Step \/ Finish
Spec == Init /\ [][Next]_vars
=============================================================================
