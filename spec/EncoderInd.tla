----------------------------- MODULE EncoderInd -----------------------------
(***************************************************************************)
(* Counting abstraction of the encoder (C09) for unbounded histories,      *)
(* record sizes and block sizes, checked with Apalache as an inductive     *)
(* invariant (Init => IndInv at length 0; IndInv /\ Next => IndInv' at     *)
(* length 1 from IndInit).  TLC explores the sequence-level model          *)
(* (AvroSystem, MC_SystemBytes) within small bounds; this module removes   *)
(* the bounds for what can be said with counters:                          *)
(*   no record is lost or duplicated: records in emitted blocks + records  *)
(*   pending = records encoded; no empty block; after every call the       *)
(*   buffered bytes are below the block size or nothing is pending; after  *)
(*   a flush nothing is pending; blocks are emitted only with count > 0.   *)
(***************************************************************************)
EXTENDS Integers

CONSTANT
  \* @type: Int;
  B
VARIABLES
  \* @type: Int;
  count,      \* records pending
  \* @type: Int;
  buffered,   \* bytes pending
  \* @type: Int;
  encoded,    \* records encoded so far
  \* @type: Int;
  emitted,    \* records in emitted blocks
  \* @type: Int;
  blocks,     \* number of blocks emitted
  \* @type: Int;
  lastCount,  \* record count of the block emitted by the last call (0 = none)
  \* @type: Bool;
  afterFlush

CInit == B \in Int /\ B >= 0

Init == count = 0 /\ buffered = 0 /\ encoded = 0 /\ emitted = 0 /\ blocks = 0 /\ lastCount = 0 /\ afterFlush = FALSE

Encode == \E sz \in Int :
            /\ sz >= 0
            /\ encoded' = encoded + 1
            /\ IF buffered + sz >= B
               THEN /\ emitted' = emitted + count + 1 /\ blocks' = blocks + 1 /\ lastCount' = count + 1
                    /\ count' = 0 /\ buffered' = 0
               ELSE /\ count' = count + 1 /\ buffered' = buffered + sz
                    /\ UNCHANGED <<emitted, blocks>> /\ lastCount' = 0
            /\ afterFlush' = FALSE
Flush == /\ IF count > 0
            THEN emitted' = emitted + count /\ blocks' = blocks + 1 /\ lastCount' = count
            ELSE UNCHANGED <<emitted, blocks>> /\ lastCount' = 0
         /\ count' = 0 /\ buffered' = 0 /\ afterFlush' = TRUE /\ UNCHANGED encoded
Next == Encode \/ Flush

\* the inductive invariant (also the statement of C09 in counters)
IndInv == /\ count >= 0 /\ buffered >= 0 /\ encoded >= 0 /\ emitted >= 0 /\ blocks >= 0 /\ lastCount >= 0
          /\ emitted + count = encoded                       \* nothing lost, nothing duplicated
          /\ (count = 0 => buffered = 0)
          /\ (count > 0 => buffered < B)                     \* a block is emitted as soon as the size is reached
          /\ blocks <= emitted                               \* every block holds at least one record
          /\ (afterFlush => count = 0 /\ buffered = 0)
IndInit == B \in Int /\ B >= 0
           /\ count \in Int /\ buffered \in Int /\ encoded \in Int /\ emitted \in Int /\ blocks \in Int /\ lastCount \in Int /\ afterFlush \in BOOLEAN
           /\ IndInv
=============================================================================
