------------------------------- MODULE MC_Wire -------------------------------
(***************************************************************************)
(* Model-level theorems of the binary encoding (C01-C04, C08):             *)
(* for every schema of a bounded universe, every datum of it and every     *)
(* legal way a conformant writer may serialise it (Encs: any composition   *)
(* of an array/map into blocks, with or without byte-size prefix, at every *)
(* nesting level),                                                         *)
(*   Dec inverts it, consuming exactly the encoding        (C03, C02)      *)
(*   what follows the encoding is not touched               (C04: span)    *)
(*   no proper prefix decodes                               (C08: no       *)
(*                                             partial or invented record) *)
(* With Dump = TRUE every (schema, datum, encoding) is also written to     *)
(* cases.ndjson: the vectors the harness replays into the real reader      *)
(* (role B).                                                               *)
(***************************************************************************)
EXTENDS AvroWire, Json, CSV

CONSTANTS Dump, Size, Lite
VARIABLES x, ph

Null == D("null", <<>>, <<>>)
Str(b) == D("string", b, <<>>)
Big == <<0, 0, 0, 0, 0, 1, 0, 0>>        \* 2^40
Min64 == <<0, 0, 0, 0, 0, 0, 0, 128>>    \* -2^63
Rep64(n) == [i \in 1..n |-> 97 + (i % 26)]

PNull == Prim("null")
PLong == Prim("long")
PStr  == Prim("string")

\* ---- datums of a schema (small, boundary-minded sets) ----
RECURSIVE Datums(_)
SeqsUpTo(Q, n) == UNION {[1..k -> Q] : k \in 0..n}
Datums(s) ==
  CASE s.k = "null"    -> {Null}
    [] s.k = "boolean" -> {D("boolean", <<0>>, <<>>), D("boolean", <<1>>, <<>>)}
    [] s.k = "int"     -> {L(0), L(-1), L(64), D("long", <<0, 0, 0, 128, 255, 255, 255, 255>>, <<>>)}
    [] s.k = "long"    -> {L(0), L(-65), D("long", Big, <<>>), D("long", Min64, <<>>)}
    [] s.k = "float"   -> {D("float", <<0, 0, 128, 63>>, <<>>), D("float", <<1, 0, 192, 127>>, <<>>)}
    [] s.k = "double"  -> {D("double", <<0, 0, 0, 0, 0, 0, 240, 63>>, <<>>), D("double", <<0, 0, 0, 0, 0, 0, 0, 128>>, <<>>)}
    [] s.k = "bytes"   -> {D("bytes", <<>>, <<>>), D("bytes", <<0, 255>>, <<>>)}
    [] s.k = "string"  -> {Str(<<>>), Str(<<97>>), Str(Rep64(64))}
    [] s.k = "fixed"   -> {D("fixed", [i \in 1..s.size |-> 7 * i], <<>>)}
    [] s.k = "enum"    -> {D("enum", <<i>>, <<>>) : i \in 0..(Len(s.syms) - 1)}
    [] s.k = "array"   -> LET I == Datums(s.c[1])
                              J == IF Cardinality(I) > 2 THEN {CHOOSE a \in I : TRUE, CHOOSE b \in I : b # (CHOOSE a \in I : TRUE)} ELSE I
                          IN {D("array", <<>>, q) : q \in SeqsUpTo(J, 3)}
    [] s.k = "map"     -> LET I == Datums(s.c[1])
                              a == CHOOSE v \in I : TRUE
                              b == CHOOSE v \in I : Cardinality(I) = 1 \/ v # a
                          IN {D("map", <<>>, <<>>), D("map", <<>>, <<D("entry", <<107>>, <<a>>)>>),
                              D("map", <<>>, <<D("entry", <<107>>, <<a>>), D("entry", <<>>, <<b>>)>>),
                              D("map", <<>>, <<D("entry", <<122, 122>>, <<b>>), D("entry", <<107>>, <<a>>), D("entry", <<113>>, <<a>>)>>)}
    [] s.k = "union"   -> UNION {{D("union", <<i - 1>>, <<v>>) : v \in Datums(s.c[i])} : i \in 1..Len(s.c)}
    [] s.k = "record"  -> LET pick(t) == LET I == Datums(t)
                                             big == CHOOSE a \in I : \A w \in I : Len(a.c) + Len(a.b) >= Len(w.c) + Len(w.b)   \* the largest datum (most items)
                                         IN IF Cardinality(I) > 2 THEN {big, CHOOSE b \in I : b # big} ELSE I
                          IN IF Len(s.c) = 0 THEN {D("record", <<>>, <<>>)}
                             ELSE IF Len(s.c) = 1 THEN {D("record", <<>>, <<a>>) : a \in pick(s.c[1].c[1])}
                             ELSE IF Len(s.c) = 2 THEN {D("record", <<>>, <<a, b>>) : a \in pick(s.c[1].c[1]), b \in pick(s.c[2].c[1])}
                             ELSE IF Len(s.c) = 3 THEN {D("record", <<>>, <<a, b, c>>) : a \in pick(s.c[1].c[1]), b \in pick(s.c[2].c[1]), c \in pick(s.c[3].c[1])}
                             \* wider records: two datums, each field taking its first / second choice
                             ELSE LET f(i, w) == LET P == pick(s.c[i].c[1]) IN
                                                 LET a == CHOOSE v \in P : \A q \in P : Len(v.c) + Len(v.b) >= Len(q.c) + Len(q.b) IN IF w = 1 \/ Cardinality(P) = 1 THEN a ELSE CHOOSE v \in P : v # a
                                  IN {D("record", <<>>, [i \in 1..Len(s.c) |-> f(i, 1)]), D("record", <<>>, [i \in 1..Len(s.c) |-> f(i, 2)]),
                                      D("record", <<>>, [i \in 1..Len(s.c) |-> f(i, 1 + (i % 2))])}

\* ---- all legal encodings ----
\* concatenations picking one element of each set of the sequence
RECURSIVE ConcatPicks(_)
ConcatPicks(sets) == IF sets = <<>> THEN {<<>>} ELSE {a \o r : a \in Head(sets), r \in ConcatPicks(Tail(sets))}

\* sequences picking one element of each set of the sequence (kept apart, not concatenated)
RECURSIVE SeqPicks(_)
SeqPicks(sets) == IF sets = <<>> THEN {<<>>} ELSE {<<a>> \o r : a \in Head(sets), r \in SeqPicks(Tail(sets))}

RECURSIVE AllPlans(_)
AllPlans(n) == IF n = 0 THEN {<<>>}
               ELSE UNION {{<<[n |-> k, sized |-> z]>> \o p : p \in AllPlans(n - k)} : k \in 1..n, z \in BOOLEAN}
\* Lite: one unsized block, one sized block, one sized block per item (enough for skipping, keeps wide records tractable)
Plans(n) == IF ~Lite THEN AllPlans(n)
            ELSE IF n = 0 THEN {<<>>}
            ELSE {<<[n |-> n, sized |-> FALSE]>>, <<[n |-> n, sized |-> TRUE]>>, [i \in 1..n |-> [n |-> 1, sized |-> (i % 2 = 1)]]}

\* items: a sequence of already chosen item encodings; the blocks of plan, then the terminator
RECURSIVE BlocksOf(_, _, _)
BlocksOf(items, plan, from) ==
  IF plan = <<>> THEN <<0>>
  ELSE LET p == Head(plan)
           body == ConcatAll([i \in 1..p.n |-> items[from + i - 1]])
       IN (IF p.sized THEN VarintOfInt(-p.n) \o VarintOfInt(Len(body)) ELSE VarintOfInt(p.n)) \o body \o BlocksOf(items, Tail(plan), from + p.n)

RECURSIVE Encs(_, _)
Encs(s, d) ==
  CASE s.k = "union"  -> {VarintOfInt(d.b[1]) \o e : e \in Encs(s.c[d.b[1] + 1], d.c[1])}
    [] s.k = "record" -> ConcatPicks([i \in 1..Len(s.c) |-> Encs(s.c[i].c[1], d.c[i])])
    [] s.k \in {"array", "map"} ->
         LET n == Len(d.c)
             itemSets == [i \in 1..n |-> IF s.k = "array" THEN Encs(s.c[1], d.c[i])
                                         ELSE {VarintOfInt(Len(d.c[i].b)) \o d.c[i].b \o e : e \in Encs(s.c[1], d.c[i].c[1])}]
         IN {BlocksOf(ch, p, 1) : ch \in SeqPicks(itemSets), p \in Plans(n)}
    [] OTHER -> {Enc(s, d)}

Thm(s, d, e) ==
  /\ Dec(s, e, 1) = Res(TRUE, d, Len(e) + 1)
  /\ Dec(s, e \o <<255, 1>>, 1) = Res(TRUE, d, Len(e) + 1)
  /\ \A k \in 0..(Len(e) - 1) : ~Dec(s, SubSeq(e, 1, k), 1).ok
  /\ (Enc(s, d) \in Encs(s, d))

Prims == {Prim("null"), Prim("boolean"), Prim("int"), Prim("long"), Prim("float"), Prim("double"), Prim("bytes"), Prim("string"),
          FixedS("F2", 2), FixedS("F0", 0), EnumS("E", <<"A", "B", "C">>)}
NullableOf(t) == {UnionS(<<PNull, t>>), UnionS(<<t, PNull>>)}
Level1 == {ArrayS(t) : t \in Prims} \cup {MapS(t) : t \in Prims} \cup UNION {NullableOf(t) : t \in Prims \ {PNull}}
          \cup {UnionS(<<PStr>>), UnionS(<<PLong, PStr, PNull>>), UnionS(<<Prim("int"), PLong>>), UnionS(<<PNull, Prim("int"), PLong>>)}
          \cup {RecordS("R", <<>>), RecordS("R", <<FieldS("a", PLong), FieldS("b", PStr)>>)}
Level2 == {ArrayS(ArrayS(PLong)), ArrayS(MapS(PStr)), MapS(ArrayS(PStr)), MapS(MapS(PLong)),
           ArrayS(UnionS(<<PNull, PLong>>)), MapS(UnionS(<<PStr, PNull>>)),
           UnionS(<<PNull, ArrayS(PLong)>>), UnionS(<<PNull, MapS(PStr)>>),
           ArrayS(RecordS("R", <<FieldS("a", PLong), FieldS("b", UnionS(<<PNull, PStr>>))>>)),
           RecordS("R", <<FieldS("l", ArrayS(PLong)), FieldS("m", MapS(PStr)), FieldS("z", PLong)>>),
           RecordS("R", <<FieldS("n", RecordS("N", <<FieldS("x", ArrayS(PStr))>>)), FieldS("u", UnionS(<<PNull, RecordS("N2", <<FieldS("y", PLong)>>)>>))>>),
           ArrayS(FixedS("F3", 3)), MapS(EnumS("E", <<"A", "B">>))}
\* wide and nested records for projection / skipping (C04): every kind followed by further fields
Wide == RecordS("W", <<FieldS("a", PLong), FieldS("l", ArrayS(PLong)), FieldS("s", PStr), FieldS("m", MapS(PStr)),
                      FieldS("u", UnionS(<<PNull, PStr>>)), FieldS("f", FixedS("F2", 2)), FieldS("b", Prim("bytes")), FieldS("z", PLong)>>)
Inner == RecordS("I", <<FieldS("x", ArrayS(PStr)), FieldS("y", Prim("double")), FieldS("k", Prim("boolean"))>>)
Nested == RecordS("N", <<FieldS("i", Inner), FieldS("li", ArrayS(Inner)), FieldS("q", UnionS(<<PNull, Inner>>)), FieldS("t", Prim("float"))>>)
Deep == RecordS("D", <<FieldS("mm", MapS(ArrayS(PLong))), FieldS("n", RecordS("N2", <<FieldS("u", UnionS(<<PStr, PNull>>)), FieldS("v", PLong)>>)), FieldS("e", Prim("int"))>>)
\* Avro names are case-sensitive: three different fields
CaseRec == RecordS("C", <<FieldS("id", PLong), FieldS("ID", PStr), FieldS("Id", ArrayS(PLong)), FieldS("x", PLong)>>)
\* items that are pointers in Go (nullable records), also when the target keeps none of their fields
NullItems == RecordS("AN", <<FieldS("l", ArrayS(UnionS(<<PNull, RecordS("J", <<FieldS("p", PLong), FieldS("q", PStr)>>)>>))), FieldS("z", PLong)>>)
ProjUniverse == IF Size = "proj" THEN {Wide, Nested, CaseRec, NullItems} ELSE {Wide, Nested, CaseRec, NullItems, Deep, ArrayS(Inner), MapS(Inner)}

Level3 == {ArrayS(MapS(ArrayS(PLong))), MapS(UnionS(<<PNull, ArrayS(PStr)>>)), ArrayS(UnionS(<<RecordS("U", <<FieldS("q", PLong)>>), PNull>>)),
           MapS(RecordS("MR", <<FieldS("l", ArrayS(PLong)), FieldS("u", UnionS(<<PNull, PStr>>))>>)),
           RecordS("R3", <<FieldS("a", ArrayS(RecordS("In", <<FieldS("m", MapS(PLong)), FieldS("f", FixedS("F1", 1))>>))), FieldS("z", Prim("boolean"))>>),
           UnionS(<<PNull, RecordS("UR", <<FieldS("aa", ArrayS(ArrayS(PStr)))>>)>>),
           ArrayS(Prim("bytes")), MapS(Prim("double")), ArrayS(Prim("boolean")), MapS(FixedS("MF", 2)), ArrayS(UnionS(<<Prim("double"), PNull>>))}
Universe == IF Size \in {"proj", "projfull"} THEN ProjUniverse ELSE IF Size = "quick" THEN Prims \cup {ArrayS(PLong), MapS(PStr), UnionS(<<PNull, PStr>>), UnionS(<<PLong, PNull>>),
                                               RecordS("R", <<FieldS("a", PLong), FieldS("b", PStr)>>), ArrayS(ArrayS(PLong)),
                                               RecordS("R", <<FieldS("l", ArrayS(PLong)), FieldS("m", MapS(PStr)), FieldS("z", PLong)>>), CaseRec,
                                               ArrayS(Prim("double")), ArrayS(Prim("float")), MapS(UnionS(<<PNull, Prim("int"), PLong>>)),
                                               RecordS("O", <<FieldS("h", PLong), FieldS("n", RecordS("I2", <<FieldS("a", PLong), FieldS("b", PStr), FieldS("c", PLong)>>)), FieldS("t", PLong)>>)}
            ELSE Prims \cup Level1 \cup Level2 \cup Level3 \cup {CaseRec}

Init == x \in {[s |-> s, d |-> NilD, e |-> <<>>] : s \in Universe} /\ ph = 0
Next == \/ ph = 0 /\ x' \in {[s |-> x.s, d |-> d, e |-> <<>>] : d \in Datums(x.s)} /\ ph' = 1
        \/ ph = 1 /\ x' \in {[s |-> x.s, d |-> x.d, e |-> e] : e \in Encs(x.s, x.d)} /\ ph' = 2

Inv == ph = 2 => Thm(x.s, x.d, x.e)
DumpOK == (Dump /\ ph = 2) => CSVWrite("%1$s", <<ToJson([s |-> x.s, d |-> x.d, e |-> x.e])>>, "cases.ndjson")
=============================================================================
