---- MODULE BankPool_TTrace_1791125109 ----
EXTENDS BankPool, Sequences, TLCExt, Toolbox, Naturals, TLC, BankPool_TEConstants

_expression ==
    LET BankPool_TEExpression == INSTANCE BankPool_TEExpression
    IN BankPool_TEExpression!expression
----

_trace ==
    LET BankPool_TETrace == INSTANCE BankPool_TETrace
    IN BankPool_TETrace!trace
----

_inv ==
    ~(
        TLCGet("level") = Len(_TETrace)
        /\
        ops = (8)
        /\
        mem = ((<<1, 1>> :> 0))
        /\
        held = ((h1 :> 1 @@ h2 :> 1))
        /\
        born = ({1})
        /\
        pool = (<<1, 0>>)
        /\
        nextArr = (2)
        /\
        lastZero = (TRUE)
        /\
        arena = (<<(t1 :> [arr |-> 1, cap |-> 1, len |-> 1]), (t1 :> [arr |-> 0, cap |-> 0, len |-> 0])>>)
        /\
        live = ({[arr |-> 1, idx |-> 1, holder |-> h1, bank |-> 1], [arr |-> 1, idx |-> 1, holder |-> h2, bank |-> 1]})
    )
----

_init ==
    /\ born = _TETrace[1].born
    /\ pool = _TETrace[1].pool
    /\ live = _TETrace[1].live
    /\ ops = _TETrace[1].ops
    /\ mem = _TETrace[1].mem
    /\ held = _TETrace[1].held
    /\ nextArr = _TETrace[1].nextArr
    /\ lastZero = _TETrace[1].lastZero
    /\ arena = _TETrace[1].arena
----

_next ==
    /\ \E i,j \in DOMAIN _TETrace:
        /\ \/ /\ j = i + 1
              /\ i = TLCGet("level")
        /\ born  = _TETrace[i].born
        /\ born' = _TETrace[j].born
        /\ pool  = _TETrace[i].pool
        /\ pool' = _TETrace[j].pool
        /\ live  = _TETrace[i].live
        /\ live' = _TETrace[j].live
        /\ ops  = _TETrace[i].ops
        /\ ops' = _TETrace[j].ops
        /\ mem  = _TETrace[i].mem
        /\ mem' = _TETrace[j].mem
        /\ held  = _TETrace[i].held
        /\ held' = _TETrace[j].held
        /\ nextArr  = _TETrace[i].nextArr
        /\ nextArr' = _TETrace[j].nextArr
        /\ lastZero  = _TETrace[i].lastZero
        /\ lastZero' = _TETrace[j].lastZero
        /\ arena  = _TETrace[i].arena
        /\ arena' = _TETrace[j].arena

\* Uncomment the ASSUME below to write the states of the error trace
\* to the given file in Json format. Note that you can pass any tuple
\* to `JsonSerialize`. For example, a sub-sequence of _TETrace.
    \* ASSUME
    \*     LET J == INSTANCE Json
    \*         IN J!JsonSerialize("BankPool_TTrace_1791125109.json", _TETrace)

=============================================================================

 Note that you can extract this module `BankPool_TEExpression`
  to a dedicated file to reuse `expression` (the module in the 
  dedicated `BankPool_TEExpression.tla` file takes precedence 
  over the module `BankPool_TEExpression` below).

---- MODULE BankPool_TEExpression ----
EXTENDS BankPool, Sequences, TLCExt, Toolbox, Naturals, TLC, BankPool_TEConstants

expression == 
    [
        \* To hide variables of the `BankPool` spec from the error trace,
        \* remove the variables below.  The trace will be written in the order
        \* of the fields of this record.
        born |-> born
        ,pool |-> pool
        ,live |-> live
        ,ops |-> ops
        ,mem |-> mem
        ,held |-> held
        ,nextArr |-> nextArr
        ,lastZero |-> lastZero
        ,arena |-> arena
        
        \* Put additional constant-, state-, and action-level expressions here:
        \* ,_stateNumber |-> _TEPosition
        \* ,_bornUnchanged |-> born = born'
        
        \* Format the `born` variable as Json value.
        \* ,_bornJson |->
        \*     LET J == INSTANCE Json
        \*     IN J!ToJson(born)
        
        \* Lastly, you may build expressions over arbitrary sets of states by
        \* leveraging the _TETrace operator.  For example, this is how to
        \* count the number of times a spec variable changed up to the current
        \* state in the trace.
        \* ,_bornModCount |->
        \*     LET F[s \in DOMAIN _TETrace] ==
        \*         IF s = 1 THEN 0
        \*         ELSE IF _TETrace[s].born # _TETrace[s-1].born
        \*             THEN 1 + F[s-1] ELSE F[s-1]
        \*     IN F[_TEPosition - 1]
    ]

=============================================================================



Parsing and semantic processing can take forever if the trace below is long.
 In this case, it is advised to uncomment the module below to deserialize the
 trace from a generated binary file.

\*
\*---- MODULE BankPool_TETrace ----
\*EXTENDS BankPool, IOUtils, TLC, BankPool_TEConstants
\*
\*trace == IODeserialize("BankPool_TTrace_1791125109.bin", TRUE)
\*
\*=============================================================================
\*

---- MODULE BankPool_TETrace ----
EXTENDS BankPool, TLC, BankPool_TEConstants

trace == 
    <<
    ([ops |-> 0,mem |-> <<>>,held |-> (h1 :> 0 @@ h2 :> 0),born |-> {},pool |-> <<0, 0>>,nextArr |-> 1,lastZero |-> TRUE,arena |-> <<(t1 :> [arr |-> 0, cap |-> 0, len |-> 0]), (t1 :> [arr |-> 0, cap |-> 0, len |-> 0])>>,live |-> {}]),
    ([ops |-> 1,mem |-> <<>>,held |-> (h1 :> 1 @@ h2 :> 0),born |-> {1},pool |-> <<0, 0>>,nextArr |-> 1,lastZero |-> TRUE,arena |-> <<(t1 :> [arr |-> 0, cap |-> 0, len |-> 0]), (t1 :> [arr |-> 0, cap |-> 0, len |-> 0])>>,live |-> {}]),
    ([ops |-> 2,mem |-> <<>>,held |-> (h1 :> 0 @@ h2 :> 0),born |-> {1},pool |-> <<2, 0>>,nextArr |-> 1,lastZero |-> TRUE,arena |-> <<(t1 :> [arr |-> 0, cap |-> 0, len |-> 0]), (t1 :> [arr |-> 0, cap |-> 0, len |-> 0])>>,live |-> {}]),
    ([ops |-> 3,mem |-> <<>>,held |-> (h1 :> 1 @@ h2 :> 0),born |-> {1},pool |-> <<1, 0>>,nextArr |-> 1,lastZero |-> TRUE,arena |-> <<(t1 :> [arr |-> 0, cap |-> 0, len |-> 0]), (t1 :> [arr |-> 0, cap |-> 0, len |-> 0])>>,live |-> {}]),
    ([ops |-> 4,mem |-> <<>>,held |-> (h1 :> 1 @@ h2 :> 1),born |-> {1},pool |-> <<0, 0>>,nextArr |-> 1,lastZero |-> TRUE,arena |-> <<(t1 :> [arr |-> 0, cap |-> 0, len |-> 0]), (t1 :> [arr |-> 0, cap |-> 0, len |-> 0])>>,live |-> {}]),
    ([ops |-> 5,mem |-> (<<1, 1>> :> 0),held |-> (h1 :> 1 @@ h2 :> 1),born |-> {1},pool |-> <<0, 0>>,nextArr |-> 2,lastZero |-> TRUE,arena |-> <<(t1 :> [arr |-> 1, cap |-> 1, len |-> 1]), (t1 :> [arr |-> 0, cap |-> 0, len |-> 0])>>,live |-> {[arr |-> 1, idx |-> 1, holder |-> h1, bank |-> 1]}]),
    ([ops |-> 6,mem |-> (<<1, 1>> :> 0),held |-> (h1 :> 1 @@ h2 :> 0),born |-> {1},pool |-> <<2, 0>>,nextArr |-> 2,lastZero |-> TRUE,arena |-> <<(t1 :> [arr |-> 1, cap |-> 1, len |-> 0]), (t1 :> [arr |-> 0, cap |-> 0, len |-> 0])>>,live |-> {[arr |-> 1, idx |-> 1, holder |-> h1, bank |-> 1]}]),
    ([ops |-> 7,mem |-> (<<1, 1>> :> 0),held |-> (h1 :> 1 @@ h2 :> 1),born |-> {1},pool |-> <<1, 0>>,nextArr |-> 2,lastZero |-> TRUE,arena |-> <<(t1 :> [arr |-> 1, cap |-> 1, len |-> 0]), (t1 :> [arr |-> 0, cap |-> 0, len |-> 0])>>,live |-> {[arr |-> 1, idx |-> 1, holder |-> h1, bank |-> 1]}]),
    ([ops |-> 8,mem |-> (<<1, 1>> :> 0),held |-> (h1 :> 1 @@ h2 :> 1),born |-> {1},pool |-> <<1, 0>>,nextArr |-> 2,lastZero |-> TRUE,arena |-> <<(t1 :> [arr |-> 1, cap |-> 1, len |-> 1]), (t1 :> [arr |-> 0, cap |-> 0, len |-> 0])>>,live |-> {[arr |-> 1, idx |-> 1, holder |-> h1, bank |-> 1], [arr |-> 1, idx |-> 1, holder |-> h2, bank |-> 1]}])
    >>
----


=============================================================================

---- MODULE BankPool_TEConstants ----
EXTENDS BankPool

CONSTANTS h1, h2, t1

=============================================================================

---- CONFIG BankPool_TTrace_1791125109 ----
CONSTANTS
    Holders = { h1 , h2 }
    NBanks = 2
    TypesB = { t1 }
    MaxOps = 8
    MaxCap = 2
    DoublePut = TRUE
    h1 = h1
    h2 = h2
    t1 = t1

INVARIANT
    _inv

CHECK_DEADLOCK
    \* CHECK_DEADLOCK off because of PROPERTY or INVARIANT above.
    FALSE

INIT
    _init

NEXT
    _next

CONSTANT
    _TETrace <- _trace

ALIAS
    _expression
=============================================================================
\* Generated on Sun Oct 04 14:45:10 UTC 2026