SPECIFICATION Spec
CONSTANTS Types = {"E", "C"} MaxOps = 4
INVARIANTS LatestWins Monotone NothingElse
PROPERTY AppendOnly
CHECK_DEADLOCK FALSE
