SPECIFICATION Spec
CONSTANTS Offsets = {0, 60, 3600} MaxParses = 4 Slots = 2 Bounded = TRUE
INVARIANTS HeldStable
CHECK_DEADLOCK FALSE
