----------------------------- MODULE Concurrency -----------------------------
(***************************************************************************)
(* The shared state of the library under concurrent use (C12): the codec   *)
(* registry and the schema registry behind sync.RWMutex'es, the timezone   *)
(* cache behind a sync.Mutex.  Each goroutine performs a few operations;   *)
(* every critical section is two labelled steps (enter: the map access,    *)
(* leave) so that TLC interleaves other goroutines inside it.              *)
(*   MutualExclusion  a writer of a map is never inside together with      *)
(*                    anyone else; readers may share                       *)
(*   LookupSeesLatest a lookup returns the value of the last registration  *)
(*                    that completed before it entered (no torn / stale    *)
(*                    value): the result a sequential run would give       *)
(*   TzCanonical      one location object per offset, whoever creates it   *)
(* The trace spec Trace_Conc applies MutualExclusion to the enter/leave    *)
(* events recorded from the real code (hooks inside the sections).         *)
(***************************************************************************)
EXTENDS Integers, Sequences, FiniteSets, TLC

CONSTANTS Procs, OpsPer

(* --algorithm conc {
  variables
    rw = [l \in {"reg", "sch"} |-> [w |-> 0, r |-> {}]],   \* RWMutex: writer id or 0, set of readers
    mu = 0,                                                 \* Mutex owner or 0
    inside = [s \in {"reg", "sch", "tz"} |-> {}],           \* who is inside which section, with mode
    val = [l \in {"reg", "sch"} |-> 0],                     \* current registration (version counter)
    tzmap = {},                                             \* offsets with a cached location
    tzcreated = [o \in {1, 2} |-> 0],                       \* how many location objects were created per offset
    got = [p \in Procs |-> 0], sawAtEntry = [p \in Procs |-> 0];

  process (g \in Procs)
    variables n = 0, op = "", lock = "", off = 1;
  {
  loop: while (n < OpsPer) {
          with (o \in {"W", "R", "T"}, l \in {"reg", "sch"}, f \in {1, 2}) { op := o; lock := l; off := f };
          if (op = "W") {
  wlock:     await rw[lock].w = 0 /\ rw[lock].r = {};
             rw[lock].w := self;
  wenter:    inside[lock] := inside[lock] \cup {<<self, "w">>};
             val[lock] := val[lock] + 1;
  wleave:    inside[lock] := inside[lock] \ {<<self, "w">>};
             rw[lock].w := 0;
          } else if (op = "R") {
  rlock:     await rw[lock].w = 0;
             rw[lock].r := rw[lock].r \cup {self};
             sawAtEntry[self] := val[lock];
  renter:    inside[lock] := inside[lock] \cup {<<self, "r">>};
             got[self] := val[lock];
  rleave:    inside[lock] := inside[lock] \ {<<self, "r">>};
             rw[lock].r := rw[lock].r \ {self};
          } else {
  tlock:     await mu = 0;
             mu := self;
  tenter:    inside["tz"] := inside["tz"] \cup {<<self, "w">>};
             if (off \notin tzmap) { tzmap := tzmap \cup {off}; tzcreated[off] := tzcreated[off] + 1 };
  tleave:    inside["tz"] := inside["tz"] \ {<<self, "w">>};
             mu := 0;
          };
  next:   n := n + 1;
        }
  }
} *)
\* BEGIN TRANSLATION
VARIABLES pc, rw, mu, inside, val, tzmap, tzcreated, got, sawAtEntry, n, op, 
          lock, off

vars == << pc, rw, mu, inside, val, tzmap, tzcreated, got, sawAtEntry, n, op, 
           lock, off >>

ProcSet == (Procs)

Init == (* Global variables *)
        /\ rw = [l \in {"reg", "sch"} |-> [w |-> 0, r |-> {}]]
        /\ mu = 0
        /\ inside = [s \in {"reg", "sch", "tz"} |-> {}]
        /\ val = [l \in {"reg", "sch"} |-> 0]
        /\ tzmap = {}
        /\ tzcreated = [o \in {1, 2} |-> 0]
        /\ got = [p \in Procs |-> 0]
        /\ sawAtEntry = [p \in Procs |-> 0]
        (* Process g *)
        /\ n = [self \in Procs |-> 0]
        /\ op = [self \in Procs |-> ""]
        /\ lock = [self \in Procs |-> ""]
        /\ off = [self \in Procs |-> 1]
        /\ pc = [self \in ProcSet |-> "loop"]

loop(self) == /\ pc[self] = "loop"
              /\ IF n[self] < OpsPer
                    THEN /\ \E o \in {"W", "R", "T"}:
                              \E l \in {"reg", "sch"}:
                                \E f \in {1, 2}:
                                  /\ op' = [op EXCEPT ![self] = o]
                                  /\ lock' = [lock EXCEPT ![self] = l]
                                  /\ off' = [off EXCEPT ![self] = f]
                         /\ IF op'[self] = "W"
                               THEN /\ pc' = [pc EXCEPT ![self] = "wlock"]
                               ELSE /\ IF op'[self] = "R"
                                          THEN /\ pc' = [pc EXCEPT ![self] = "rlock"]
                                          ELSE /\ pc' = [pc EXCEPT ![self] = "tlock"]
                    ELSE /\ pc' = [pc EXCEPT ![self] = "Done"]
                         /\ UNCHANGED << op, lock, off >>
              /\ UNCHANGED << rw, mu, inside, val, tzmap, tzcreated, got, 
                              sawAtEntry, n >>

next(self) == /\ pc[self] = "next"
              /\ n' = [n EXCEPT ![self] = n[self] + 1]
              /\ pc' = [pc EXCEPT ![self] = "loop"]
              /\ UNCHANGED << rw, mu, inside, val, tzmap, tzcreated, got, 
                              sawAtEntry, op, lock, off >>

wlock(self) == /\ pc[self] = "wlock"
               /\ rw[lock[self]].w = 0 /\ rw[lock[self]].r = {}
               /\ rw' = [rw EXCEPT ![lock[self]].w = self]
               /\ pc' = [pc EXCEPT ![self] = "wenter"]
               /\ UNCHANGED << mu, inside, val, tzmap, tzcreated, got, 
                               sawAtEntry, n, op, lock, off >>

wenter(self) == /\ pc[self] = "wenter"
                /\ inside' = [inside EXCEPT ![lock[self]] = inside[lock[self]] \cup {<<self, "w">>}]
                /\ val' = [val EXCEPT ![lock[self]] = val[lock[self]] + 1]
                /\ pc' = [pc EXCEPT ![self] = "wleave"]
                /\ UNCHANGED << rw, mu, tzmap, tzcreated, got, sawAtEntry, n, 
                                op, lock, off >>

wleave(self) == /\ pc[self] = "wleave"
                /\ inside' = [inside EXCEPT ![lock[self]] = inside[lock[self]] \ {<<self, "w">>}]
                /\ rw' = [rw EXCEPT ![lock[self]].w = 0]
                /\ pc' = [pc EXCEPT ![self] = "next"]
                /\ UNCHANGED << mu, val, tzmap, tzcreated, got, sawAtEntry, n, 
                                op, lock, off >>

rlock(self) == /\ pc[self] = "rlock"
               /\ rw[lock[self]].w = 0
               /\ rw' = [rw EXCEPT ![lock[self]].r = rw[lock[self]].r \cup {self}]
               /\ sawAtEntry' = [sawAtEntry EXCEPT ![self] = val[lock[self]]]
               /\ pc' = [pc EXCEPT ![self] = "renter"]
               /\ UNCHANGED << mu, inside, val, tzmap, tzcreated, got, n, op, 
                               lock, off >>

renter(self) == /\ pc[self] = "renter"
                /\ inside' = [inside EXCEPT ![lock[self]] = inside[lock[self]] \cup {<<self, "r">>}]
                /\ got' = [got EXCEPT ![self] = val[lock[self]]]
                /\ pc' = [pc EXCEPT ![self] = "rleave"]
                /\ UNCHANGED << rw, mu, val, tzmap, tzcreated, sawAtEntry, n, 
                                op, lock, off >>

rleave(self) == /\ pc[self] = "rleave"
                /\ inside' = [inside EXCEPT ![lock[self]] = inside[lock[self]] \ {<<self, "r">>}]
                /\ rw' = [rw EXCEPT ![lock[self]].r = rw[lock[self]].r \ {self}]
                /\ pc' = [pc EXCEPT ![self] = "next"]
                /\ UNCHANGED << mu, val, tzmap, tzcreated, got, sawAtEntry, n, 
                                op, lock, off >>

tlock(self) == /\ pc[self] = "tlock"
               /\ mu = 0
               /\ mu' = self
               /\ pc' = [pc EXCEPT ![self] = "tenter"]
               /\ UNCHANGED << rw, inside, val, tzmap, tzcreated, got, 
                               sawAtEntry, n, op, lock, off >>

tenter(self) == /\ pc[self] = "tenter"
                /\ inside' = [inside EXCEPT !["tz"] = inside["tz"] \cup {<<self, "w">>}]
                /\ IF off[self] \notin tzmap
                      THEN /\ tzmap' = (tzmap \cup {off[self]})
                           /\ tzcreated' = [tzcreated EXCEPT ![off[self]] = tzcreated[off[self]] + 1]
                      ELSE /\ TRUE
                           /\ UNCHANGED << tzmap, tzcreated >>
                /\ pc' = [pc EXCEPT ![self] = "tleave"]
                /\ UNCHANGED << rw, mu, val, got, sawAtEntry, n, op, lock, off >>

tleave(self) == /\ pc[self] = "tleave"
                /\ inside' = [inside EXCEPT !["tz"] = inside["tz"] \ {<<self, "w">>}]
                /\ mu' = 0
                /\ pc' = [pc EXCEPT ![self] = "next"]
                /\ UNCHANGED << rw, val, tzmap, tzcreated, got, sawAtEntry, n, 
                                op, lock, off >>

g(self) == loop(self) \/ next(self) \/ wlock(self) \/ wenter(self)
              \/ wleave(self) \/ rlock(self) \/ renter(self)
              \/ rleave(self) \/ tlock(self) \/ tenter(self)
              \/ tleave(self)

(* Allow infinite stuttering to prevent deadlock on termination. *)
Terminating == /\ \A self \in ProcSet: pc[self] = "Done"
               /\ UNCHANGED vars

Next == (\E self \in Procs: g(self))
           \/ Terminating

Spec == Init /\ [][Next]_vars

Termination == <>(\A self \in ProcSet: pc[self] = "Done")

\* END TRANSLATION

MutualExclusion == \A s \in {"reg", "sch", "tz"} :
                     \A a, b \in inside[s] : (a # b) => (a[2] = "r" /\ b[2] = "r")
\* a reader holds the read lock, so no registration can complete between its entry and its read
LookupSeesLatest == \A p \in Procs : pc[p] = "rleave" => got[p] = sawAtEntry[p]
TzCanonical == \A o \in {1, 2} : tzcreated[o] <= 1
=============================================================================
