INIT Init
NEXT Next
CONSTANTS Which = "strs" Alphabet8 = {0} Alphabet = {1, 128, 255} MaxLen = 11
INVARIANTS InvStrs
CHECK_DEADLOCK FALSE
