INIT Init
NEXT Next
CONSTANTS Which = "parse" Grid = "thorough"
INVARIANTS InvParse InvDateOnly InvReject InvBig InvUnits
CHECK_DEADLOCK FALSE
