INIT Init
NEXT Next
CONSTANTS Dump = TRUE Lite = FALSE Size = "thorough"
INVARIANTS Inv DumpOK
CHECK_DEADLOCK FALSE
