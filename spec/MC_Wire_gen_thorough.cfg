INIT Init
NEXT Next
CONSTANTS Dump = TRUE Size = "thorough"
INVARIANTS Inv DumpOK
CHECK_DEADLOCK FALSE
