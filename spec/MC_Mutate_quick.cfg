INIT InitM
NEXT NextM
CONSTANTS Dump = FALSE Lite = FALSE Size = "quick"
INVARIANTS ToksAreEnc DecTotal DumpM
CHECK_DEADLOCK FALSE
