INIT InitM
NEXT NextM
CONSTANTS Dump = FALSE Size = "quick"
INVARIANTS ToksAreEnc DecTotal DumpM
CHECK_DEADLOCK FALSE
