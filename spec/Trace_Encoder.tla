---------------------------- MODULE Trace_Encoder ----------------------------
(***************************************************************************)
(* Judge for C09 and C16.  The state machine is the writer half of         *)
(* AvroSystem made concrete: pend = encodings buffered since the last      *)
(* block, sync = the marker announced in the header, acc = every byte the  *)
(* writer has accepted.  One trace event per Encoder / FileWriter call,    *)
(* carrying the bytes the writer accepted during that call (delta), the    *)
(* independent decompression of the blocks completed in it (raws), the     *)
(* returned error class, and whether the injected write failure happened   *)
(* inside the call (faulted).                                              *)
(*                                                                         *)
(* Encoder step (C09):                                                     *)
(*   Encode(p): pend' = pend + EncRec(p); if the buffered bytes reach B    *)
(*     exactly one block (count = #pend', raw payload = concatenation of   *)
(*     pend', header's sync) is emitted in this very call and pend' = <<>>;*)
(*     otherwise nothing is emitted.                                       *)
(*   Flush: one block iff pend # <<>>, never an empty block, pend' = <<>>. *)
(* Fault step (C16): the call in which the injected failure happens        *)
(*   returns an error wrapping it, does not panic, and all accepted bytes  *)
(*   are a prefix of the fault-free output of the same history (ref) with  *)
(*   this run's sync marker in place of ref's.  Nothing after the first    *)
(*   failure is judged.                                                    *)
(***************************************************************************)
EXTENDS Container, Json

Trace == ndJsonDeserialize("trace.ndjson")
VARIABLES l, rej, st, sync, pend, acc, ref, skipping
vars == <<l, rej, st, sync, pend, acc, ref, skipping>>

Chk(cond, msg) == IF cond THEN <<>> ELSE <<msg>>

EncRec(p) == VarintOfInt(Len(p)) \o p          \* record {P: bytes}; a record type without fields (kind "empty") encodes to <<>>
Buffered(ps) == Len(ConcatAll(ps))

\* ---- prefix of the reference output modulo sync markers ----
PrefixModSync(a) ==
  LET pf == ParseFile(ref)
      h0 == pf.hdr.pos - 16
      starts == {h0} \cup {pf.blocks[k].syncAt : k \in 1..Len(pf.blocks)}
      \* offset of position i inside a sync marker, or -1
      off == [i \in 1..Len(a) |-> LET Q == {s \in starts : i >= s /\ i < s + 16} IN IF Q = {} THEN -1 ELSE i - (CHOOSE s \in Q : TRUE)]
  IN /\ pf.ok
     /\ Len(a) <= Len(ref)
     /\ \A i \in 1..Len(a) :
          IF off[i] >= 0 THEN (i < pf.hdr.pos \/ a[i] = a[h0 + off[i]])     \* every marker repeats this run's header marker
          ELSE a[i] = ref[i]

\* ---- one emitted block: the delta is exactly one complete block ----
BlockFails(e, recs, count) ==
  LET b == ParseBlocks(e.delta, 1, <<>>) IN
  IF ~b.ok \/ Len(b.blocks) # 1 THEN <<"the call did not emit exactly one complete block">>
  ELSE LET blk == b.blocks[1]
           raw == IF e.codec = "null" THEN blk.payload ELSE (IF Len(e.raws) = 1 THEN e.raws[1] ELSE <<>>) IN
       Chk(blk.count = count, "block record count is not the number of records buffered since the previous block")
       \o Chk(blk.sync = sync, "block is not followed by the header's sync marker")
       \o Chk(e.codec = "null" \/ (Len(e.rawok) = 1 /\ e.rawok[1]), "independent decompressor / checksum rejects the block payload")
       \o Chk(raw = recs, "block payload is not the concatenation, in order, of the records encoded since the previous block")

\* what the call must have done when no fault hit it; returns <<fails, pend'>>
Expect(e) ==
  CASE e.op = "enc_new" ->
         LET h == ParseHeader(e.delta) IN
         <<Chk(h.ok /\ h.pos = Len(e.delta) + 1, "header is not a well-formed container header")
           \o Chk(~h.ok \/ (MetaHas(h.meta, KeySchema) /\ MetaHas(h.meta, KeyCodec) /\ MetaGet(h.meta, KeyCodec) = e.codecBytes), "header metadata lacks schema or names the wrong codec"),
           <<>>>>
    [] e.op = "enc_encode" ->
         LET p2 == Append(pend, IF e.kind = "empty" THEN <<>>
                                ELSE IF e.kind = "wide" THEN EncRec(e.p) \o [i \in 1..39 |-> 0]   \* {P: bytes} followed by 39 longs that are 0
                                ELSE EncRec(e.p)) IN
         IF Buffered(p2) >= e.block THEN <<BlockFails(e, ConcatAll(p2), Len(p2)), <<>>>>
         ELSE <<Chk(e.delta = <<>>, "bytes written although the block size is not reached"), p2>>
    [] e.op = "enc_flush" ->
         IF pend # <<>> THEN <<BlockFails(e, ConcatAll(pend), Len(pend)), <<>>>>
         ELSE <<Chk(e.delta = <<>>, "flush with nothing pending wrote bytes (empty block?)"), <<>>>>
    [] e.op = "fw_block" -> <<BlockFails(e, e.raw, e.count), <<>>>>
    [] OTHER -> <<<<"unknown event">>, pend>>

Judge(e) ==
  IF e.panic # "" THEN <<"panic: " \o e.panic>>
  ELSE IF e.faulted THEN
       Chk(e.err # "", "the writer failed during this call but the call returned nil")
       \o Chk(e.err \in {"", "injected"}, "returned error does not wrap the writer's error")
       \o Chk(ref # <<>> /\ PrefixModSync(acc \o e.delta), "accepted bytes are not a prefix of the fault-free output")
  ELSE Chk(e.err = "", "call returned an error although no write failed: " \o e.err) \o Expect(e)[1]

Init == l = 1 /\ rej = <<>> /\ st = "init" /\ sync = <<>> /\ pend = <<>> /\ acc = <<>> /\ ref = <<>> /\ skipping = FALSE

Step ==
  /\ l <= Len(Trace)
  /\ l' = l + 1
  /\ LET e == Trace[l] IN
     IF e.op = "enc_new" THEN
        \* a new run: reset the machine
        LET h == ParseHeader(e.delta)
            f == LET refNow == e.ref IN
                 IF e.panic # "" THEN <<"panic: " \o e.panic>>
                 ELSE IF e.faulted THEN
                      Chk(e.err = "injected", "header write failed but the error was not returned / not wrapped")
                 ELSE Chk(e.err = "", "header call returned an error although no write failed") \o Expect(e)[1]
        IN /\ rej' = IF f = <<>> THEN rej ELSE Append(rej, [line |-> l, seq |-> e.seq, key |-> e.key, why |-> f])
           /\ sync' = IF h.ok THEN h.sync ELSE <<>>
           /\ pend' = <<>> /\ acc' = e.delta /\ ref' = e.ref
           /\ st' = "open"
           /\ skipping' = (f # <<>> \/ e.faulted \/ e.err # "")
     ELSE IF skipping THEN UNCHANGED <<rej, st, sync, pend, acc, ref, skipping>>
     ELSE LET f == Judge(e) IN
          /\ rej' = IF f = <<>> THEN rej ELSE Append(rej, [line |-> l, seq |-> e.seq, key |-> e.key, why |-> f])
          /\ pend' = IF e.faulted \/ f # <<>> THEN pend ELSE Expect(e)[2]
          /\ acc' = acc \o e.delta
          /\ skipping' = (f # <<>> \/ e.faulted)
          /\ UNCHANGED <<st, sync, ref>>

\* the header fault case also has to satisfy the prefix property (judged here because ref is only known now)
Finish == /\ l = Len(Trace) + 1
          /\ JsonSerialize("verdict.json", [n |-> Len(Trace), rejected |-> rej])
          /\ l' = l + 1 /\ UNCHANGED <<rej, st, sync, pend, acc, ref, skipping>>
Next == Step \/ Finish
Spec == Init /\ [][Next]_vars

\* invariants of the judge's own state machine (checked by TLC while it walks the trace)
TypeOK == st \in {"init", "open"} /\ skipping \in BOOLEAN
=============================================================================
