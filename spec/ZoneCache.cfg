SPECIFICATION Spec
CONSTANTS Offsets = {0, 60, 3600, 7200, 19800} MaxParses = 6 Slots = 2 Bounded = FALSE
INVARIANTS HeldStable CacheSound
PROPERTY AddOnly
CHECK_DEADLOCK FALSE
