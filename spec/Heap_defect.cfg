SPECIFICATION Spec
CONSTANTS MaxObj = 5 Mechanisms = {"bank-typed", "map-header"}
INVARIANT GCSafe
CHECK_DEADLOCK FALSE
