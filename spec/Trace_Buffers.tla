---------------------------- MODULE Trace_Buffers ----------------------------
(***************************************************************************)
(* ReadBuf and WriteBuf as state machines (growth beyond the listed        *)
(* properties; run as part of C17, whose subject -- the varint routines -- *)
(* lives on these two types).                                              *)
(*   ReadBuf   state (data, i):  Next(l) / NextAsString(l) return the next *)
(*             l bytes and advance, or fail WITHOUT moving when l is       *)
(*             negative or exceeds what is left; ReadByte; Len = |data|-i; *)
(*             Varint = AvroWire!ParseVarlong at i (advance on success);   *)
(*             Reset(data) restarts at 0.                                  *)
(*   WriteBuf  state buf: Varint appends AvroWire!VarlongOf, Byte / Write  *)
(*             append, Bytes = buf, Len = |buf|, Reset empties.            *)
(* One event per call with its result; the trace spec carries the state    *)
(* and checks every result and the Len reported after every call.          *)
(***************************************************************************)
EXTENDS AvroWire, Json

Trace == ndJsonDeserialize("trace.ndjson")
VARIABLES l, rej, data, i, wbuf, skipping
vars == <<l, rej, data, i, wbuf, skipping>>
Chk(cond, msg) == IF cond THEN <<>> ELSE <<msg>>

Left == Len(data) - i

\* returns <<fails, data', i', wbuf'>>
Apply(e) ==
  CASE e.op = "rb_reset" -> <<Chk(e.len = Len(e.data), "Len after Reset is not the length of the data"), e.data, 0, wbuf>>
    [] e.op \in {"rb_next", "rb_nextstring"} ->
         IF e.arg < 0 \/ e.arg > Left THEN <<Chk(e.out = "err", "Next beyond the data (or negative) did not fail") \o Chk(e.len = Left, "a failed Next moved the read position"), data, i, wbuf>>
         ELSE <<Chk(e.out = "ok" /\ e.res = SubSeq(data, i + 1, i + e.arg), "Next returned the wrong bytes") \o Chk(e.len = Left - e.arg, "Len after Next is wrong"), data, i + e.arg, wbuf>>
    [] e.op = "rb_byte" ->
         IF Left = 0 THEN <<Chk(e.out = "err" /\ e.len = 0, "ReadByte at the end did not fail"), data, i, wbuf>>
         ELSE <<Chk(e.out = "ok" /\ e.res = <<data[i + 1]>> /\ e.len = Left - 1, "ReadByte returned the wrong byte"), data, i + 1, wbuf>>
    [] e.op = "rb_varint" ->
         LET p == ParseVarlong(data, i + 1) IN
         IF p.st = "ok" THEN <<Chk(e.out = "ok" /\ e.res = p.b /\ e.len = Len(data) - (p.pos - 1), "Varint decoded the wrong value or consumed the wrong number of bytes"), data, p.pos - 1, wbuf>>
         \* after a failed Varint the position is unspecified: the harness resets before going on
         ELSE <<Chk(e.out = "err", "a truncated / overflowing varint was accepted"), data, Len(data) - e.len, wbuf>>
    [] e.op = "wb_varint" -> LET nb == wbuf \o VarlongOf(e.v) IN <<Chk(e.bytes = nb /\ e.len = Len(nb), "WriteBuf.Varint did not append the shortest zig-zag varint"), data, i, nb>>
    [] e.op = "wb_byte"   -> LET nb == Append(wbuf, e.arg) IN <<Chk(e.bytes = nb /\ e.len = Len(nb), "WriteBuf.Byte did not append the byte"), data, i, nb>>
    [] e.op = "wb_write"  -> LET nb == wbuf \o e.data IN <<Chk(e.bytes = nb /\ e.len = Len(nb), "WriteBuf.Write did not append the bytes"), data, i, nb>>
    [] e.op = "wb_reset"  -> <<Chk(e.bytes = <<>> /\ e.len = 0, "WriteBuf.Reset did not empty the buffer"), data, i, <<>>>>
    [] OTHER -> <<<<"unknown event">>, data, i, wbuf>>

Init == l = 1 /\ rej = <<>> /\ data = <<>> /\ i = 0 /\ wbuf = <<>> /\ skipping = FALSE
Step ==
  /\ l <= Len(Trace) /\ l' = l + 1
  /\ LET e == Trace[l] IN
     IF e.op = "buf_case" THEN data' = <<>> /\ i' = 0 /\ wbuf' = <<>> /\ skipping' = FALSE /\ UNCHANGED rej
     ELSE IF skipping THEN UNCHANGED <<rej, data, i, wbuf, skipping>>
     ELSE LET a == Apply(e) IN
          /\ rej' = IF a[1] = <<>> THEN rej ELSE Append(rej, [line |-> l, seq |-> e.seq, key |-> e.key, why |-> a[1]])
          /\ data' = a[2] /\ i' = a[3] /\ wbuf' = a[4] /\ skipping' = (a[1] # <<>>)
Finish == /\ l = Len(Trace) + 1
          /\ JsonSerialize("verdict.json", [n |-> Len(Trace), rejected |-> rej])
          /\ l' = l + 1 /\ UNCHANGED <<rej, data, i, wbuf, skipping>>
Next == Step \/ Finish
Spec == Init /\ [][Next]_vars
\* the judge's own state stays well formed
TypeOK == i >= 0 /\ i <= Len(data)
=============================================================================
