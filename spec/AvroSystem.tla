---- MODULE AvroSystem ----
EXTENDS Integers, Sequences, FiniteSets, TLC, SequencesExt

CONSTANTS MaxOps, BlockSizes, RecSizes, WithFaults, WithCrash

VARIABLES phase,            \* "write" | "read" | "end"
          B, est, call, count, wb, pend, disk, nops, nextId, encoded, blk, lastRet, afterFlush,
          cut, pc, pos, delivered, cur, ri, result

wvars == <<B, est, call, count, wb, pend, disk, nops, nextId, encoded, blk, lastRet, afterFlush>>
rvars == <<cut, pc, pos, delivered, cur, ri, result>>
vars  == <<phase, wvars, rvars>>

Sym(f, k, v, i, n) == [f |-> f, blk |-> k, v |-> v, i |-> i, n |-> n]
Field(f, k, v, n)  == [i \in 1..n |-> Sym(f, k, v, i, n)]
HeaderChunk == Field("magic", 0, 0, 2) \o Field("meta", 0, 0, 1) \o Field("hsync", 0, 0, 2)
RECURSIVE SizeOf(_)
SizeOf(rs) == IF rs = <<>> THEN 0 ELSE Head(rs).size + SizeOf(Tail(rs))
RECURSIVE PaySyms(_, _)
PaySyms(k, rs) == IF rs = <<>> THEN <<>> ELSE [i \in 1..Head(rs).size |-> Sym("pay", k, Head(rs).id, i, Head(rs).size)] \o PaySyms(k, Tail(rs))
\* the four writer calls of one block
BlockChunks(k, n, rs) == << Field("cnt", k, rs, 2), Field("len", k, SizeOf(rs), 2), PaySyms(k, rs), Field("sync", k, 0, 2) >>

Init == /\ phase = "write" /\ B \in BlockSizes /\ est = "init" /\ call = "none" /\ count = 0 /\ wb = <<>>
        /\ pend = <<>> /\ disk = <<>> /\ nops = 0 /\ nextId = 1 /\ encoded = <<>> /\ blk = 1 /\ lastRet = "none" /\ afterFlush = FALSE
        /\ cut = 0 /\ pc = "idle" /\ pos = 1 /\ delivered = <<>> /\ cur = <<>> /\ ri = 0 /\ result = "none"

\* ---------------- writer ----------------
New == /\ phase = "write" /\ est = "init" /\ call = "none"
       /\ pend' = <<HeaderChunk>> /\ call' = "new" /\ afterFlush' = FALSE
       /\ UNCHANGED <<phase, B, est, count, wb, disk, nops, nextId, encoded, blk, lastRet, rvars>>
Encode(sz) == /\ phase = "write" /\ est = "open" /\ call = "none" /\ nops < MaxOps
              /\ LET r == [id |-> nextId, size |-> sz]
                     wb2 == Append(wb, [id |-> nextId, size |-> sz]) IN
                 /\ wb' = wb2 /\ count' = count + 1 /\ encoded' = Append(encoded, r) /\ nextId' = nextId + 1
                 /\ IF SizeOf(wb2) >= B THEN pend' = BlockChunks(blk, count + 1, wb2) /\ call' = "encode" /\ lastRet' = lastRet
                    ELSE pend' = <<>> /\ call' = "none" /\ lastRet' = "ok"
              /\ nops' = nops + 1 /\ afterFlush' = FALSE
              /\ UNCHANGED <<phase, B, est, disk, blk, rvars>>
Flush == /\ phase = "write" /\ est = "open" /\ call = "none" /\ nops < MaxOps
         /\ nops' = nops + 1
         /\ IF count > 0 THEN pend' = BlockChunks(blk, count, wb) /\ call' = "flush" /\ lastRet' = lastRet /\ afterFlush' = FALSE
            ELSE pend' = <<>> /\ call' = "none" /\ lastRet' = "ok" /\ afterFlush' = TRUE
         /\ UNCHANGED <<phase, B, est, count, wb, disk, nextId, encoded, blk, rvars>>
WriteOK == /\ phase = "write" /\ pend # <<>>
           /\ disk' = disk \o Head(pend) /\ pend' = Tail(pend)
           /\ UNCHANGED <<phase, B, est, call, count, wb, nops, nextId, encoded, blk, lastRet, afterFlush, rvars>>
WriteFail == /\ WithFaults /\ phase = "write" /\ pend # <<>>
             /\ \E j \in 0..Len(Head(pend)) :
                  /\ (j < Len(Head(pend)) \/ Len(Head(pend)) = 0)
                  /\ disk' = disk \o SubSeq(Head(pend), 1, j)
             /\ pend' = <<>> /\ est' = "failed" /\ call' = "none" /\ lastRet' = "err" /\ afterFlush' = FALSE
             /\ UNCHANGED <<phase, B, count, wb, nops, nextId, encoded, blk, rvars>>
CallDone == /\ phase = "write" /\ pend = <<>> /\ call # "none"
            /\ IF call = "new" THEN est' = "open" /\ UNCHANGED <<count, wb, blk>>
               ELSE est' = est /\ count' = 0 /\ wb' = <<>> /\ blk' = blk + 1
            /\ afterFlush' = (call = "flush")
            /\ call' = "none" /\ lastRet' = "ok"
            /\ UNCHANGED <<phase, B, pend, disk, nops, nextId, encoded, rvars>>

\* ---------------- crash / hand-over ----------------
Stop == /\ phase = "write"
        /\ \E c \in 0..Len(disk) : (WithCrash \/ (c = Len(disk) /\ call = "none")) /\ cut' = c
        /\ phase' = "read" /\ pc' = "magic" /\ UNCHANGED <<wvars, pos, delivered, cur, ri, result>>

\* ---------------- reader on Prefix(disk, cut) ----------------
Avail == cut - pos + 1
Need(n) == IF Avail >= n THEN "ok" ELSE IF Avail <= 0 THEN "eof" ELSE "short"
Fail == pc' = "failed" /\ result' = "err" /\ phase' = "end" /\ UNCHANGED <<cut, pos, delivered, cur, ri, wvars>>
RField(at, n, next) == /\ phase = "read" /\ pc = at
                       /\ IF Need(n) = "ok" THEN pc' = next /\ pos' = pos + n /\ UNCHANGED <<phase, cut, delivered, cur, ri, result, wvars>> ELSE Fail
RMagic == RField("magic", 2, "meta")
RMeta  == RField("meta", 1, "hsync")
RHSync == RField("hsync", 2, "cnt")
RCnt == /\ phase = "read" /\ pc = "cnt"
        /\ CASE Need(2) = "eof" -> pc' = "done" /\ result' = "ok" /\ phase' = "end" /\ UNCHANGED <<cut, pos, delivered, cur, ri, wvars>>
             [] Need(2) = "short" -> Fail
             [] OTHER -> pc' = "len" /\ cur' = disk[pos].v /\ pos' = pos + 2 /\ UNCHANGED <<phase, cut, delivered, ri, result, wvars>>
RLen == RField("len", 2, "pay")
RPay == /\ phase = "read" /\ pc = "pay"
        /\ IF Need(SizeOf(cur)) # "ok" THEN Fail
           ELSE pc' = "rec" /\ ri' = 1 /\ pos' = pos + SizeOf(cur) /\ UNCHANGED <<phase, cut, delivered, cur, result, wvars>>
RRec == /\ phase = "read" /\ pc = "rec"
        /\ IF ri <= Len(cur) THEN delivered' = Append(delivered, cur[ri]) /\ ri' = ri + 1 /\ UNCHANGED <<phase, pc, cut, pos, cur, result, wvars>>
           ELSE pc' = "sync" /\ UNCHANGED <<phase, cut, pos, delivered, cur, ri, result, wvars>>
RSync == RField("sync", 2, "cnt")

Next == New \/ (\E s \in RecSizes : Encode(s)) \/ Flush \/ WriteOK \/ WriteFail \/ CallDone \/ Stop
        \/ RMagic \/ RMeta \/ RHSync \/ RCnt \/ RLen \/ RPay \/ RRec \/ RSync
Spec == Init /\ [][Next]_vars /\ WF_vars(Next)

\* ---------------- properties ----------------
\* parse the disk into blocks (writer-side view)
BlockRecs(k) == LET S == {i \in 1..Len(disk) : disk[i].f = "cnt" /\ disk[i].blk = k /\ disk[i].i = 1} IN
                IF S = {} THEN <<>> ELSE disk[CHOOSE i \in S : TRUE].v
RECURSIVE ConcatBlocks(_, _)
ConcatBlocks(k, upto) == IF k > upto THEN <<>> ELSE BlockRecs(k) \o ConcatBlocks(k + 1, upto)
\* C09: when no call is active and no fault happened, disk = header + complete blocks 1..blk-1, nothing lost or duplicated
C09_GapFree == (est = "open" /\ call = "none") =>
                 /\ ConcatBlocks(1, blk - 1) \o wb = encoded
                 /\ \A k \in 1..(blk - 1) : Len(BlockRecs(k)) > 0
                 /\ count = Len(wb)
                 /\ Len(disk) = 5 + (blk-1) * 6 + SizeOf(ConcatBlocks(1, blk - 1))
C09_Threshold == (est = "open" /\ call = "none" /\ nops > 0) => (SizeOf(wb) < B \/ wb = <<>>)
C09_AfterFlush == (est = "open" /\ afterFlush) => (count = 0 /\ wb = <<>>)
\* C16: a failed writer call returns an error and the disk is a prefix of the fault-free layout
C16_Err == (est = "failed") => lastRet = "err"
\* C08 / C01 at the end of the read
PosOf(f, k, i) == LET S == {p \in 1..Len(disk) : disk[p].f = f /\ disk[p].blk = k /\ disk[p].i = i} IN IF S = {} THEN 0 ELSE CHOOSE p \in S : TRUE
PayOnPrefix(k) == Cardinality({p \in 1..cut : disk[p].f = "pay" /\ disk[p].blk = k})
CompleteBlocks == {k \in 1..blk : /\ PosOf("len", k, 2) # 0 /\ PosOf("len", k, 2) <= cut
                                   /\ PayOnPrefix(k) = disk[PosOf("len", k, 2)].v}
RECURSIVE ConcatSet(_, _)
ConcatSet(k, S) == IF k > blk THEN <<>> ELSE (IF k \in S THEN BlockRecs(k) ELSE <<>>) \o ConcatSet(k + 1, S)
Boundaries == {5} \cup {i \in 1..Len(disk) : disk[i].f = "sync" /\ disk[i].i = 2}
C08_Prefix == (phase = "end") => /\ delivered = ConcatSet(1, CompleteBlocks)
                                 /\ (result = "ok") <=> (cut \in Boundaries)
C01_RoundTrip == (phase = "end" /\ est = "open" /\ call = "none" /\ count = 0 /\ cut = Len(disk)) => (delivered = encoded /\ result = "ok")
Terminates == <>(phase = "end")
DeliveredPrefix == IsPrefix(delivered, encoded)
====
