------------------------------ MODULE AvroWire ------------------------------
(***************************************************************************)
(* The Avro 1.8 binary encoding, written from the specification text       *)
(* (https://avro.apache.org/docs/1.8.1/spec.html#binary_encoding), not     *)
(* from philpearl/avro.  This module is the reference every byte-level     *)
(* check is judged against.                                                *)
(*                                                                         *)
(* TLC integers are 32 bit, so a long is carried as its 8 little-endian    *)
(* two's-complement bytes and all 64-bit work is done on bit sequences     *)
(* (LSB first).  Lengths, counts and positions are plain integers < 2^30.  *)
(*                                                                         *)
(* Shapes (records; JSON objects coming from the harness have the same     *)
(* fields):                                                                *)
(*   schema  [k, name, ns, lt, size, syms, c]  k = Avro type name, or "field" *)
(*           for a record field (name = field name, c = <<type>>)          *)
(*   datum   [k, b, c]   k in null boolean long float double bytes string  *)
(*           fixed enum array map entry union record                       *)
(***************************************************************************)
EXTENDS Integers, Sequences, FiniteSets, TLC, SequencesExt

D(k, b, c) == [k |-> k, b |-> b, c |-> c]
NilD == D("nil", <<>>, <<>>)

S(k, name, lt, size, syms, c) == [k |-> k, name |-> name, ns |-> "", lt |-> lt, size |-> size, syms |-> syms, c |-> c]
Prim(k)      == S(k, "", "", 0, <<>>, <<>>)
FieldS(n, t) == S("field", n, "", 0, <<>>, <<t>>)
RecordS(n, fs) == S("record", n, "", 0, <<>>, fs)
ArrayS(t)    == S("array", "", "", 0, <<>>, <<t>>)
MapS(t)      == S("map", "", "", 0, <<>>, <<t>>)
UnionS(ts)   == S("union", "", "", 0, <<>>, ts)
FixedS(n, z) == S("fixed", n, "", z, <<>>, <<>>)
EnumS(n, sy) == S("enum", n, "", 0, sy, <<>>)

MaxCount == 200000      \* guard: a declared count above this is treated as undecodable by the reference

(* ------------------------------ bits ----------------------------------- *)
Xor(a, b) == (a + b) % 2
Bits(n, w) == [i \in 1..w |-> (n \div (2^(i-1))) % 2]
RECURSIVE BitsVal(_)
BitsVal(bs) == IF bs = <<>> THEN 0 ELSE Head(bs) + 2 * BitsVal(Tail(bs))
Zeros(n) == [i \in 1..n |-> 0]

\* 8 little-endian bytes <-> 64 bits (LSB first)
BytesToBits(b) == [i \in 1..(8 * Len(b)) |-> (b[((i-1) \div 8) + 1] \div (2^((i-1) % 8))) % 2]
BitsToBytes(v) == [j \in 1..(Len(v) \div 8) |-> BitsVal(SubSeq(v, 8*(j-1)+1, 8*j))]

\* zig-zag on 64-bit sequences:  u = (v << 1) ^ (v >> 63);  v = (u >> 1) ^ -(u & 1)
ZigZag(v)   == [i \in 1..64 |-> IF i = 1 THEN v[64] ELSE Xor(v[i-1], v[64])]
UnZigZag(u) == [i \in 1..64 |-> IF i = 64 THEN u[1] ELSE Xor(u[i+1], u[1])]

\* an 8-byte long that is small enough to be used as a TLC integer
IsSmall(b) == \/ (b[5] = 0 /\ b[6] = 0 /\ b[7] = 0 /\ b[8] = 0 /\ b[4] < 64)
              \/ (b[5] = 255 /\ b[6] = 255 /\ b[7] = 255 /\ b[8] = 255 /\ b[4] >= 192)
SmallVal(b) == IF b[8] = 0 THEN b[1] + 256*b[2] + 65536*b[3] + 16777216*b[4]
               ELSE b[1] + 256*b[2] + 65536*b[3] + 16777216*(b[4] - 256)
\* does the long fit the two's-complement width w (bytes)?
FitsWidth(b, w) == IF w >= 8 THEN TRUE
                   ELSE LET sign == IF b[w] >= 128 THEN 255 ELSE 0 IN \A i \in (w+1)..8 : b[i] = sign
\* 8 bytes of a small integer
RECURSIVE NatBytes(_, _)
NatBytes(n, w) == IF w = 0 THEN <<>> ELSE <<n % 256>> \o NatBytes(n \div 256, w - 1)
IntBytes8(n) == IF n >= 0 THEN NatBytes(n, 4) \o <<0, 0, 0, 0>>
                ELSE LET m == (n + 1073741824) + 1073741824 \* n + 2^31, n >= -2^31
                     IN LET lo == NatBytes(m, 4) IN <<lo[1], lo[2], lo[3], lo[4] + 128, 255, 255, 255, 255>>

RECURSIVE ConcatAll(_)
ConcatAll(ss) == IF ss = <<>> THEN <<>> ELSE Head(ss) \o ConcatAll(Tail(ss))

(* ----------------------------- varints ---------------------------------- *)
\* position of the first byte < 128 at or after pos, or 0
RECURSIVE VarEnd(_, _)
VarEnd(bs, pos) == IF pos > Len(bs) THEN 0 ELSE IF bs[pos] < 128 THEN pos ELSE VarEnd(bs, pos + 1)

RECURSIVE GroupBits(_, _, _)
GroupBits(bs, from, to) == IF from > to THEN <<>> ELSE Bits(bs[from] % 128, 7) \o GroupBits(bs, from + 1, to)

\* st: "ok" | "trunc" (input ends inside the varint) | "over" (more than ten bytes / more than 64 bits)
VarRes(st, b, pos) == [st |-> st, b |-> b, pos |-> pos]
Zero8 == <<0, 0, 0, 0, 0, 0, 0, 0>>
ParseVarlong(bs, pos) ==
  LET e == VarEnd(bs, pos) IN
  IF e = 0 THEN VarRes("trunc", Zero8, 0)
  ELSE LET n == e - pos + 1 IN
       IF n > 10 \/ (n = 10 /\ bs[e] > 1) THEN VarRes("over", Zero8, 0)
       ELSE LET g == GroupBits(bs, pos, e)
                u == SubSeq(g \o Zeros(70 - Len(g)), 1, 64)
            IN VarRes("ok", BitsToBytes(UnZigZag(u)), e + 1)

\* the unique shortest zig-zag base-128 form of an 8-byte long
RECURSIVE TopBit(_, _)
TopBit(u, i) == IF i = 0 THEN 0 ELSE IF u[i] = 1 THEN i ELSE TopBit(u, i - 1)
VarlongOf(b8) ==
  LET u == ZigZag(BytesToBits(b8))
      t == TopBit(u, 64)
      n == IF t = 0 THEN 1 ELSE (t + 6) \div 7
      p == u \o Zeros(6)
  IN [i \in 1..n |-> BitsVal(SubSeq(p, 7*(i-1)+1, 7*i)) + (IF i < n THEN 128 ELSE 0)]
VarintOfInt(n) == VarlongOf(IntBytes8(n))

(* ------------------------------ decoder --------------------------------- *)
Res(ok, d, pos) == [ok |-> ok, d |-> d, pos |-> pos]
Fail == Res(FALSE, NilD, 0)
Have(bs, pos, n) == n >= 0 /\ pos + n - 1 <= Len(bs)

\* a small non-negative long (length, index) or a small count
SmallAt(bs, pos) == LET v == ParseVarlong(bs, pos) IN
                    IF v.st = "ok" /\ IsSmall(v.b) THEN [ok |-> TRUE, val |-> SmallVal(v.b), pos |-> v.pos]
                    ELSE [ok |-> FALSE, val |-> 0, pos |-> 0]

RECURSIVE Dec(_, _, _), DecFields(_, _, _, _, _), DecBlocks(_, _, _, _), DecItems(_, _, _, _, _)

Dec(s, bs, pos) ==
  CASE s.k = "null"    -> Res(TRUE, D("null", <<>>, <<>>), pos)
    [] s.k = "boolean" -> IF Have(bs, pos, 1) /\ bs[pos] \in {0, 1} THEN Res(TRUE, D("boolean", <<bs[pos]>>, <<>>), pos + 1) ELSE Fail
    [] s.k \in {"int", "long"} ->
         LET v == ParseVarlong(bs, pos) IN
         IF v.st = "ok" /\ (s.k = "long" \/ FitsWidth(v.b, 4)) THEN Res(TRUE, D("long", v.b, <<>>), v.pos) ELSE Fail
    [] s.k = "float"   -> IF Have(bs, pos, 4) THEN Res(TRUE, D("float", SubSeq(bs, pos, pos + 3), <<>>), pos + 4) ELSE Fail
    [] s.k = "double"  -> IF Have(bs, pos, 8) THEN Res(TRUE, D("double", SubSeq(bs, pos, pos + 7), <<>>), pos + 8) ELSE Fail
    [] s.k \in {"bytes", "string"} ->
         LET l == SmallAt(bs, pos) IN
         IF l.ok /\ l.val >= 0 /\ Have(bs, l.pos, l.val) THEN Res(TRUE, D(s.k, SubSeq(bs, l.pos, l.pos + l.val - 1), <<>>), l.pos + l.val) ELSE Fail
    [] s.k = "fixed"   -> IF Have(bs, pos, s.size) THEN Res(TRUE, D("fixed", SubSeq(bs, pos, pos + s.size - 1), <<>>), pos + s.size) ELSE Fail
    [] s.k = "enum"    -> LET i == SmallAt(bs, pos) IN
                          IF i.ok /\ i.val >= 0 /\ i.val < Len(s.syms) THEN Res(TRUE, D("enum", <<i.val>>, <<>>), i.pos) ELSE Fail
    [] s.k \in {"array", "map"} -> DecBlocks(s, bs, pos, <<>>)
    [] s.k = "union"   -> LET i == SmallAt(bs, pos) IN
                          IF i.ok /\ i.val >= 0 /\ i.val < Len(s.c) THEN
                             LET r == Dec(s.c[i.val + 1], bs, i.pos) IN
                             IF r.ok THEN Res(TRUE, D("union", <<i.val>>, <<r.d>>), r.pos) ELSE Fail
                          ELSE Fail
    [] s.k = "record"  -> DecFields(s, bs, pos, 1, <<>>)
    [] OTHER -> Fail

DecFields(s, bs, pos, i, acc) ==
  IF i > Len(s.c) THEN Res(TRUE, D("record", <<>>, acc), pos)
  ELSE LET r == Dec(s.c[i].c[1], bs, pos) IN
       IF r.ok THEN DecFields(s, bs, r.pos, i + 1, Append(acc, r.d)) ELSE Fail

\* n items (array) or n key/value pairs (map) starting at pos
\* n items starting at pos, appended to acc. Long runs are split in halves so that the recursion (and with it TLC's
\* chain of bindings, which every variable lookup walks) stays logarithmic in n: a block of thousands of items is
\* decoded in seconds instead of hours.
DecItems(s, bs, pos, n, acc) ==
  IF n = 0 THEN Res(TRUE, D("acc", <<>>, acc), pos)
  ELSE IF n > 1 THEN
         LET h == n \div 2
             a == DecItems(s, bs, pos, h, acc) IN
         IF a.ok THEN DecItems(s, bs, a.pos, n - h, a.d.c) ELSE Fail
  ELSE IF s.k = "array" THEN
         LET r == Dec(s.c[1], bs, pos) IN
         IF r.ok THEN Res(TRUE, D("acc", <<>>, Append(acc, r.d)), r.pos) ELSE Fail
       ELSE
         LET k == Dec(Prim("string"), bs, pos) IN
         IF ~k.ok THEN Fail ELSE
         LET r == Dec(s.c[1], bs, k.pos) IN
         IF r.ok THEN Res(TRUE, D("acc", <<>>, Append(acc, D("entry", k.d.b, <<r.d>>))), r.pos) ELSE Fail

\* a series of blocks: count (negative => followed by the byte size of the block), items, ..., count 0
DecBlocks(s, bs, pos, acc) ==
  LET c == SmallAt(bs, pos) IN
  IF ~c.ok \/ c.val > MaxCount \/ c.val < -MaxCount THEN Fail
  ELSE IF c.val = 0 THEN Res(TRUE, D(s.k, <<>>, acc), c.pos)
  ELSE IF c.val > 0 THEN
         LET r == DecItems(s, bs, c.pos, c.val, acc) IN
         IF r.ok THEN DecBlocks(s, bs, r.pos, r.d.c) ELSE Fail
  ELSE LET z == SmallAt(bs, c.pos) IN
       IF ~z.ok \/ z.val < 0 THEN Fail ELSE
       LET r == DecItems(s, bs, z.pos, -c.val, acc) IN
       IF r.ok /\ r.pos = z.pos + z.val THEN DecBlocks(s, bs, r.pos, r.d.c) ELSE Fail

\* n consecutive top-level datums (the payload of a file block)
RECURSIVE DecMany(_, _, _, _, _)
DecMany(s, bs, pos, n, acc) ==
  IF n = 0 THEN [ok |-> TRUE, ds |-> acc, pos |-> pos]
  ELSE IF n > 1 THEN    \* halves, for the same reason as in DecItems
       LET h == n \div 2
           a == DecMany(s, bs, pos, h, acc) IN
       IF a.ok THEN DecMany(s, bs, a.pos, n - h, a.ds) ELSE a
  ELSE LET r == Dec(s, bs, pos) IN
       IF r.ok THEN [ok |-> TRUE, ds |-> Append(acc, r.d), pos |-> r.pos] ELSE [ok |-> FALSE, ds |-> acc, pos |-> 0]

(* --------------------------- canonical encoder --------------------------- *)
(* One encoding per datum: collections as a single unsized block followed   *)
(* by the terminator, the empty collection as the terminator alone.  Other  *)
(* legal encodings are produced by EncCh with an explicit choice.           *)
RECURSIVE Enc(_, _), EncSeq(_, _, _)
Enc(s, d) ==
  CASE s.k = "null"    -> <<>>
    [] s.k = "boolean" -> d.b
    [] s.k \in {"int", "long"} -> VarlongOf(d.b)
    [] s.k \in {"float", "double", "fixed"} -> d.b
    [] s.k \in {"bytes", "string"} -> VarintOfInt(Len(d.b)) \o d.b
    [] s.k = "enum"    -> VarintOfInt(d.b[1])
    [] s.k \in {"array", "map"} ->
         IF d.c = <<>> THEN <<0>> ELSE VarintOfInt(Len(d.c)) \o EncSeq(s, d.c, 1) \o <<0>>
    [] s.k = "union"   -> VarintOfInt(d.b[1]) \o Enc(s.c[d.b[1] + 1], d.c[1])
    [] s.k = "record"  -> EncSeq(s, d.c, 1)
    [] OTHER -> <<>>
EncSeq(s, ds, i) ==
  IF i > Len(ds) THEN <<>>
  ELSE (CASE s.k = "array"  -> Enc(s.c[1], ds[i])
          [] s.k = "map"    -> VarintOfInt(Len(ds[i].b)) \o ds[i].b \o Enc(s.c[1], ds[i].c[1])
          [] s.k = "record" -> Enc(s.c[i].c[1], ds[i])
          [] OTHER -> <<>>) \o EncSeq(s, ds, i + 1)

(* A block plan for a collection of n items: a sequence of [n, sized]      *)
(* with positive n summing to the item count.  EncBlocks writes the items  *)
(* in that composition.                                                    *)
RECURSIVE EncBlocks(_, _, _, _)
EncBlocks(s, items, plan, from) ==
  IF plan = <<>> THEN <<0>>
  ELSE LET p == Head(plan)
           body == EncSeq([s EXCEPT !.c = IF s.k = "array" THEN s.c ELSE s.c], SubSeq(items, from, from + p.n - 1), 1)
       IN (IF p.sized THEN VarintOfInt(-p.n) \o VarintOfInt(Len(body)) ELSE VarintOfInt(p.n))
          \o body \o EncBlocks(s, items, Tail(plan), from + p.n)

(* ------------------- worked examples of the Avro spec -------------------- *)
L(n) == D("long", IntBytes8(n), <<>>)
ASSUME VarintOfInt(0) = <<0>> /\ VarintOfInt(-1) = <<1>> /\ VarintOfInt(1) = <<2>> /\ VarintOfInt(-2) = <<3>>
ASSUME VarintOfInt(-64) = <<127>> /\ VarintOfInt(64) = <<128, 1>> /\ VarintOfInt(2) = <<4>>
ASSUME Enc(Prim("string"), D("string", <<102, 111, 111>>, <<>>)) = <<6, 102, 111, 111>>
\* record {a: long = 27, b: string = "foo"}  =>  36 06 66 6f 6f
ASSUME Enc(RecordS("test", <<FieldS("a", Prim("long")), FieldS("b", Prim("string"))>>),
           D("record", <<>>, <<L(27), D("string", <<102, 111, 111>>, <<>>)>>)) = <<54, 6, 102, 111, 111>>
\* array of longs [3, 27]  =>  04 06 36 00
ASSUME Enc(ArrayS(Prim("long")), D("array", <<>>, <<L(3), L(27)>>)) = <<4, 6, 54, 0>>
\* union ["null","string"]: null => 00 ; "a" => 02 02 61
ASSUME Enc(UnionS(<<Prim("null"), Prim("string")>>), D("union", <<0>>, <<D("null", <<>>, <<>>)>>)) = <<0>>
ASSUME Enc(UnionS(<<Prim("null"), Prim("string")>>), D("union", <<1>>, <<D("string", <<97>>, <<>>)>>)) = <<2, 2, 97>>
ASSUME Dec(ArrayS(Prim("long")), <<4, 6, 54, 0>>, 1) = Res(TRUE, D("array", <<>>, <<L(3), L(27)>>), 5)
\* the same array as two blocks, the first with a byte size:  01 02 06  02 36  00  (count -1, size 1, item 3; count 1, item 27)
ASSUME Dec(ArrayS(Prim("long")), <<1, 2, 6, 2, 54, 0>>, 1) = Res(TRUE, D("array", <<>>, <<L(3), L(27)>>), 7)
=============================================================================
