SPECIFICATION Spec
CONSTANTS MaxOps = 4 BlockSizes = {0, 1, 2, 3, 5} RecSizes = {0, 1, 2, 3} WithFaults = TRUE WithCrash = TRUE
INVARIANTS C09_GapFree C09_Threshold C09_AfterFlush C16_Err C08_Prefix C01_RoundTrip DeliveredPrefix
PROPERTY Terminates
CHECK_DEADLOCK FALSE
