SPECIFICATION Spec
CONSTANTS Goroutines = {g1, g2, g3} Inputs = {1, 2, 3} Fields = {f1, f2} MaxOps = 6 ErrorSlotInCodec = FALSE
INVARIANTS HeldIsOwn
PROPERTY CodecImmutable
CHECK_DEADLOCK FALSE
