SPECIFICATION Spec
CONSTANTS MaxBlocks = 3 MaxRecs = 2 DeferCbError = TRUE
INVARIANTS DeliveredInOrder NoRecordOfRejectedBlock AtEnd
CHECK_DEADLOCK FALSE
