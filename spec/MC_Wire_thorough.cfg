INIT Init
NEXT Next
CONSTANTS Dump = FALSE Size = "thorough"
INVARIANTS Inv
CHECK_DEADLOCK FALSE
