INIT Init
NEXT Next
CONSTANTS Dump = FALSE Lite = FALSE Size = "thorough"
INVARIANTS Inv
CHECK_DEADLOCK FALSE
