----------------------------- MODULE Trace_Prim -----------------------------
(***************************************************************************)
(* Judge for C17: every recorded use of the public primitive codecs        *)
(* (Int64Codec, Int32Codec, Int16Codec, FloatCodec, DoubleCodec,           *)
(* Float32DoubleCodec, BoolCodec, ReadBuf.Varint, WriteBuf.Varint) must be *)
(* what AvroWire prescribes.  The trace is walked line by line; a line the *)
(* specification does not allow is recorded and the walk goes on, so that  *)
(* all divergences are seen (known findings vs. new violations).           *)
(***************************************************************************)
EXTENDS GoModel, Json

Trace == ndJsonDeserialize("trace.ndjson")
VARIABLES l, rej
vars == <<l, rej>>

Chk(cond, msg) == IF cond THEN <<>> ELSE <<msg>>
IntCodecs == {"int64", "int32", "int16"}
WidthOf(c) == CASE c = "int64" -> 8 [] c = "int32" -> 4 [] c = "int16" -> 2 [] c = "float" -> 4 [] OTHER -> 8

\* write v, then read the bytes back
FailsPrim(e) ==
  Chk(e.wout = "ok", "write did not return normally")
  \o (CASE e.codec \in IntCodecs -> Chk(e.bytes = VarlongOf(e.v.b), "bytes are not the shortest zig-zag varint of the value")
        [] e.codec \in {"float", "double", "bool"} -> Chk(e.bytes = e.v.b, "bytes are not the little-endian IEEE / boolean byte of the value")
        [] e.codec = "f32double" -> Chk(Len(e.bytes) = 8 /\ (IF e.v.nan THEN IsNaN64(e.bytes) ELSE e.bytes = e.v.b2), "float32 not written as the exactly equal double")
        [] OTHER -> <<"unknown codec">>)
  \o Chk(e.rout = "ok", "reading back the written bytes failed")
  \o Chk(e.rout # "ok" \/ (IF e.codec = "f32double" /\ e.v.nan THEN e.rv.nan ELSE e.rv.b = e.v.b), "value read back differs from value written")
  \o Chk(e.left = 0, "read did not consume exactly the written bytes")
  \o Chk(e.sout = "ok" /\ e.sleft = 0, "skip did not consume exactly the written bytes")
  \o Chk(e.canary, "store outside the destination")

\* read arbitrary bytes
FailsPrimR(e) ==
  Chk(e.canary, "store outside the destination")
  \o Chk(e.rout # "panic" /\ e.sout # "panic", "panic")
  \o (IF e.codec \in IntCodecs THEN
        LET p == ParseVarlong(e.bytes, 1) IN
        IF p.st = "ok" /\ FitsWidth(p.b, e.w) THEN
             Chk(e.rout = "ok", "valid varint in range rejected")
             \o Chk(e.rout # "ok" \/ e.rv.b = p.b, "decoded value differs from the varint's value")
             \o Chk(e.rout # "ok" \/ e.left = Len(e.bytes) - (p.pos - 1), "read consumed the wrong number of bytes")
             \o Chk(e.sout = "ok" /\ e.sleft = Len(e.bytes) - (p.pos - 1), "skip consumed the wrong number of bytes")
        ELSE Chk(e.rout = "err", "truncated / over-long / overflowing / out-of-width varint accepted: " \o p.st)
             \o Chk(p.st = "ok" \/ e.sout = "err", "skip accepted a truncated / over-long / overflowing varint: " \o p.st)
      ELSE IF e.codec \in {"float", "double"} THEN
        LET w == WidthOf(e.codec) IN
        IF Len(e.bytes) >= w THEN
             Chk(e.rout = "ok" /\ e.rv.b = SubSeq(e.bytes, 1, w) /\ e.left = Len(e.bytes) - w, "float read wrong")
             \o Chk(e.sout = "ok" /\ e.sleft = Len(e.bytes) - w, "float skip wrong")
        ELSE Chk(e.rout = "err", "truncated float accepted")
      ELSE <<"unknown codec">>)

FailsBufVarint(e) ==
  Chk(e.bytes = VarlongOf(e.v.b), "WriteBuf.Varint is not the shortest zig-zag varint")
  \o Chk(e.rout = "ok" /\ e.rv.b = e.v.b /\ e.left = 0, "ReadBuf.Varint does not invert WriteBuf.Varint")

\* a run of values decoded into slots the codec allocated itself (Codec.New); all slots read afterwards
FailsPrimNew(e) ==
  Chk(e.rout = "ok" /\ e.left = 0, "decoding a run of written values failed or left bytes")
  \o Chk(e.rout # "ok" \/ (Len(e.rvs) = Len(e.vs) /\ \A i \in 1..Len(e.vs) :
            IF e.codec = "f32double" /\ e.vs[i].nan THEN e.rvs[i].nan ELSE e.rvs[i].b = e.vs[i].b),
          "a value decoded into a codec-allocated slot differs from the value written (slots overlap?)")

Fails(e) == CASE e.op = "prim" -> FailsPrim(e)
              [] e.op = "primnew" -> FailsPrimNew(e)
              [] e.op = "primr" -> FailsPrimR(e)
              [] e.op = "bufvarint" -> FailsBufVarint(e)
              [] OTHER -> <<"unknown event">>

Init == l = 1 /\ rej = <<>>
Step == /\ l <= Len(Trace)
        /\ LET f == Fails(Trace[l]) IN
           rej' = IF f = <<>> THEN rej ELSE Append(rej, [line |-> l, seq |-> Trace[l].seq, key |-> Trace[l].key, why |-> f])
        /\ l' = l + 1
Finish == /\ l = Len(Trace) + 1
          /\ JsonSerialize("verdict.json", [n |-> Len(Trace), rejected |-> rej])
          /\ l' = l + 1 /\ UNCHANGED rej
Next == Step \/ Finish
Spec == Init /\ [][Next]_vars
=============================================================================
