INIT Init
NEXT Next
CONSTANTS Which = "strs" Alphabet8 = {0} Alphabet = {0, 1, 2, 127, 128, 129, 254, 255} MaxLen = 5
INVARIANTS InvStrs
CHECK_DEADLOCK FALSE
