SPECIFICATION Spec
CONSTANTS Builders = {1} Writers = {11} Depth = 2 HoldAcrossBuild = TRUE
INVARIANTS TypeOK Exclusion
CHECK_DEADLOCK TRUE
