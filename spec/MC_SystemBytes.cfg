SPECIFICATION Spec
CONSTANTS MaxOps = 3 BlockSizes = {0, 4, 11, 14}
INVARIANTS WholeFile EveryCut
CHECK_DEADLOCK FALSE
