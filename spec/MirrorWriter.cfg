SPECIFICATION Spec
CONSTANTS Dests = {d1, d2, d3} Syncs = {s1, s2, s3, s4} MaxBlocks = 6 FreshSyncPerHeader = FALSE
INVARIANTS TypeOK EveryDestinationValid
PROPERTY MarkerStable
CHECK_DEADLOCK FALSE
