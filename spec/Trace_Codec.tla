----------------------------- MODULE Trace_Codec -----------------------------
(***************************************************************************)
(* Judge for the value-level properties:                                   *)
(*  C01  roundtrip events: what ReadFile delivered equals what was written *)
(*       (GoModel!SameValue = the documented normalisations only);         *)
(*  C02  the written bytes are a well-formed container whose payloads are  *)
(*       the Avro encoding of the inputs under the embedded schema alone   *)
(*       (Container!ParseFile, AvroWire!DecMany, GoModel!Rep direction w). *)
(***************************************************************************)
EXTENDS GoModel, Container, Json

Trace == ndJsonDeserialize("trace.ndjson")
VARIABLES l, rej
vars == <<l, rej>>

Chk(cond, msg) == IF cond THEN <<>> ELSE <<msg>>

\* ------------------------------- C01 -----------------------------------
RECURSIVE FirstDiff(_, _, _)
FirstDiff(a, b, i) == IF i > Len(a) \/ i > Len(b) THEN 0 ELSE IF SameValue(a[i], b[i]) THEN FirstDiff(a, b, i + 1) ELSE i

FailsC01(e) ==
  IF e.wpanic # "" THEN <<"writer panicked">>
  ELSE IF e.werr # "" THEN <<"writer returned an error for a supported type">>
  ELSE IF e.rpanic # "" THEN <<"reader panicked">>
  ELSE IF e.rerr # "" THEN <<"reader returned an error on the library's own output">>
  ELSE Chk(Len(e.delivered) = Len(e.inputs), "number of delivered records differs from number written")
       \o Chk(FirstDiff(e.inputs, e.delivered, 1) = 0, "a delivered record differs from the value written (beyond the documented normalisations)")
       \o Chk(Len(e.recheck) = Len(e.delivered) /\ FirstDiff(e.inputs, e.recheck, 1) = 0, "a retained record changed after it was delivered")

\* ------------------------------- C02 -----------------------------------
\* raw payload of block i: identity for the null codec, the environment's independent decompression otherwise
RawOf(e, pf, i) == IF e.codec = "null" THEN pf.blocks[i].payload ELSE e.blocks[i].raw

RECURSIVE BlockFails(_, _, _, _)
\* walks the blocks; k = number of inputs consumed so far
BlockFails(e, pf, i, k) ==
  IF i > Len(pf.blocks) THEN Chk(k = Len(e.inputs), "blocks hold fewer records than were written")
  ELSE LET b == pf.blocks[i] IN
       IF b.sync # pf.hdr.sync THEN <<"block sync marker differs from the header's">>
       ELSE IF b.count <= 0 THEN <<"block with a non-positive record count">>
       ELSE IF ~e.blocks[i].ok \/ ~e.blocks[i].crc THEN <<"independent decompressor / checksum rejects the block payload">>
       ELSE IF k + b.count > Len(e.inputs) THEN <<"blocks declare more records than were written">>
       ELSE LET raw == RawOf(e, pf, i)
                dm == DecMany(e.schema, raw, 1, b.count, <<>>) IN
            IF ~dm.ok THEN <<"block payload is not the Avro encoding of count datums under the embedded schema">>
            ELSE IF dm.pos # Len(raw) + 1 THEN <<"bytes left over in block payload after the declared records">>
            ELSE LET bad == {j \in 1..b.count : ~Rep(e.schema, dm.ds[j], e.inputs[k + j], FALSE, "w")} IN
                 IF bad # {} THEN <<"decoded datum is not the value written (null/non-null branch or content)">>
                 ELSE BlockFails(e, pf, i + 1, k + b.count)

FailsC02(e) ==
  IF e.wpanic # "" THEN <<"writer panicked">>
  ELSE IF e.werr # "" THEN <<"writer returned an error for a supported type">>
  ELSE LET pf == ParseFile(e.file) IN
       IF ~pf.ok THEN <<"output is not a well-formed object container file">>
       ELSE IF e.indep # "ok" THEN <<"independent splitter rejects the output: " \o e.indep>>
       ELSE IF ~MetaHas(pf.hdr.meta, KeySchema) THEN <<"metadata lacks avro.schema">>
       ELSE IF MetaGet(pf.hdr.meta, KeySchema) # e.schemaText THEN <<"harness and specification disagree on the embedded schema text">>
       ELSE IF ~MetaHas(pf.hdr.meta, KeyCodec) \/ MetaGet(pf.hdr.meta, KeyCodec) # e.codecBytes THEN <<"metadata avro.codec is not the configured codec">>
       ELSE IF Len(pf.blocks) # Len(e.blocks) THEN <<"harness and specification disagree on the number of blocks">>
       ELSE BlockFails(e, pf, 1, 0)

\* ---------------------------- C03 / C04 --------------------------------
\* TLC-generated (schema, datum, legal encoding) vectors read by the real reader into a target type
FailsVec(e) ==
  IF e.panic # "" THEN <<"reader panicked: " \o e.panic>>
  ELSE IF \A i \in 1..Len(e.datums) : Fits(e.schema, e.datums[i], e.target) THEN
       IF e.err # "" THEN <<"reader rejected a legal encoding: " \o e.err>>
       ELSE Chk(Len(e.delivered) = Len(e.datums), "number of delivered records differs from the number encoded")
            \o Chk(Len(e.delivered) # Len(e.datums) \/ \A i \in 1..Len(e.datums) : Rep(e.schema, e.datums[i], e.delivered[i], FALSE, "r"),
                   "a delivered value is not the datum that was encoded (projection, coercion or block handling)")
            \o Chk(Len(e.recheck) # Len(e.datums) \/ \A i \in 1..Len(e.datums) : Rep(e.schema, e.datums[i], e.recheck[i], FALSE, "r"),
                   "a retained value changed after delivery")
  ELSE Chk(e.err # "", "a value that does not fit the Go field was accepted (silent truncation)")

\* Read and Skip of one record followed by three guard bytes: both consume exactly the encoding
FailsLefts(e) ==
  IF "lefts" \notin DOMAIN e THEN <<>>
  ELSE LET bad == {i \in 1..Len(e.lefts) :
                     \/ e.lefts[i][3] # "ok" \/ e.lefts[i][4] # 3
                     \/ (Fits(e.schema, e.datums[i], e.target) /\ (e.lefts[i][1] # "ok" \/ e.lefts[i][2] # 3))} IN
       Chk(bad = {}, "Read or Skip did not consume exactly the bytes of the value")

\* ---------------------------- C13 / C19 --------------------------------
\* a codec built from a caller-supplied schema: Write must produce a valid encoding of the value under that
\* schema (reference decoder + Rep direction w), Read must invert it; independently of the write, what Read
\* returns must be the value the bytes denote (Rep direction r: this is where logical types are decided).
FailsCS(e) ==
  IF ~e.built THEN Chk("buildpanic" \notin DOMAIN e \/ e.buildpanic = "", "codec construction panicked")      \* the property is conditional on the codec being built
  ELSE IF e.wpanic # "" THEN <<"Write panicked: " \o e.wpanic>>
  ELSE LET r == Dec(e.schema, e.bytes, 1) IN
       IF ~r.ok \/ r.pos # Len(e.bytes) + 1 THEN <<"written bytes are not a valid encoding under the caller's schema (or bytes are left over)">>
       ELSE Chk(Rep(e.schema, r.d, e.value, FALSE, "w"), "written bytes do not denote the value under the caller's schema (branch, width, unit or content)")
            \o Chk(e.rout = "ok" /\ e.left = 0, "the codec cannot read back what it wrote")
            \o Chk(e.rout # "ok" \/ Rep(e.schema, r.d, e.rvalue, FALSE, "r"), "value read is not what the bytes denote under the schema")
            \o Chk(e.rout # "ok" \/ ~e.exact \/ SameValue(e.value, e.rvalue), "decoding the written bytes does not return the original value")
            \o Chk(e.sout = "ok" /\ e.sleft = 0, "Skip does not consume exactly what Write produced")

\* a stored integer decoded under a logical type
FailsCSRead(e) ==
  LET r == Dec(e.schema, e.bytes, 1) IN
  IF ~r.ok THEN <<"harness produced bytes the reference decoder rejects">>
  ELSE Chk(e.rout = "ok" /\ e.left = 0, "valid stored value rejected")
       \o Chk(e.rout # "ok" \/ Rep(e.schema, r.d, e.rvalue, FALSE, "r"), "decoded time is not the instant the logical type assigns to the stored integer")

\* ------------------------------- C18 -----------------------------------
\* e.std / e.std_ok: what Go's time.Parse says; used only to cross-check this specification
FailsTimeParse(e) ==
  LET p == ParseRFC3339(e.s) IN
  \* the property's domain is the RFC 3339 grammar intersected with what time.Parse accepts; Go's parser is more
  \* lenient than the grammar (one-digit hours, offset +24:00), so only strings the grammar accepts are cross-checked
  IF p.ok /\ (~e.std_ok \/ ~SameCivil(p, e.std)) THEN <<"SPECBUG: TimeParse accepts this string but time.Parse disagrees">>
  ELSE Chk(e.out # "panic", "parser panicked")
       \o (IF p.ok THEN Chk(e.out = "ok", "valid RFC 3339 timestamp / date rejected")
                         \o Chk(e.out # "ok" \/ SameCivil(p, e.t), "parsed instant or UTC offset differs from the standard library's")
            ELSE <<>>)
\* formatting a time with nanosecond precision and parsing it back is the identity
FailsTimeRoundTrip(e) ==
  Chk(e.out = "ok", "formatted time not parsed back")
  \o Chk(e.out # "ok" \/ (e.back.b = e.t.b /\ e.back.off = e.t.off), "format then parse is not the identity (instant or offset)")
  \o (LET d == Dec(Prim("string"), e.bytes, 1) IN Chk(d.ok /\ SameCivil(ParseRFC3339(d.d.b), e.t), "written text does not denote the time"))

\* ------------------------------- C05 -----------------------------------
\* (schema type x Go kind): either the build failed, or every decode stayed inside the field and left a value of
\* the field's own type there. e.target is struct{Pre; F; Post; Sib}; field 2 is the destination.
FailsBuild(e) ==
  IF e.buildpanic # "" THEN <<"codec construction panicked: " \o e.buildpanic>>
  ELSE IF ~e.built THEN <<>>
  ELSE LET fs == e.schema.c[1].c[1]
           ft == e.target.c[2].c[1]
           bad(cs) == LET r == Dec(fs, cs.bytes, 1) IN
                      IF cs.rout = "panic" THEN "decode panicked"
                      ELSE IF ~cs.canary THEN "bytes outside the destination field were modified"
                      ELSE IF ~BoolsValid(cs.value) THEN "a bool field holds a byte that is neither 0 nor 1"
                      ELSE IF ~r.ok THEN ""                                   \* malformed input: only the above is demanded here
                      ELSE IF ~Fits(fs, r.d, ft) THEN (IF cs.rout = "err" THEN "" ELSE "a value outside the destination's width was accepted")
                      ELSE IF cs.rout # "ok" THEN ""                          \* refusing an input is always sound; whether it should have been accepted is C03's business
                      ELSE IF cs.damaged THEN ""                              \* a damaged encoding that still decodes: content is not judged here (lossy double -> float32)
                      ELSE IF ~Rep(fs, r.d, cs.value, FALSE, "r") THEN "the destination does not hold the datum as a value of its own type (the pair should have been rejected at build time)"
                      ELSE IF cs.left # Len(cs.bytes) + 2 - (r.pos - 1) THEN "decode consumed the wrong number of bytes"
                      ELSE ""
           whys == {bad(e.cases[i]) : i \in 1..Len(e.cases)} \ {""}
       IN IF whys = {} THEN <<>> ELSE <<CHOOSE w \in whys : TRUE>>

\* what the caller hands over as destination (pointer chains, non-structs, structs with embedded structs): either
\* the construction fails or all stores stay inside the destination and leave a value of its own type
FailsDest(e) ==
  IF e.buildpanic # "" THEN <<"construction / read panicked for this destination: " \o e.buildpanic>>
  ELSE IF ~e.built THEN <<>>
  ELSE Chk(e.rout # "panic", "decode panicked")
       \o Chk(e.canary, "memory next to the destination was modified (the destination's type was not checked when the decoder was built)")
       \o Chk(e.untouched, "fields of the destination that the schema does not name were modified")
       \o (IF e.judgeValue /\ e.rout = "ok"
            THEN LET r == Dec(e.schema, e.bytes, 1) IN Chk(r.ok /\ Rep(e.schema, r.d, e.value, FALSE, "r"), "the destination does not hold the decoded record")
            ELSE <<>>)

\* ------------------------------- C11 -----------------------------------
\* values projected inside the callback after a forced collection + heap churn, and again after the whole
\* read and further collections, must still be what was written
FailsGC(e) ==
  IF e.panic # "" THEN <<"panic while decoding under garbage collection: " \o e.panic>>
  ELSE IF e.err # "" THEN <<"decode failed under garbage collection: " \o e.err>>
  ELSE Chk(Len(e.delivered) = Len(e.inputs) /\ FirstDiff(e.inputs, e.delivered, 1) = 0, "a decoded value was damaged by a collection during decoding / in the callback")
       \o Chk(Len(e.after) = Len(e.inputs) /\ FirstDiff(e.inputs, e.after, 1) = 0, "a retained decoded value was damaged by collections after the read")
       \o Chk(e.xs = e.xsWant, "objects the application hung on decoded values (fields Avro does not map) did not survive the collections: decoded memory is not ordinary Go memory")
FailsGCWrite(e) ==
  LET r == Dec(e.schema, e.bytes, 1) IN
  Chk(r.ok /\ r.pos = Len(e.bytes) + 1 /\ Rep(e.schema, r.d, e.value, FALSE, "w"), "encoding produced while collections ran is not the encoding of the value")

\* a file written by another implementation (BigQuery): the TLA+ container parser and reference decoder must
\* accept it completely (an anchor for the reference itself: failure here is a specification bug), and what
\* the library delivers must be what the reference decodes
RECURSIVE CorpusDatums(_, _, _, _)
CorpusDatums(e, pf, i, acc) ==
  IF i > Len(pf.blocks) THEN [ok |-> TRUE, ds |-> acc]
  ELSE LET dm == DecMany(e.schema, pf.blocks[i].payload, 1, pf.blocks[i].count, <<>>) IN
       IF ~dm.ok \/ dm.pos # Len(pf.blocks[i].payload) + 1 \/ pf.blocks[i].sync # pf.hdr.sync THEN [ok |-> FALSE, ds |-> acc]
       ELSE CorpusDatums(e, pf, i + 1, acc \o dm.ds)
FailsCorpus(e) ==
  LET pf == ParseFile(e.file) IN
  IF ~pf.ok \/ e.indep # "ok" \/ ~MetaHas(pf.hdr.meta, KeySchema) \/ MetaGet(pf.hdr.meta, KeySchema) # e.schemaText THEN <<"SPECBUG: the reference container parser rejects a checked-in file">>
  ELSE LET cd == CorpusDatums(e, pf, 1, <<>>) IN
       IF ~cd.ok THEN <<"SPECBUG: the reference decoder rejects a checked-in file">>
       ELSE IF e.panic # "" THEN <<"reader panicked">>
       ELSE IF \A i \in 1..Len(cd.ds) : Fits(e.schema, cd.ds[i], e.target) THEN
            Chk(e.err = "", "checked-in file rejected: " \o e.err)
            \o Chk(Len(e.delivered) = Len(cd.ds), "wrong number of records from a checked-in file")
            \o Chk(Len(e.delivered) # Len(cd.ds) \/ \A i \in 1..Len(cd.ds) : Rep(e.schema, cd.ds[i], e.delivered[i], FALSE, "r"), "delivered value is not what the reference decodes from the checked-in file")
       ELSE Chk(e.err # "", "a value that does not fit the Go field was accepted")

\* records written by the harness's random legal writer: first the reference decoder must accept each
\* completely (else the harness wrote something illegal: exit 2), then the reader is judged like FailsVec
FailsRand(e) ==
  LET ds == [i \in 1..Len(e.records) |-> Dec(e.schema, e.records[i], 1)] IN
  IF \E i \in 1..Len(ds) : ~ds[i].ok \/ ds[i].pos # Len(e.records[i]) + 1 THEN <<"SPECBUG: the harness's random writer produced bytes the reference decoder does not accept">>
  ELSE FailsVec([e EXCEPT !.op = "vec_read"] @@ [datums |-> [i \in 1..Len(ds) |-> ds[i].d]])

Fails(e) == CASE e.op = "vec_read" -> FailsVec(e) \o FailsLefts(e)
              [] e.op = "rand_read" -> FailsRand(e)
              [] e.op = "corpus_read" -> FailsCorpus(e)
              [] e.op = "gc_roundtrip" -> FailsGC(e)
              [] e.op = "gc_write" -> FailsGCWrite(e)
              [] e.op = "gc_crash" -> <<"the process crashed while decoding / encoding under garbage collection (case open: " \o e.open \o ")">>
              [] e.op = "build_decode" -> FailsBuild(e)
              [] e.op = "dest_decode" -> FailsDest(e)
              [] e.op = "time_parse" -> FailsTimeParse(e)
              [] e.op = "time_roundtrip" -> FailsTimeRoundTrip(e)
              [] e.op = "cs_roundtrip" -> FailsCS(e)
              [] e.op = "cs_read" -> FailsCSRead(e)
              [] e.op = "roundtrip" /\ e.mode = "C01" -> FailsC01(e)
              [] e.op = "roundtrip" /\ e.mode = "C02" -> FailsC02(e)
              [] e.op = "driver_crash" -> <<"the process using the library was killed by the Go runtime (memory corruption): " \o e.detail>>
              [] OTHER -> <<"unknown event">>

Init == l = 1 /\ rej = <<>>
Step == /\ l <= Len(Trace)
        /\ LET f == Fails(Trace[l]) IN
           rej' = IF f = <<>> THEN rej ELSE Append(rej, [line |-> l, seq |-> Trace[l].seq, key |-> Trace[l].key, why |-> f])
        /\ l' = l + 1
Finish == /\ l = Len(Trace) + 1
          /\ JsonSerialize("verdict.json", [n |-> Len(Trace), rejected |-> rej])
          /\ l' = l + 1 /\ UNCHANGED rej
Next == Step \/ Finish
Spec == Init /\ [][Next]_vars
=============================================================================
