----------------------------- MODULE Trace_Codec -----------------------------
(***************************************************************************)
(* Judge for the value-level properties:                                   *)
(*  C01  roundtrip events: what ReadFile delivered equals what was written *)
(*       (GoModel!SameValue = the documented normalisations only);         *)
(*  C02  the written bytes are a well-formed container whose payloads are  *)
(*       the Avro encoding of the inputs under the embedded schema alone   *)
(*       (Container!ParseFile, AvroWire!DecMany, GoModel!Rep direction w). *)
(***************************************************************************)
EXTENDS GoModel, Container, Json

Trace == ndJsonDeserialize("trace.ndjson")
VARIABLES l, rej
vars == <<l, rej>>

Chk(cond, msg) == IF cond THEN <<>> ELSE <<msg>>

\* ------------------------------- C01 -----------------------------------
RECURSIVE FirstDiff(_, _, _)
FirstDiff(a, b, i) == IF i > Len(a) \/ i > Len(b) THEN 0 ELSE IF SameValue(a[i], b[i]) THEN FirstDiff(a, b, i + 1) ELSE i

FailsC01(e) ==
  IF e.wpanic # "" THEN <<"writer panicked">>
  ELSE IF e.werr # "" THEN <<"writer returned an error for a supported type">>
  ELSE IF e.rpanic # "" THEN <<"reader panicked">>
  ELSE IF e.rerr # "" THEN <<"reader returned an error on the library's own output">>
  ELSE Chk(Len(e.delivered) = Len(e.inputs), "number of delivered records differs from number written")
       \o Chk(FirstDiff(e.inputs, e.delivered, 1) = 0, "a delivered record differs from the value written (beyond the documented normalisations)")
       \o Chk(Len(e.recheck) = Len(e.delivered) /\ FirstDiff(e.inputs, e.recheck, 1) = 0, "a retained record changed after it was delivered")

\* ------------------------------- C02 -----------------------------------
\* raw payload of block i: identity for the null codec, the environment's independent decompression otherwise
RawOf(e, pf, i) == IF e.codec = "null" THEN pf.blocks[i].payload ELSE e.blocks[i].raw

RECURSIVE BlockFails(_, _, _, _)
\* walks the blocks; k = number of inputs consumed so far
BlockFails(e, pf, i, k) ==
  IF i > Len(pf.blocks) THEN Chk(k = Len(e.inputs), "blocks hold fewer records than were written")
  ELSE LET b == pf.blocks[i] IN
       IF b.sync # pf.hdr.sync THEN <<"block sync marker differs from the header's">>
       ELSE IF b.count <= 0 THEN <<"block with a non-positive record count">>
       ELSE IF ~e.blocks[i].ok \/ ~e.blocks[i].crc THEN <<"independent decompressor / checksum rejects the block payload">>
       ELSE IF k + b.count > Len(e.inputs) THEN <<"blocks declare more records than were written">>
       ELSE LET raw == RawOf(e, pf, i)
                dm == DecMany(e.schema, raw, 1, b.count, <<>>) IN
            IF ~dm.ok THEN <<"block payload is not the Avro encoding of count datums under the embedded schema">>
            ELSE IF dm.pos # Len(raw) + 1 THEN <<"bytes left over in block payload after the declared records">>
            ELSE LET bad == {j \in 1..b.count : ~Rep(e.schema, dm.ds[j], e.inputs[k + j], FALSE, "w")} IN
                 IF bad # {} THEN <<"decoded datum is not the value written (null/non-null branch or content)">>
                 ELSE BlockFails(e, pf, i + 1, k + b.count)

FailsC02(e) ==
  IF e.wpanic # "" THEN <<"writer panicked">>
  ELSE IF e.werr # "" THEN <<"writer returned an error for a supported type">>
  ELSE LET pf == ParseFile(e.file) IN
       IF ~pf.ok THEN <<"output is not a well-formed object container file">>
       ELSE IF e.indep # "ok" THEN <<"independent splitter rejects the output: " \o e.indep>>
       ELSE IF ~MetaHas(pf.hdr.meta, KeySchema) THEN <<"metadata lacks avro.schema">>
       ELSE IF MetaGet(pf.hdr.meta, KeySchema) # e.schemaText THEN <<"harness and specification disagree on the embedded schema text">>
       ELSE IF ~MetaHas(pf.hdr.meta, KeyCodec) \/ MetaGet(pf.hdr.meta, KeyCodec) # e.codecBytes THEN <<"metadata avro.codec is not the configured codec">>
       ELSE IF Len(pf.blocks) # Len(e.blocks) THEN <<"harness and specification disagree on the number of blocks">>
       ELSE BlockFails(e, pf, 1, 0)

\* ---------------------------- C03 / C04 --------------------------------
\* TLC-generated (schema, datum, legal encoding) vectors read by the real reader into a target type
FailsVec(e) ==
  IF e.panic # "" THEN <<"reader panicked: " \o e.panic>>
  ELSE IF \A i \in 1..Len(e.datums) : Fits(e.schema, e.datums[i], e.target) THEN
       IF e.err # "" THEN <<"reader rejected a legal encoding: " \o e.err>>
       ELSE Chk(Len(e.delivered) = Len(e.datums), "number of delivered records differs from the number encoded")
            \o Chk(Len(e.delivered) # Len(e.datums) \/ \A i \in 1..Len(e.datums) : Rep(e.schema, e.datums[i], e.delivered[i], FALSE, "r"),
                   "a delivered value is not the datum that was encoded (projection, coercion or block handling)")
            \o Chk(Len(e.recheck) # Len(e.datums) \/ \A i \in 1..Len(e.datums) : Rep(e.schema, e.datums[i], e.recheck[i], FALSE, "r"),
                   "a retained value changed after delivery")
  ELSE Chk(e.err # "", "a value that does not fit the Go field was accepted (silent truncation)")

\* Read and Skip of one record followed by three guard bytes: both consume exactly the encoding
FailsLefts(e) ==
  IF "lefts" \notin DOMAIN e THEN <<>>
  ELSE LET bad == {i \in 1..Len(e.lefts) :
                     \/ e.lefts[i][3] # "ok" \/ e.lefts[i][4] # 3
                     \/ (Fits(e.schema, e.datums[i], e.target) /\ (e.lefts[i][1] # "ok" \/ e.lefts[i][2] # 3))} IN
       Chk(bad = {}, "Read or Skip did not consume exactly the bytes of the value")

Fails(e) == CASE e.op = "vec_read" -> FailsVec(e) \o FailsLefts(e)
              [] e.op = "roundtrip" /\ e.mode = "C01" -> FailsC01(e)
              [] e.op = "roundtrip" /\ e.mode = "C02" -> FailsC02(e)
              [] OTHER -> <<"unknown event">>

Init == l = 1 /\ rej = <<>>
Step == /\ l <= Len(Trace)
        /\ LET f == Fails(Trace[l]) IN
           rej' = IF f = <<>> THEN rej ELSE Append(rej, [line |-> l, seq |-> Trace[l].seq, key |-> Trace[l].key, why |-> f])
        /\ l' = l + 1
Finish == /\ l = Len(Trace) + 1
          /\ JsonSerialize("verdict.json", [n |-> Len(Trace), rejected |-> rej])
          /\ l' = l + 1 /\ UNCHANGED rej
Next == Step \/ Finish
Spec == Init /\ [][Next]_vars
=============================================================================
