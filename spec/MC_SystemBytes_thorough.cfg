SPECIFICATION Spec
CONSTANTS MaxOps = 5 BlockSizes = {0, 3, 4, 11, 13, 14, 30}
INVARIANTS WholeFile EveryCut
CHECK_DEADLOCK FALSE
