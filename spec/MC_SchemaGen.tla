---------------------------- MODULE MC_SchemaGen ----------------------------
(***************************************************************************)
(* C15 at model level: SchemaGen!SchemaOf over all Go types built from a   *)
(* leaf set (every scalar kind, registered types, inexpressible kinds) by  *)
(* up to two wrappers (pointer, slice, string-keyed map, int-keyed map,    *)
(* struct field with each tag combination):                                *)
(*   totality; Err exactly when an inexpressible leaf / key is reachable   *)
(*   through an included field; unions never nest directly; omitempty and  *)
(*   pointers wrap at most once; natural mode only ever adds mappings.     *)
(***************************************************************************)
EXTENDS SchemaGen, Json, CSV

VARIABLES x, ph

T(k, w) == [k |-> k, w |-> w, name |-> "", c |-> <<>>]
Good == {T("bool", 1), T("int", 1), T("int", 2), T("int", 8), T("f32", 4), T("f64", 8), T("string", 16), T("bytes", 24), T("time", 0), T("nullint", 0), T("nullstring", 0)}
Silent == {T("uint", 4), T("bytearr", 4)}
Bad == {T("iface", 16), T("chan", 8), T("func", 8), T("complex", 16), T("recursion", 0)}
Leaves == Good \cup Silent \cup Bad

Field(goName, exported, jsonName, opts, bq, t) ==
  [k |-> "field", goName |-> goName, exported |-> exported, embedded |-> FALSE, jsonName |-> jsonName, jsonOpts |-> opts, bq |-> bq, c |-> <<t>>]
TagCombos(t) == { Field("F", TRUE, "", <<>>, "", t), Field("F", TRUE, "f", <<>>, "", t), Field("F", TRUE, "f", <<"omitempty">>, "", t),
                  Field("F", TRUE, "", <<"string", "omitempty">>, "", t), Field("F", TRUE, "f", <<"string">>, "x", t),
                  Field("F", TRUE, "-", <<>>, "", t), Field("F", TRUE, "f", <<>>, "-", t), Field("f", FALSE, "", <<>>, "", t) }
Wrap(t) == { [k |-> "ptr", w |-> 8, name |-> "", c |-> <<t>>], [k |-> "slice", w |-> 24, name |-> "", c |-> <<t>>],
             [k |-> "map", w |-> 8, name |-> "", c |-> <<T("string", 16), t>>], [k |-> "map", w |-> 8, name |-> "", c |-> <<T("int", 8), t>>] }
           \cup { [k |-> "struct", w |-> 8, name |-> "N", ns |-> "p.q", c |-> <<f, Field("Z", TRUE, "z", <<>>, "", T("int", 8))>>] : f \in TagCombos(t) }

Init == x \in Leaves /\ ph = 0
Next == \/ ph = 0 /\ ph' = 1 /\ x' \in Wrap(x)
        \/ ph = 1 /\ ph' = 2 /\ x' \in Wrap(x)

\* is an inexpressible leaf reachable through included positions (strict mode)?
RECURSIVE Inexpressible(_, _)
Inexpressible(t, mode) ==
  CASE t.k \in {"iface", "chan", "func", "complex", "recursion", "unsafeptr", "other"} -> TRUE
    [] t.k \in {"uint", "bytearr", "array"} -> mode = "strict"
    [] t.k \in {"ptr", "slice"} -> Inexpressible(t.c[1], mode)
    [] t.k = "map" -> t.c[1].k # "string" \/ Inexpressible(t.c[2], mode)
    [] t.k = "struct" -> \E i \in 1..Len(t.c) : AvroNameOf(t.c[i]) # "-" /\ Inexpressible(t.c[i].c[1], mode)
    [] OTHER -> FALSE

\* role B: every enumerated type is also written out; the harness builds it with reflect and runs schema
\* generation (C15) and, where a schema exists, a full encode / read-back round trip (C01, C02) on it
DumpOK == ph >= 1 => CSVWrite("%1$s", <<ToJson([t |-> x])>>, "cases.ndjson")

Inv ==
  LET a == SchemaOf(x, "strict", <<>>)
      b == SchemaOf(x, "natural", <<>>) IN
  /\ (a = ErrS) = Inexpressible(x, "strict")
  /\ (b = ErrS) = Inexpressible(x, "natural")
  /\ (a # ErrS => a = b \/ b # ErrS)
  /\ (a # ErrS => UnionsOK(a))
  /\ (b # ErrS => UnionsOK(b))
  \* a struct becomes a record of exactly its included fields, in order, under their JSON names
  /\ (x.k = "struct" /\ a # ErrS =>
        /\ a.k = "record" /\ a.name = "N" /\ a.ns = "p.q"
        /\ a.c[Len(a.c)].name = "z"
        /\ Len(a.c) = Cardinality({i \in 1..Len(x.c) : AvroNameOf(x.c[i]) # "-"}))
  \* pointers to slices and maps stay plain; other pointers become [null, T] with null first
  /\ (x.k = "ptr" /\ a # ErrS => IF x.c[1].k \in {"slice", "map"} THEN a.k \in {"array", "map"} ELSE a.k = "union" /\ a.c[1].k = "null")
=============================================================================
