INIT Init
NEXT Next
CONSTANTS Which = "parse" Grid = "quick"
INVARIANTS InvParse InvDateOnly InvReject InvBig InvUnits
CHECK_DEADLOCK FALSE
