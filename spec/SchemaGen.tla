------------------------------ MODULE SchemaGen ------------------------------
(***************************************************************************)
(* Schema generation as a total function of a Go type (C15), written from  *)
(* the documented mapping (SchemaForType doc comment, readme, the property *)
(* statement): integers -> long, floats -> double, bool -> boolean,        *)
(* string, []byte -> bytes, slices -> array, string-keyed maps -> map,     *)
(* structs -> record of the exported, non-excluded fields in declaration   *)
(* order under their JSON names, pointers and omitempty -> [null, T] with  *)
(* null first (pointers to slices and maps stay plain), registered types   *)
(* -> their registered schema; everything else is an error.                *)
(* Go type nodes: [k, w, name, c] (+ ns for structs); struct fields carry  *)
(* the raw facts goName, exported, jsonName, jsonOpts, bq, and c=<<type>>. *)
(* Where the statement is silent (unsigned integers, [N]T) both an error   *)
(* and the natural mapping are allowed: mode "strict" / "natural".         *)
(***************************************************************************)
EXTENDS AvroWire

ErrS == S("ERR", "", "", 0, <<>>, <<>>)
NullableOfS(s) == UnionS(<<Prim("null"), s>>)

AvroNameOf(f) == IF ~f.exported \/ f.bq = "-" \/ f.jsonName = "-" THEN "-" ELSE IF f.jsonName = "" THEN f.goName ELSE f.jsonName
OmitOf(f) == \E i \in 1..Len(f.jsonOpts) : f.jsonOpts[i] = "omitempty"

\* regs: sequence of [name, schema] for user-registered types (latest registration last)
RegLookup(regs, nm) == LET I == {i \in 1..Len(regs) : regs[i].name = nm} IN IF I = {} THEN ErrS ELSE regs[CHOOSE i \in I : \A j \in I : j <= i].schema
IsReg(regs, nm) == \E i \in 1..Len(regs) : regs[i].name = nm

RECURSIVE SchemaOf(_, _, _), FieldsOf(_, _, _, _)
SchemaOf(t, mode, regs) ==
  IF t.name # "" /\ IsReg(regs, t.name) THEN RegLookup(regs, t.name)
  ELSE CASE t.k = "time"       -> NullableOfS(Prim("string"))
         [] t.k = "nullint"    -> NullableOfS(Prim("long"))
         [] t.k = "nullbool"   -> NullableOfS(Prim("boolean"))
         [] t.k = "nullfloat"  -> NullableOfS(Prim("double"))
         [] t.k = "nullstring" -> NullableOfS(Prim("string"))
         [] t.k = "nulltime"   -> NullableOfS(Prim("string"))
         [] t.k = "named"      -> SchemaOf(t.c[1], mode, regs)            \* a named non-struct type without registration: its underlying type
         [] t.k = "bool"       -> Prim("boolean")
         [] t.k = "int"        -> Prim("long")
         [] t.k = "uint"       -> IF mode = "strict" THEN ErrS ELSE Prim("long")
         [] t.k \in {"f32", "f64"} -> Prim("double")
         [] t.k = "string"     -> Prim("string")
         [] t.k = "bytes"      -> Prim("bytes")
         [] t.k = "bytearr"    -> IF mode = "strict" THEN ErrS ELSE Prim("bytes")
         [] t.k = "slice"      -> LET e == SchemaOf(t.c[1], mode, regs) IN IF e = ErrS THEN ErrS ELSE ArrayS(e)
         [] t.k = "array"      -> IF mode = "strict" THEN ErrS ELSE LET e == SchemaOf(t.c[1], mode, regs) IN IF e = ErrS THEN ErrS ELSE ArrayS(e)
         [] t.k = "map"        -> IF t.c[1].k # "string" THEN ErrS
                                  ELSE LET e == SchemaOf(t.c[2], mode, regs) IN IF e = ErrS THEN ErrS ELSE MapS(e)
         [] t.k = "ptr"        -> LET u == SchemaOf(t.c[1], mode, regs) IN
                                  IF u = ErrS THEN ErrS ELSE IF u.k \in {"union", "array", "map"} THEN u ELSE NullableOfS(u)
         [] t.k = "struct"     -> LET fs == FieldsOf(t, mode, regs, 1) IN
                                  IF fs = <<ErrS>> THEN ErrS ELSE [RecordS(t.name, fs) EXCEPT !.ns = t.ns]
         [] OTHER              -> ErrS          \* interface, chan, func, complex, unsafe.Pointer, self-reference

FieldsOf(t, mode, regs, i) ==
  IF i > Len(t.c) THEN <<>>
  ELSE LET f == t.c[i]
           rest == FieldsOf(t, mode, regs, i + 1) IN
       IF rest = <<ErrS>> THEN <<ErrS>>
       ELSE IF AvroNameOf(f) = "-" THEN rest
       ELSE LET ft == SchemaOf(f.c[1], mode, regs) IN
            IF ft = ErrS THEN <<ErrS>>
            ELSE <<FieldS(AvroNameOf(f), IF OmitOf(f) /\ ft.k # "union" THEN NullableOfS(ft) ELSE ft)>> \o rest

(* structural validity of an Avro schema *)
RECURSIVE Named(_), UnionsOK(_)
\* full names of the named types defined in s (records, fixed, enum) with a non-empty name, as a sequence
Named(s) == (IF s.k \in {"record", "fixed", "enum"} /\ s.name # "" THEN <<<<s.ns, s.name>>>> ELSE <<>>)
            \o ConcatAll([i \in 1..Len(s.c) |-> Named(s.c[i])])
NoDup(q) == \A i, j \in 1..Len(q) : i # j => q[i] # q[j]
BranchKey(b) == IF b.k \in {"record", "fixed", "enum"} THEN <<b.k, b.ns, b.name>> ELSE <<b.k, "", "">>
UnionsOK(s) == /\ (s.k = "union" => /\ \A i \in 1..Len(s.c) : s.c[i].k # "union"
                                    /\ \A i, j \in 1..Len(s.c) : i # j => BranchKey(s.c[i]) # BranchKey(s.c[j]))
               /\ \A i \in 1..Len(s.c) : UnionsOK(s.c[i])
NamedOnce(s) == NoDup(Named(s))
ValidAvro(s) == UnionsOK(s) /\ NamedOnce(s)
=============================================================================
