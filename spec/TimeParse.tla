------------------------------ MODULE TimeParse ------------------------------
(***************************************************************************)
(* RFC 3339 date-time (section 5.6) as Go's time.Parse(time.RFC3339, s)    *)
(* accepts it, over byte sequences:                                        *)
(*   YYYY-MM-DD 'T' hh:mm:ss [('.'|',') digits+] ('Z' | ('+'|'-') hh:mm)   *)
(* with field ranges month 1..12, day 1..days-in-month, hour 0..23,        *)
(* minute 0..59, second 0..59, offset hour 0..23, offset minute 0..59;     *)
(* a fraction of any length, digits beyond the ninth being dropped; and    *)
(* the date-only form YYYY-MM-DD meaning midnight UTC.                     *)
(* The result is the civil time with its offset:                           *)
(*   [ok, y, mo, d, h, mi, s, ns, off]   (off in seconds east of UTC)      *)
(* Equality of these fields is equality of instant and UTC offset.         *)
(* Also: big-number helpers (base-256, least significant first) used by    *)
(* LogicalTime to relate a stored long to an instant without leaving       *)
(* TLC's 32-bit integers.                                                  *)
(***************************************************************************)
EXTENDS Integers, Sequences

IsDigit(c) == c >= 48 /\ c <= 57
Dig(c) == c - 48
AllDigits(bs, from, to) == \A i \in from..to : IsDigit(bs[i])
Num2(bs, p) == 10 * Dig(bs[p]) + Dig(bs[p + 1])
Num4(bs, p) == 1000 * Dig(bs[p]) + 100 * Dig(bs[p + 1]) + 10 * Dig(bs[p + 2]) + Dig(bs[p + 3])

IsLeap(y) == (y % 4 = 0 /\ y % 100 # 0) \/ y % 400 = 0
DaysIn(y, m) == CASE m \in {1, 3, 5, 7, 8, 10, 12} -> 31 [] m \in {4, 6, 9, 11} -> 30 [] OTHER -> IF IsLeap(y) THEN 29 ELSE 28

NoTime == [ok |-> FALSE, y |-> 0, mo |-> 0, d |-> 0, h |-> 0, mi |-> 0, s |-> 0, ns |-> 0, off |-> 0]

\* end of the digit run starting at p (first index that is not a digit, or Len+1)
RECURSIVE DigitsEnd(_, _)
DigitsEnd(bs, p) == IF p > Len(bs) \/ ~IsDigit(bs[p]) THEN p ELSE DigitsEnd(bs, p + 1)

\* value of the first nine fraction digits in nanoseconds; digits bs[from..to-1]
RECURSIVE FracNs(_, _, _, _)
FracNs(bs, from, to, scale) == IF from >= to \/ scale = 0 THEN 0 ELSE Dig(bs[from]) * scale + FracNs(bs, from + 1, to, scale \div 10)

DateOK(bs) == /\ Len(bs) >= 10 /\ AllDigits(bs, 1, 4) /\ bs[5] = 45 /\ AllDigits(bs, 6, 7) /\ bs[8] = 45 /\ AllDigits(bs, 9, 10)
              /\ Num2(bs, 6) \in 1..12 /\ Num2(bs, 9) >= 1 /\ Num2(bs, 9) <= DaysIn(Num4(bs, 1), Num2(bs, 6))

ParseRFC3339(bs) ==
  IF ~DateOK(bs) THEN NoTime
  ELSE LET y == Num4(bs, 1)
           mo == Num2(bs, 6)
           d == Num2(bs, 9) IN
  IF Len(bs) = 10 THEN [ok |-> TRUE, y |-> y, mo |-> mo, d |-> d, h |-> 0, mi |-> 0, s |-> 0, ns |-> 0, off |-> 0]
  ELSE IF Len(bs) < 20 \/ bs[11] # 84 \/ ~AllDigits(bs, 12, 13) \/ bs[14] # 58 \/ ~AllDigits(bs, 15, 16) \/ bs[17] # 58 \/ ~AllDigits(bs, 18, 19) THEN NoTime
  ELSE LET h == Num2(bs, 12)
           mi == Num2(bs, 15)
           s == Num2(bs, 18)
           hasFrac == bs[20] \in {46, 44}
           fe == IF hasFrac THEN DigitsEnd(bs, 21) ELSE 20          \* index of the zone designator
           ns == IF hasFrac THEN FracNs(bs, 21, fe, 100000000) ELSE 0 IN
       IF h > 23 \/ mi > 59 \/ s > 59 \/ (hasFrac /\ fe = 21) \/ fe > Len(bs) THEN NoTime
       ELSE IF bs[fe] = 90 THEN
            IF fe = Len(bs) THEN [ok |-> TRUE, y |-> y, mo |-> mo, d |-> d, h |-> h, mi |-> mi, s |-> s, ns |-> ns, off |-> 0] ELSE NoTime
       ELSE IF bs[fe] \in {43, 45} /\ Len(bs) = fe + 5 /\ AllDigits(bs, fe + 1, fe + 2) /\ bs[fe + 3] = 58 /\ AllDigits(bs, fe + 4, fe + 5)
                 /\ Num2(bs, fe + 1) <= 23 /\ Num2(bs, fe + 4) <= 59 THEN
            LET o == Num2(bs, fe + 1) * 3600 + Num2(bs, fe + 4) * 60 IN
            [ok |-> TRUE, y |-> y, mo |-> mo, d |-> d, h |-> h, mi |-> mi, s |-> s, ns |-> ns, off |-> IF bs[fe] = 43 THEN o ELSE -o]
       ELSE NoTime

\* the civil fields of a projected time.Time node g (harness: t.Date(), t.Clock(), t.Nanosecond(), t.Zone())
SameCivil(p, g) == p.ok /\ p.y = g.y /\ p.mo = g.mo /\ p.d = g.d /\ p.h = g.h /\ p.mi = g.mi /\ p.s = g.s /\ p.ns = g.ns /\ p.off = g.off

(* --------------------------- big numbers ------------------------------- *)
\* non-negative numbers as W base-256 digits, least significant first
W == 10
RECURSIVE MulSmallFrom(_, _, _, _)
\* a * m + carry, m < 2^22
MulSmallFrom(a, m, i, carry) == IF i > W THEN <<>> ELSE LET t == a[i] * m + carry IN <<t % 256>> \o MulSmallFrom(a, m, i + 1, t \div 256)
MulSmall(a, m) == MulSmallFrom(a, m, 1, 0)
RECURSIVE AddFrom(_, _, _, _)
AddFrom(a, b, i, carry) == IF i > W THEN <<>> ELSE LET t == a[i] + b[i] + carry IN <<t % 256>> \o AddFrom(a, b, i + 1, t \div 256)
AddBig(a, b) == AddFrom(a, b, 1, 0)
RECURSIVE SubFrom(_, _, _, _)
\* a - b for a >= b
SubFrom(a, b, i, borrow) == IF i > W THEN <<>> ELSE LET t == a[i] - b[i] - borrow IN <<(t + 256) % 256>> \o SubFrom(a, b, i + 1, IF t < 0 THEN 1 ELSE 0)
SubBig(a, b) == SubFrom(a, b, 1, 0)
RECURSIVE GeqFrom(_, _, _)
GeqFrom(a, b, i) == IF i = 0 THEN TRUE ELSE IF a[i] > b[i] THEN TRUE ELSE IF a[i] < b[i] THEN FALSE ELSE GeqFrom(a, b, i - 1)
GeqBig(a, b) == GeqFrom(a, b, W)
\* small non-negative integer (< 2^31) as a big number
Small(n) == [i \in 1..W |-> IF i = 1 THEN n % 256 ELSE IF i = 2 THEN (n \div 256) % 256 ELSE IF i = 3 THEN (n \div 65536) % 256 ELSE IF i = 4 THEN n \div 16777216 ELSE 0]
ZeroBig == [i \in 1..W |-> 0]
\* two's complement of the low 8 bytes
Neg8(a) == LET inv == [i \in 1..W |-> IF i <= 8 THEN 255 - a[i] ELSE 0] IN SubSeq(AddBig(inv, Small(1)), 1, 8)
Low8(a) == SubSeq(a, 1, 8)
FitsPos63(a) == a[9] = 0 /\ a[10] = 0 /\ a[8] < 128

ASSUME Small(65536 + 513) = <<1, 2, 1, 0, 0, 0, 0, 0, 0, 0>>
ASSUME MulSmall(Small(1000000), 1000000) = <<0, 16, 165, 212, 232, 0, 0, 0, 0, 0>>     \* 10^12 = 0xE8D4A51000
ASSUME SubBig(Small(256), Small(1)) = Small(255) /\ Neg8(Small(1)) = <<255, 255, 255, 255, 255, 255, 255, 255>>
ASSUME ParseRFC3339(<<50,48,48,54,45,48,49,45,48,50,84,49,51,58,51,55,58,52,50,46,51,50,54,43,48,56,58,50,49>>)
       = [ok |-> TRUE, y |-> 2006, mo |-> 1, d |-> 2, h |-> 13, mi |-> 37, s |-> 42, ns |-> 326000000, off |-> 30060]
=============================================================================
