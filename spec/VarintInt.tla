----------------------------- MODULE VarintInt -----------------------------
(***************************************************************************)
(* The integer layer of the Avro varint encoding over the WHOLE int64      *)
(* range, for Apalache (symbolic; TLC's integers are 32 bit).  MC_Varint   *)
(* ties this layer to the bit-level definitions of AvroWire on all 16-bit  *)
(* values; here the same formulas are checked for every 64-bit value:      *)
(*   zig-zag is a bijection int64 -> uint64 and UnZig inverts it           *)
(*   the base-128 digits (z div 128^i) mod 128, i = 0..9, recompose to z   *)
(*   the tenth digit is at most 1 (ten bytes suffice, "overflow" rule)     *)
(*   the number of digits used is the smallest n with z < 128^n            *)
(***************************************************************************)
EXTENDS Integers

VARIABLE
  \* @type: Int;
  v

Min64 == -9223372036854775808
Max64 == 9223372036854775807
MaxU64 == 18446744073709551615

Zig(n) == IF n >= 0 THEN 2 * n ELSE -2 * n - 1
UnZig(z) == IF z % 2 = 0 THEN z \div 2 ELSE -((z + 1) \div 2)

\* powers of 128 as constants (a symbolic exponent would be non-linear arithmetic)
Pow(i) == IF i = 0 THEN 1 ELSE IF i = 1 THEN 128 ELSE IF i = 2 THEN 16384 ELSE IF i = 3 THEN 2097152 ELSE IF i = 4 THEN 268435456
          ELSE IF i = 5 THEN 34359738368 ELSE IF i = 6 THEN 4398046511104 ELSE IF i = 7 THEN 562949953421312
          ELSE IF i = 8 THEN 72057594037927936 ELSE 9223372036854775808
P(i) == Pow(i)
Digit(z, i) == (z \div P(i)) % 128
TopDigit(z, n) == IF n = 1 THEN Digit(z, 0) ELSE IF n = 2 THEN Digit(z, 1) ELSE IF n = 3 THEN Digit(z, 2) ELSE IF n = 4 THEN Digit(z, 3)
                  ELSE IF n = 5 THEN Digit(z, 4) ELSE IF n = 6 THEN Digit(z, 5) ELSE IF n = 7 THEN Digit(z, 6) ELSE IF n = 8 THEN Digit(z, 7)
                  ELSE IF n = 9 THEN Digit(z, 8) ELSE Digit(z, 9)
Recompose(z) == Digit(z, 0) + Digit(z, 1) * P(1) + Digit(z, 2) * P(2) + Digit(z, 3) * P(3) + Digit(z, 4) * P(4)
                + Digit(z, 5) * P(5) + Digit(z, 6) * P(6) + Digit(z, 7) * P(7) + Digit(z, 8) * P(8) + Digit(z, 9) * P(9)
\* number of bytes of the shortest form
NBytes(z) == IF z < P(1) THEN 1 ELSE IF z < P(2) THEN 2 ELSE IF z < P(3) THEN 3 ELSE IF z < P(4) THEN 4 ELSE IF z < P(5) THEN 5
             ELSE IF z < P(6) THEN 6 ELSE IF z < P(7) THEN 7 ELSE IF z < P(8) THEN 8 ELSE IF z < P(9) THEN 9 ELSE 10

Init == v \in Int /\ v >= Min64 /\ v <= Max64
Next == UNCHANGED v

InvZig == LET z == Zig(v) IN
          /\ z >= 0 /\ z <= MaxU64
          /\ UnZig(z) = v
          /\ (z % 2 = 0) = (v >= 0)
\* ten bytes suffice: the value above the ninth group is 0 or 1
InvTen == Zig(v) \div Pow(9) <= 1
InvLen == LET z == Zig(v) IN NBytes(z) <= 10 /\ \A n \in 1..9 : NBytes(z) = n => z < Pow(n)
InvDigits == LET z == Zig(v) IN Recompose(z) = z
=============================================================================
