#!/usr/bin/env python3
"""Confirm a seeded mutant and run checks against it.

  lib/mutant.py confirm <mutdir>            -- in a scratch worktree: patch applies, builds, existing tests pass,
                                              demo fails with the patch and passes without it
  lib/mutant.py run <mutdir> <ID> [<ID>..]  -- apply patch to /repo, run ./bin/check <ID> (quick), always undo
"""
import json, os, shutil, subprocess, sys, tempfile

ENV = dict(os.environ, GOFLAGS="-mod=mod", GOPROXY="off", GOPRIVATE="*")
ROOT = os.path.dirname(os.path.dirname(os.path.abspath(__file__)))      # the /verif tree this script lives in (may be a snapshot)
REPO = os.environ.get("VERIF_REPO", "/repo")                            # the repository the patch is applied to (may be a scratch worktree)

def sh(cmd, cwd=None, timeout=900):
    p = subprocess.run(cmd, shell=True, cwd=cwd, env=ENV, capture_output=True, text=True, timeout=timeout)
    return p.returncode, p.stdout + p.stderr

def demo_files(mutdir):
    return [f for f in os.listdir(mutdir) if f.endswith("_test.go") or (f.endswith(".go") and f != "patch.diff")]

def confirm(mutdir):
    meta = json.load(open(os.path.join(mutdir, "meta.json"))) if os.path.exists(os.path.join(mutdir, "meta.json")) else {}
    wt = tempfile.mkdtemp(prefix="mutwt-", dir="/var/tmp")
    os.rmdir(wt)
    res = {}
    try:
        rc, out = sh("git -C /repo worktree add -q --detach %s HEAD" % wt)
        assert rc == 0, out
        sub = meta.get("demo_dir", "")
        demos = demo_files(mutdir)
        # demo location: time_test package -> time/, null -> null/
        for d in demos:
            src = open(os.path.join(mutdir, d)).read()
            dst = wt
            if "package time" in src.split("\n", 5)[0:5].__str__() or "package time_test" in src[:400] or "package time\n" in src[:400]:
                dst = os.path.join(wt, "time")
            elif "package null" in src[:400]:
                dst = os.path.join(wt, "null")
            shutil.copy(os.path.join(mutdir, d), os.path.join(dst, "zz_" + d if d.endswith("_test.go") else d))
        rc, out = sh("go test -vet=off -count=1 ./... 2>&1 | tail -15", cwd=wt)
        res["demo_passes_without_patch"] = "FAIL" not in out and "ok" in out
        res["clean_out"] = out[-600:]
        rc, out = sh("git apply %s" % os.path.join(os.path.abspath(mutdir), "patch.diff"), cwd=wt)
        res["applies"] = rc == 0
        if rc != 0:
            res["apply_err"] = out[-500:]
            return res
        # existing tests with the patch (without the demo)
        for d in demos:
            for root in (wt, os.path.join(wt, "time"), os.path.join(wt, "null")):
                f = os.path.join(root, "zz_" + d)
                if os.path.exists(f):
                    os.rename(f, f + ".off")
        rc, out = sh("go build ./... && go test -vet=off -count=1 ./... 2>&1 | tail -8", cwd=wt)
        res["existing_tests_pass"] = rc == 0 and "FAIL" not in out
        for root in (wt, os.path.join(wt, "time"), os.path.join(wt, "null")):
            for f in os.listdir(root):
                if f.endswith(".off"):
                    os.rename(os.path.join(root, f), os.path.join(root, f[:-4]))
        rc, out = sh("go test -vet=off -count=1 ./... 2>&1 | tail -25", cwd=wt)
        res["demo_fails_with_patch"] = "FAIL" in out
        res["patched_out"] = out[-800:]
        return res
    finally:
        sh("git -C /repo worktree remove --force %s" % wt)
        shutil.rmtree(wt, ignore_errors=True)

def run(mutdir, ids):
    rc, out = sh("git -C %s status --porcelain" % REPO)
    assert out.strip() == "", REPO + " not clean: " + out
    rc, out = sh("git -C %s apply %s" % (REPO, os.path.join(os.path.abspath(mutdir), "patch.diff")))
    if rc != 0:
        print("patch does not apply to %s:" % REPO, out)
        return {}
    results = {}
    # evidence written while a mutant is applied must not replace the evidence of the unchanged tree
    bak = tempfile.mkdtemp(prefix="evbak-", dir="/var/tmp")
    shutil.copytree(os.path.join(ROOT, "evidence"), os.path.join(bak, "evidence"))
    try:
        for i in ids:
            rc, out = sh("./bin/check %s --tier quick" % i, cwd=ROOT, timeout=2400)
            viol = [l for l in out.splitlines() if l.startswith("VIOLATION")]
            why = [l for l in out.splitlines() if l.strip().startswith("key=")]
            results[i] = dict(rc=rc, violations=len(viol), why=why[:3], tail=out[-500:] if rc == 2 else "")
    finally:
        sh("git -C %s checkout -- . && git -C %s clean -fdq" % (REPO, REPO))
        shutil.rmtree(os.path.join(ROOT, "evidence"), ignore_errors=True)
        shutil.copytree(os.path.join(bak, "evidence"), os.path.join(ROOT, "evidence"))
        shutil.rmtree(bak, ignore_errors=True)
    return results

if __name__ == "__main__":
    if sys.argv[1] == "confirm":
        print(json.dumps(confirm(sys.argv[2]), indent=1))
    else:
        print(json.dumps(run(sys.argv[2], sys.argv[3:]), indent=1))
