#!/usr/bin/env python3
"""Debug aid: show where delivered differs from inputs in a replay file."""
import json,sys
e=json.load(open(sys.argv[1]))['event']
def diff(a,b,path=''):
    if type(a)!=type(b): print(path,'type',a,b); return
    if isinstance(a,dict):
        for k in a:
            if k not in b: print(path,'missing',k); continue
            diff(a[k],b[k],path+'/'+k)
    elif isinstance(a,list):
        if len(a)!=len(b): print(path,'len',len(a),len(b),a if len(str(a))<300 else '',b if len(str(b))<300 else ''); return
        for i,(x,y) in enumerate(zip(a,b)): diff(x,y,path+'/%d'%i)
    elif a!=b: print(path,a,b)
for i,(a,b) in enumerate(zip(e['inputs'],e.get('delivered',[]))): diff(a,b,'rec%d'%i)
print({k:e[k] for k in e if k not in('inputs','delivered','recheck','file','blocks','schema','schemaText')})
