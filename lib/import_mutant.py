#!/usr/bin/env python3
"""lib/import_mutant.py <src mutdir> <seeded id> <detected-by comma list or -> [note]  -- copy a confirmed seeded change under /verif/seeded/<id>/"""
import json, os, shutil, sys
src, sid, det = sys.argv[1], sys.argv[2], sys.argv[3]
note = sys.argv[4] if len(sys.argv) > 4 else ""
dst = os.path.join("/verif/seeded", sid)
os.makedirs(dst, exist_ok=True)
for f in os.listdir(src):
    if f in ("patch.diff",) or f.endswith(".go"):
        # demos are stored with a non-.go suffix so that no Go tool ever compiles them in place
        shutil.copy(os.path.join(src, f), os.path.join(dst, f if f == "patch.diff" else f + ".txt"))
m = json.load(open(os.path.join(src, "meta.json")))
meta = {
    "property": m.get("property"),
    "summary": m.get("summary"),
    "needs": m.get("needs"),
    "files": m.get("files"),
    "demo": m.get("demo"),
    "origin": "fresh sub-agent given only the property text and a scratch worktree",
    "confirmed_by_me": {"how": "lib/mutant.py confirm: scratch git worktree of /repo HEAD; patch applies; go build + existing tests pass with the patch; demo fails with the patch and passes without it", "result": "all true"},
    "detected_by": [] if det == "-" else det.split(","),
    "ran": "lib/mutant.py run <dir> <checks>: git -C /repo apply patch.diff; ./bin/check <ID> --tier quick; git -C /repo checkout -- .",
    "note": note,
}
json.dump(meta, open(os.path.join(dst, "meta.json"), "w"), indent=1)
print("imported", sid)
