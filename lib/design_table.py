#!/usr/bin/env python3
"""Fills the @@SEEDED_TABLE@@ placeholder of DESIGN.md from seeded/*/meta.json (python3 lib/design_table.py)."""
import json, os, glob
ROOT = os.path.dirname(os.path.dirname(os.path.abspath(__file__)))
rows = []
for d in sorted(glob.glob(os.path.join(ROOT, "seeded", "*"))):
    m = json.load(open(os.path.join(d, "meta.json")))
    summ = (m.get("summary") or "").replace("|", "/").replace("\n", " ")
    need = (m.get("needs") or "").replace("|", "/").replace("\n", " ")
    if len(summ) > 170: summ = summ[:167] + "..."
    if len(need) > 150: need = need[:147] + "..."
    det = ", ".join(m.get("detected_by") or []) or "**not detected** (see its meta.json note and section 11)"
    rows.append("| `%s` | %s | %s | %s | %s |" % (os.path.basename(d), m.get("property"), summ, need, det))
table = "| seeded change | property | what was changed | needs | detected by |\n|---|---|---|---|---|\n" + "\n".join(rows)
p = os.path.join(ROOT, "DESIGN.md")
s = open(p).read()
start, end = "<!-- seeded-table-begin -->", "<!-- seeded-table-end -->"
if "@@SEEDED_TABLE@@" in s:
    s = s.replace("@@SEEDED_TABLE@@", start + "\n" + table + "\n" + end)
else:
    i, j = s.index(start), s.index(end)
    s = s[:i] + start + "\n" + table + "\n" + s[j:]
open(p, "w").write(s)
print(len(rows), "seeded changes in the table")
