#!/usr/bin/env python3
"""MANIFEST.setup_cmd: build the harness offline and parse every TLA+ module with SANY."""
import os
import subprocess
import sys
import tempfile
import shutil

sys.path.insert(0, os.path.dirname(os.path.abspath(__file__)))
import vcheck as V

def main():
    scratch = tempfile.mkdtemp(prefix="verif-setup-", dir=V.SCRATCH_BASE)
    try:
        V.build_harness(scratch)
        V.build_harness(scratch, race=True)
        d = V.spec_dir(scratch, "sany")
        bad = 0
        for f in sorted(os.listdir(d)):
            if not f.endswith(".tla"):
                continue
            p = subprocess.run(["java", "-cp", V.JAR, "tla2sany.SANY", f], cwd=d, capture_output=True, text=True, timeout=300)
            ok = p.returncode == 0 and "Semantic errors" not in p.stdout and "Parse Error" not in p.stdout and "Fatal errors" not in p.stdout
            print("%-28s %s" % (f, "ok" if ok else "FAILED"))
            if not ok:
                bad += 1
                print(p.stdout[-2000:])
        return 1 if bad else 0
    except V.Infra as e:
        print("setup failed:", e, file=sys.stderr)
        return 1
    finally:
        shutil.rmtree(scratch, ignore_errors=True)

if __name__ == "__main__":
    sys.exit(main())
