#!/usr/bin/env python3
"""Per-property check definitions. See vcheck.py for the pipeline."""
import argparse
import json
import os
import sys
import traceback

sys.path.insert(0, os.path.dirname(os.path.abspath(__file__)))
import vcheck as V  # noqa: E402

TRUSTED = ["TLC 2026.09.04 / tla2tools 1.8.0 and the CommunityModules Json module",
           "harness/project.go (projection of Go values to abstract nodes)"]


def sample_of(meta, n=3):
    return meta.get("samples", [])[:n] or ["(no event small enough to quote)"]


def std_cov(run, meta, total, states, rule, exhaustive=False, extra=None):
    cov = run.model_cov()
    cov["states"] += states
    cov["transitions"] += states
    cov.update(traces_validated_against_impl=total, evaluations=meta["events"], distinct_nontrivial=meta["distinct_keys"],
               rule=rule, samples=sample_of(meta), exhaustive=exhaustive, realised=meta.get("realised", {}))
    if extra:
        cov.update(extra)
    return cov


def require_realised(meta, names):
    """Concretisation obligation (DESIGN section 5): every abstract distinction must be realised by a concrete case."""
    missing = [n for n in names if meta.get("realised", {}).get(n, 0) == 0]
    if missing:
        raise V.Infra("generator realised no concrete case for: %s" % ", ".join(missing))


# ---------------------------------------------------------------------------
def check_C17(run):
    run.model("MC_Varint", "MC_Varint_int16")
    run.model("MC_Varint", "MC_Varint_bytes8" if run.thorough() else "MC_Varint_bytes8_quick")
    run.model("MC_Varint", "MC_Varint_strs" if run.thorough() else "MC_Varint_strs_quick")
    if run.thorough():
        run.model("MC_Varint", "MC_Varint_strs11")
    # the integer layer over the whole int64 range, symbolically (TLC's integers are 32 bit)
    sym = [V.apalache(run.scratch, "VarintInt", inv) for inv in ("InvZig", "InvTen", "InvLen")]
    out, meta = run.drive("C17")
    total, rejected, states, _ = V.judge(run.scratch, "Trace_Prim", out)
    # ReadBuf / WriteBuf call sequences against their state-machine specification (beyond the listed property)
    out2, meta2 = run.drive("BUF")
    total2, rejected2, states2, _ = V.judge(run.scratch, "Trace_Buffers", out2)
    for r in rejected2:
        r["shard"] = "../out-BUF/" + r["shard"]
    rejected = rejected + rejected2
    total, states = total + total2, states + states2
    # the same primitives through codecs built from a schema for a struct: every (schema primitive, Go width) pair
    out3, meta3 = run.drive("C17W")
    total3, rejected3, states3, _ = V.judge(run.scratch, "Trace_Codec", out3)
    for r in rejected3:
        r["shard"] = "../out-C17W/" + r["shard"]
    rejected = rejected + rejected3
    total, states = total + total3, states + states3
    cov = std_cov(run, meta, total, states,
                  "one event per (codec, value) write+read-back or (codec, byte string) read; keys are codec|class where class is the varint length or boundary family; "
                  "distinct_nontrivial counts distinct keys",
                  extra=dict(int16_exhaustive=meta.get("int16_exhaustive"), short_strings_exhaustive=meta.get("short_strings_exhaustive"), apalache_full_int64=sym))
    return V.finish("C17", run.tier, run.seed, "model_checking", cov, rejected, out, run.t0,
                    TRUSTED + ["int32/float32 are boundary + random, not exhaustive (DESIGN C17 limit)"])


def check_roundtrip(run, prop):
    run.model("AvroSystem", "AvroSystem_thorough" if run.thorough() else "AvroSystem_quick")
    run.model("MC_Wire", "MC_Wire_thorough" if run.thorough() else "MC_Wire_quick")
    cases, g = V.generate(run.scratch, "MC_SchemaGen", "MC_SchemaGen")
    run.models.append(g)
    out, meta = run.drive(prop, cases=cases)
    total, rejected, states, _ = V.judge(run.scratch, "Trace_Codec", out)
    cov = std_cov(run, meta, total, states,
                  "one event per (struct type, value sequence, codec, block size, flush pattern, reader kind); keys are path|feature-set of the type; distinct_nontrivial counts distinct keys")
    return cov, rejected, out


def check_C01(run):
    cov, rejected, out = check_roundtrip(run, "C01")
    return V.finish("C01", run.tier, run.seed, "model_checking", cov, rejected, out, run.t0, TRUSTED)


def check_C02(run):
    cov, rejected, out = check_roundtrip(run, "C02")
    return V.finish("C02", run.tier, run.seed, "model_checking", cov, rejected, out, run.t0,
                    TRUSTED + ["compress/flate, golang/snappy and hash/crc32 as the environment's decompression oracle"])


def check_encoder(run, prop):
    run.model("AvroSystem", "AvroSystem_thorough" if run.thorough() else "AvroSystem_quick")
    out, meta = run.drive(prop)
    total, rejected, states, _ = V.judge(run.scratch, "Trace_Encoder", out)
    cov = std_cov(run, meta, total, states,
                  "one trace per (codec, block size, history over {encode(payload length), flush}[, failing write index k, accepted-prefix class]); "
                  "all histories up to exhaustive_histories_upto over three record sizes x block sizes {0,1,2,3,5} are enumerated, longer ones are seeded random; "
                  "distinct_nontrivial counts distinct (codec, B, history, fault) keys",
                  extra=dict(exhaustive_histories_upto=meta.get("exhaustive_histories_upto")))
    return cov, rejected, out


def check_C09(run):
    # unbounded histories / sizes / block sizes for the counting abstraction: inductive invariant with Apalache
    ind = [V.apalache(run.scratch, "EncoderInd", "IndInv", init="Init", length=0, cinit="CInit"),
           V.apalache(run.scratch, "EncoderInd", "IndInv", init="IndInit", length=1, cinit="CInit")]
    # one FileWriter, several destinations: the marker is the writer's (the per-header-marker defect cfg must break it)
    run.model("MirrorWriter")
    v = V.run_tlc(run.scratch, "MirrorWriter", "MirrorWriter_defect", workers=4, timeout=600)
    if "Invariant EveryDestinationValid is violated" not in v["out"]:
        raise V.Infra("vacuity check failed: the MirrorWriter model accepts a sync marker drawn anew by every WriteHeader")
    cov, rejected, out = check_encoder(run, "C09")
    cov["apalache_inductive_invariant"] = ind
    return V.finish("C09", run.tier, run.seed, "model_checking", cov, rejected, out, run.t0, TRUSTED + ["flate/snappy/crc32 as decompression oracle"])


def check_C16(run):
    cov, rejected, out = check_encoder(run, "C16")
    return V.finish("C16", run.tier, run.seed, "model_checking", cov, rejected, out, run.t0,
                    TRUSTED + ["the fault-free reference output of the same history (itself judged as a C09 trace in the same run)"])


def check_C06(run):
    run.model("MC_Wire", "MC_Wire_quick")
    cases, g = V.generate(run.scratch, "MC_Mutate", "MC_Mutate_thorough" if run.thorough() else "MC_Mutate_quick")
    run.models.append(g)
    out, meta = run.drive("C06", cases=cases)
    total, rejected, states, _ = V.judge(run.scratch, "Trace_Robust", out)
    cov = std_cov(run, meta, total, states,
                  "one event per (entry point, input): TLC-enumerated single-field mutations of valid encodings (every length/count/selector/long token x 17 replacements), "
                  "every framing varint of real container files x 15 replacements, truncations and flips, random bytes into 5 codec shapes, damaged schema JSON, damaged timestamp text; "
                  "each executed in a child process with a 20 s watchdog and an 8 GiB address-space limit; keys are entry|family|site|replacement",
                  extra=dict(tlc_mutants=meta.get("tlc_mutants")))
    return V.finish("C06", run.tier, run.seed, "model_checking", cov, rejected, out, run.t0,
                    TRUSTED + ["runtime.MemStats.TotalAlloc as allocation sensor", "'for all byte strings' is explored (enumerated mutations + seeded random), not proved"])


def check_C08(run):
    run.model("AvroSystem", "AvroSystem_thorough" if run.thorough() else "AvroSystem_quick")
    # the same statement on concrete bytes: writer rules + container layout + the judge's own CutWalk, every cut
    run.model("MC_SystemBytes", "MC_SystemBytes_thorough" if run.thorough() else "MC_SystemBytes", timeout=3000)
    out, meta = run.drive("C08")
    require_realised(meta, ["count-2-bytes", "len-2-bytes", "len-3-bytes", "blocks=0", "blocks=1", "blocks=3", "payload-over-1MiB"])
    total, rejected, states, _ = V.judge(run.scratch, "Trace_Reader", out)
    cov = std_cov(run, meta, total, states,
                  "one trace per valid file (3 codecs x 7 block layouts incl. empty, one record per block, 70 records in one block, a 9000-byte record); "
                  "one event per cut position: every cut 0..len for files up to 700 bytes, otherwise every cut within 2 bytes of a field boundary plus a stride; "
                  "keys are codec|layout")
    return V.finish("C08", run.tier, run.seed, "model_checking", cov, rejected, out, run.t0, TRUSTED + ["the files under test are re-validated by Container!ParseFile before use"])


def check_C07(run):
    run.model("ReaderDamage")
    # vacuity: a reader that holds the callback's error back until the block's sync marker has been checked breaks AtEnd
    v = V.run_tlc(run.scratch, "ReaderDamage", "ReaderDamage_defect", workers=8, timeout=900)
    if "Invariant AtEnd is violated" not in v["out"]:
        raise V.Infra("vacuity check failed: the ReaderDamage model accepts a callback error held back behind the sync check")
    out, meta = run.drive("C07")
    total, rejected, states, _ = V.judge(run.scratch, "Trace_Reader", out)
    cov = std_cov(run, meta, total, states,
                  "per valid file: callback failing at each record index; single-bit flips at every byte of every sync marker and snappy checksum (2 bits per byte quick, all 8 thorough) "
                  "and of the compressed payloads (sampled quick, every byte thorough), each classified by an independent decompressor; five header variants; keys are codec|layout")
    return V.finish("C07", run.tier, run.seed, "model_checking", cov, rejected, out, run.t0,
                    TRUSTED + ["compress/flate, golang/snappy, hash/crc32 as the environment's verdict on a damaged payload"])


def check_vectors(run, prop):
    cfg = ("MC_Wire_gen_thorough" if run.thorough() else "MC_Wire_gen_quick") if prop == "C03" else "MC_Wire_gen_proj_thorough"
    cases, g = V.generate(run.scratch, "MC_Wire", cfg, timeout=3000)
    run.models.append(g)
    if prop == "C04":
        # the projection universe (wide / nested records) plus the general universe (Read-vs-Skip on every kind)
        cases2, g2 = V.generate(run.scratch, "MC_Wire", "MC_Wire_gen_thorough" if run.thorough() else "MC_Wire_gen_quick", timeout=3000)
        run.models.append(g2)
        with open(cases, "a") as w:
            w.write(open(cases2).read())
    out, meta = run.drive(prop, cases=cases)
    total, rejected, states, _ = V.judge(run.scratch, "Trace_Codec", out)
    cov = std_cov(run, meta, total, states,
                  "TLC enumerates (schema, datum, legal encoding) over the bounded universe of MC_Wire (every composition of collections into blocks, sized or not, null in either union position) and proves Dec inverts each; "
                  "each vector is wrapped in a container by the harness's own writer (3 codecs, 1..n file blocks) and read by ReadFile into generated target types; keys are schema kind|target variant|codec",
                  extra=dict(tlc_vectors=meta.get("tlc_vectors"), schemas=meta.get("schemas")), exhaustive=False)
    return cov, rejected, out


def check_C03(run):
    cov, rejected, out = check_vectors(run, "C03")
    return V.finish("C03", run.tier, run.seed, "model_checking", cov, rejected, out, run.t0, TRUSTED + ["harness/schema2go.go (schema -> Go target types)"])


def check_C04(run):
    cov, rejected, out = check_vectors(run, "C04")
    return V.finish("C04", run.tier, run.seed, "model_checking", cov, rejected, out, run.t0, TRUSTED + ["harness/schema2go.go (schema -> projected Go target types)"])


def check_C13(run):
    run.model("MC_Wire", "MC_Wire_quick")
    run.model("MC_Time", "MC_Time_big_quick")
    run.model("MC_Time", "MC_Time_units_quick")
    out, meta = run.drive("C13")
    total, rejected, states, _ = V.judge(run.scratch, "Trace_Codec", out)
    cov = std_cov(run, meta, total, states,
                  "one event per (record type, caller schema, value): every (Go field type x admissible caller schema) pair of a 21 x up-to-11 table (null first/second, int/long x int16/int32/int64/int, float/double x float32/float64, "
                  "fixed, date/timestamp-millis/-micros/plain long/string x time.Time, null.* under each primitive) alone, in an array, a map and a nested record, plus seeded random records of 1-5 such fields; keys are field class|schema|position")
    return V.finish("C13", run.tier, run.seed, "model_checking", cov, rejected, out, run.t0, TRUSTED)


def check_C19(run):
    run.model("MC_Time", "MC_Time_big_quick")
    run.model("MC_Time", "MC_Time_units_quick")
    out, meta = run.drive("C19")
    total, rejected, states, _ = V.judge(run.scratch, "Trace_Codec", out)
    cov = std_cov(run, meta, total, states,
                  "read: stored integers (boundaries, a stride over all int32 day counts, random longs over the int64-nanosecond-representable range) decoded under date / timestamp-millis / timestamp-micros / plain long; "
                  "write: times that are exact multiples of the unit and arbitrary instants, before and after 1970; keys are direction|logical type|magnitude class")
    return V.finish("C19", run.tier, run.seed, "model_checking", cov, rejected, out, run.t0, TRUSTED + ["Go's time.Time accessors (Unix, Date, Clock, Zone) in the projection"])


def check_C18(run):
    run.model("MC_Time", "MC_Time_parse_thorough" if run.thorough() else "MC_Time_parse_quick")
    # the zone cache seen from an application that holds parsed times (time/parse.go: tzMap, add-only)
    run.model("ZoneCache")
    v = V.run_tlc(run.scratch, "ZoneCache", "ZoneCache_defect", workers=4, timeout=600)
    if "Invariant HeldStable is violated" not in v["out"]:
        raise V.Infra("vacuity check failed: the ZoneCache model keeps held times stable although zone objects are overwritten in place")
    out, meta = run.drive("C18")
    total, rejected, states, _ = V.judge(run.scratch, "Trace_Codec", out)
    # the same driver in a process whose local zone has daylight saving: what a timestamp parses to does not depend on it
    out2, meta2 = run.drive("C18TZ", extra_env={"TZ": ["Europe/London", "America/New_York", "Australia/Lord_Howe"][run.seed % 3]})
    total2, rejected2, states2, _ = V.judge(run.scratch, "Trace_Codec", out2)
    for r in rejected2:
        r["shard"] = "../out-C18TZ/" + r["shard"]
    rejected = rejected + rejected2
    total, states = total + total2, states + states2
    cov = std_cov(run, meta, total, states,
                  "grammar-directed grid (years 0000..9999, month/day/hour boundaries, fraction lengths 0,1,3,6,9,10,12, '.' and ',', Z and +-hh:mm up to 23:59, date-only), "
                  "format/parse identity on seeded random times, random valid strings with random fraction lengths, and ~1,000 damaged strings (no-panic clause); "
                  "through StringCodec.Read directly, a time.Time record field and a null.Time field; keys are family|fraction length|entry")
    return V.finish("C18", run.tier, run.seed, "model_checking", cov, rejected, out, run.t0,
                    TRUSTED + ["time.Parse is logged for every string and must agree with the TLA+ reference (disagreement = exit 2)"])


def check_C05(run):
    run.model("MC_Build")
    out, meta = run.drive("C05")
    total, rejected, states, _ = V.judge(run.scratch, "Trace_Codec", out)
    cov = std_cov(run, meta, total, states,
                  "one event per (schema type, Go kind) pair of a 32 x 57 matrix (14 Avro types with parameters; every Go kind incl. unsigned, complex, arrays of several lengths, maps with non-string keys, "
                  "pointers, interface, chan, func), destination = field F of struct{Pre [16]byte; F; Post [16]byte; Sib} in the middle of a 3-element array; per built pair 4 (16 thorough) decodes of "
                  "independently written valid encodings (incl. extreme longs) and damaged ones; keys are schema|kind",
                  extra=dict(pairs=meta.get("pairs"), pairs_built=meta.get("pairs_built"), matrix_of_pairs_enumerated_completely=True), exhaustive=False)
    return V.finish("C05", run.tier, run.seed, "model_checking", cov, rejected, out, run.t0,
                    TRUSTED + ["canary bytes as the sensor for out-of-field stores (TLA+ cannot observe Go memory)", "the matrix of pairs is enumerated completely; values per pair are sampled"])


def check_C14(run):
    cases, g = V.generate(run.scratch, "MC_Schema", "MC_Schema_thorough" if run.thorough() else "MC_Schema_quick")
    run.models.append(g)
    out, meta = run.drive("C14", cases=cases)
    total, rejected, states, _ = V.judge(run.scratch, "Trace_Schema", out)
    cov = std_cov(run, meta, total, states,
                  "TLC proves Parse(v(Serialise(s))) = s on the schema universe (primitives, logical types, namespaces, enum, fixed, unions, nested records/collections, named references) and emits the schemas; "
                  "each is rendered as text 8 (60 thorough) times with shuffled members, unknown attributes of every JSON kind and three whitespace layouts, parsed by SchemaFromString, marshalled and read back by encoding/json; "
                  "plus every proper prefix / trailing data / syntax damage of the canonical documents; keys are family|schema kind|variation",
                  extra=dict(tlc_schemas=meta.get("tlc_schemas")))
    return V.finish("C14", run.tier, run.seed, "model_checking", cov, rejected, out, run.t0, TRUSTED + ["encoding/json as the independent reader of Schema.Marshal output"])


def check_C15(run):
    cases, g = V.generate(run.scratch, "MC_SchemaGen", "MC_SchemaGen")
    run.models.append(g)
    out, meta = run.drive("C15", cases=cases)
    total, rejected, states, _ = V.judge(run.scratch, "Trace_Schema", out)
    cov = std_cov(run, meta, total, states,
                  "29 compile-time types (every tag combination, unexported, embedded value and pointer, one struct type in several positions, four self-referential shapes, unsupported kinds, named primitives) "
                  "plus seeded reflect.StructOf types with odd kinds (unsigned, int8, arrays, non-string-keyed maps, interface, chan, func, complex) spliced in at random positions; keys are static|type or gen|odd kind")
    return V.finish("C15", run.tier, run.seed, "model_checking", cov, rejected, out, run.t0, TRUSTED + ["self-referential types run in a child process (stack overflow is unrecoverable)"])


def check_C20(run):
    run.model("MC_Registry", "MC_Registry_thorough" if run.thorough() else "MC_Registry")
    out, meta = run.drive("C20")
    total, rejected, states, _ = V.judge(run.scratch, "Trace_Schema", out)
    cov = std_cov(run, meta, total, states,
                  "registration histories (nothing registered; first registration; re-registered codecs; re-registered schema after schemas were generated; seeded further re-registrations) x 6 holder values that place a "
                  "named-string, a struct and a named-slice custom type as field, behind a pointer, as slice element, map value, omitempty field, nested field, slice of pointers, next to an unregistered named type; keys are step|holder")
    return V.finish("C20", run.tier, run.seed, "model_checking", cov, rejected, out, run.t0, TRUSTED + ["the logging codecs are harness code"])


def check_C10(run):
    run.model("Bank")
    run.model("BankPool")
    v = V.run_tlc(run.scratch, "BankPool", "BankPool_defect", workers=4, timeout=600)
    if "Invariant Disjoint is violated" not in v["out"]:
        raise V.Infra("vacuity check failed: the BankPool model does not hand out overlapping memory when a bank is put into the pool twice")
    out, meta = run.drive("C10")
    total, rejected, states, _ = V.judge(run.scratch, "Trace_Bank", out)
    cov = std_cov(run, meta, total, states,
                  "(A) seeded sequences of 60 (400 thorough) bank operations over up to 4 concurrently open banks and 4 types + strings through the public surface, every live allocation's rank-compressed address range and content hash recorded after every step; "
                  "(B) multi-block files of every codec read with ReadFile, all records retained, banks closed in a seeded order while reading continues, retained records re-projected at checkpoints; "
                  "(C) a read aborted by the callback after it closed its bank, then two complete reads (other values) with all records retained and every other bank closed in between; keys are part|run or codec|block size")
    return V.finish("C10", run.tier, run.seed, "model_checking", cov, rejected, out, run.t0,
                    TRUSTED + ["addresses and content hashes of bank memory are read by the harness with unsafe (TLA+ cannot observe Go memory)"])


def check_C11(run):
    run.model("Heap")
    v = V.run_tlc(run.scratch, "Heap", "Heap_defect", workers=4, timeout=600)
    if "Invariant GCSafe is violated" not in v["out"]:
        raise V.Infra("vacuity check failed: the Heap model does not reject the untyped-word mechanism")
    out, meta = run.drive("C11")
    total, rejected, states, _ = V.judge(run.scratch, "Trace_Codec", out)
    cov = std_cov(run, meta, total, states,
                  "7 target shapes (maps and slices behind pointers, maps of maps / slices / pointers, pointers to registered types, nested records) x 3 codecs x block layouts, decoded in child processes under GODEBUG=clobberfree=1 "
                  "(thorough: also GOGC=1 + gcstoptheworld=1) with forced collections + size-class churn in the callback, after the read and, through the hook in ResourceBank.Alloc, in the middle of decoding; "
                  "map encoding while another goroutine forces collections; keys are direction|shape|codec|environment")
    return V.finish("C11", run.tier, run.seed, "exploration", cov, rejected, out, run.t0,
                    TRUSTED + ["the Go runtime (collector with clobberfree) is the sensor; TLA+ supplies the mechanism model (Heap) and the expected values"])


def check_C12(run):
    run.model("Concurrency", "Concurrency" if run.thorough() else "Concurrency_quick", timeout=3000)
    run.model("RWLockBuild")
    v = V.run_tlc(run.scratch, "RWLockBuild", "RWLockBuild_defect", workers=4, timeout=600)
    if "Deadlock reached" not in v["out"]:
        raise V.Infra("vacuity check failed: the RWLockBuild model does not deadlock when the read lock is held across the recursive build")
    # a built codec is immutable: the error a goroutine holds from a failed decode stays its own (SharedCodec)
    run.model("SharedCodec")
    v = V.run_tlc(run.scratch, "SharedCodec", "SharedCodec_defect", workers=4, timeout=600)
    if "Invariant HeldIsOwn is violated" not in v["out"]:
        raise V.Infra("vacuity check failed: the SharedCodec model keeps held errors stable although the failure is stored in the codec")
    race = run.harness(race=True)
    out, meta = run.drive("C12", extra_env={"VERIF_RACE_BIN": race})
    total, rejected, states, _ = V.judge(run.scratch, "Trace_Conc", out)
    cov = std_cov(run, meta, total, states,
                  "gates: for each ordered pair of sections of the same lock (registry r/w, schema registry r/w, zone cache) one goroutine parked inside, a second sent towards the other section, arrival recorded; "
                  "stress: 3 (20 thorough) runs of 8-16 goroutines x 40-150 mixed operations (shared-codec encode/decode, codec construction, registration, timestamps with 8 zone offsets, whole-file reads, closing banks obtained elsewhere) "
                  "under the race detector with section enter/leave events sequenced inside the sections; keys are gate|parked|probe or stress|run")
    return V.finish("C12", run.tier, run.seed, "model_checking", cov, rejected, out, run.t0,
                    TRUSTED + ["the Go race detector is the sensor for unsynchronised accesses", "interleavings are explored by gate enforcement at hook granularity and by stress, not exhaustively at instruction level"])


CHECKS = {k[6:]: v for k, v in list(globals().items()) if k.startswith("check_C")}


def main():
    ap = argparse.ArgumentParser()
    ap.add_argument("prop")
    ap.add_argument("--tier", default=os.environ.get("VERIF_TIER", "quick"), choices=["quick", "thorough"])
    ap.add_argument("--seed", type=int, default=int(os.environ.get("VERIF_SEED", "1")))
    ap.add_argument("--keep", action="store_true")
    ap.add_argument("--replay")
    a = ap.parse_args()
    if a.prop not in CHECKS:
        print("unknown property %s; have %s" % (a.prop, sorted(CHECKS)), file=sys.stderr)
        sys.exit(2)
    if a.replay:
        body = json.load(open(a.replay))
        a.seed, a.tier = body.get("seed", a.seed), body.get("tier", a.tier)
        V.log("[replay] re-running %s tier=%s seed=%d; original rejection: %s" % (a.prop, a.tier, a.seed, body.get("rejection")))
    run = V.Run(a.prop, a.tier, a.seed, keep=a.keep)
    try:
        rc = CHECKS[a.prop](run)
    except V.Infra as e:
        V.log("INFRASTRUCTURE FAILURE (not a verdict about the code): %s" % e)
        rc = 2
    except Exception:
        traceback.print_exc()
        rc = 2
    finally:
        run.cleanup()
    sys.exit(rc)


if __name__ == "__main__":
    main()
