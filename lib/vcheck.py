#!/usr/bin/env python3
"""Driver for the model-based checks of philpearl/avro.

  bin/check <ID> [--tier quick|thorough] [--seed N] [--replay FILE] [--keep]

Pipeline of one check (DESIGN.md section 3.2):
  A. TLC model checking of the property's TLA+ modules (spec bug => exit 2)
  B. TLC behaviour generation -> cases.ndjson for the harness (optional)
  C. harness (built from /repo's working tree, tag verif) drives the real
     library and records traces
  D. TLC trace validation: the judge.  Rejected events are matched against
     known_findings.json; unlisted => VIOLATION, exit 1.
Exit 2 for every infrastructure failure; a VIOLATION line is only printed for
behaviour of the real code that the specification does not allow.
"""
import concurrent.futures as cf
import hashlib
import json
import os
import re
import shutil
import subprocess
import sys
import tempfile
import time

ROOT = os.path.dirname(os.path.dirname(os.path.abspath(__file__)))
SPEC = os.path.join(ROOT, "spec")
HARNESS = os.path.join(ROOT, "harness")
REPO = os.environ.get("VERIF_REPO", "/repo")
JAR = "/opt/veriftools/tla/tla2tools.jar:/opt/veriftools/tla/CommunityModules-deps.jar"
SCRATCH_BASE = os.environ.get("VERIF_SCRATCH", "/var/tmp")


class Infra(Exception):
    """Infrastructure failure: exit 2, never a violation."""


def goenv():
    env = dict(os.environ)
    env.update(GOFLAGS="-mod=mod", GOPROXY="off", GOPRIVATE="*")
    env.pop("GOTOOLCHAIN", None)
    env.pop("GOSUMDB", None)
    env.setdefault("GOCACHE", "/root/.cache/go-build")
    return env


def log(*a):
    print(*a, file=sys.stderr, flush=True)


# ---------------------------------------------------------------------------
# harness

def build_harness(scratch, race=False):
    """Build the harness against /repo's current working tree (replace directive)."""
    out = os.path.join(scratch, "harness-race.bin" if race else "harness.bin")
    modfile_args = []
    if REPO != "/repo":
        # self-test against a scratch copy of the repository
        mod = open(os.path.join(HARNESS, "go.mod")).read().replace("=> /repo", "=> " + REPO)
        alt = os.path.join(scratch, "alt.mod")
        open(alt, "w").write(mod)
        shutil.copy(os.path.join(HARNESS, "go.sum"), os.path.join(scratch, "alt.sum"))
        modfile_args = ["-modfile=" + alt]
    cmd = ["go", "build", "-tags", "verif"] + modfile_args + (["-race"] if race else []) + ["-o", out, "."]
    t0 = time.time()
    p = subprocess.run(cmd, cwd=HARNESS, env=goenv(), capture_output=True, text=True)
    if p.returncode != 0:
        raise Infra("harness build failed (the repository may not compile):\n" + p.stdout + p.stderr)
    log("[build] harness%s built in %.1fs" % (" (-race)" if race else "", time.time() - t0))
    return out


def run_harness(binary, prop, tier, seed, outdir, cases=None, shards=16, timeout=None, extra_env=None, args=()):
    timeout = timeout or (1500 if tier == "quick" else 7000)
    cmd = [binary, "-prop", prop, "-tier", tier, "-seed", str(seed), "-out", outdir, "-shards", str(shards)]
    if cases:
        cmd += ["-cases", cases]
    cmd += list(args)
    env = goenv()
    if extra_env:
        env.update(extra_env)
    t0 = time.time()
    try:
        p = subprocess.run(cmd, env=env, capture_output=True, text=True, timeout=timeout)
    except subprocess.TimeoutExpired:
        raise Infra("harness driver %s timed out after %ds" % (prop, timeout))
    if p.returncode != 0:
        raise Infra("harness driver %s died (exit %d):\n%s" % (prop, p.returncode, (p.stdout + p.stderr)[-4000:]))
    meta = json.load(open(os.path.join(outdir, "meta.json")))
    log("[drive] %s: %d events in %.1fs" % (prop, meta["events"], time.time() - t0))
    return meta


# ---------------------------------------------------------------------------
# TLC

def spec_dir(scratch, name):
    d = os.path.join(scratch, name)
    os.makedirs(d, exist_ok=True)
    for f in os.listdir(SPEC):
        if f.endswith(".tla") or f.endswith(".cfg"):
            dst = os.path.join(d, f)
            if not os.path.exists(dst):
                os.symlink(os.path.join(SPEC, f), dst)
    return d


STATS_RE = re.compile(r"(\d+) states generated, (\d+) distinct states found")
DEPTH_RE = re.compile(r"The depth of the complete state graph search is (\d+)")


def run_tlc(scratch, module, cfg=None, workers=16, timeout=1800, xmx="8g", extra=(), name=None, env=None, simulate=None):
    """Run TLC on spec/<module>.tla with spec/<cfg>. Returns dict(states, distinct, depth, out)."""
    d = spec_dir(scratch, name or ("mc-" + (cfg or module)))
    cfg = cfg or module
    cmd = ["java", "-Xmx" + xmx, "-Xss512m", "-XX:+UseParallelGC", "-cp", JAR, "tlc2.TLC",
           "-workers", str(workers), "-metadir", os.path.join(d, "md"), "-config", cfg + ".cfg"]
    if simulate:
        cmd += ["-simulate", simulate]
    cmd += list(extra) + [module]
    t0 = time.time()
    e = dict(os.environ)
    if env:
        e.update(env)
    try:
        p = subprocess.run(cmd, cwd=d, capture_output=True, text=True, timeout=timeout, env=e)
    except subprocess.TimeoutExpired:
        raise Infra("TLC timed out on %s/%s after %ds" % (module, cfg, timeout))
    out = p.stdout + p.stderr
    res = dict(module=module, cfg=cfg, rc=p.returncode, out=out, wall=time.time() - t0, dir=d, states=0, distinct=0, depth=0)
    m = STATS_RE.findall(out)
    if m:
        res["states"], res["distinct"] = int(m[-1][0]), int(m[-1][1])
    m = DEPTH_RE.findall(out)
    if m:
        res["depth"] = int(m[-1])
    return res


def model_check(scratch, module, cfg=None, workers=16, timeout=1800, **kw):
    """Role A: the specification itself must satisfy its invariants; otherwise the spec is wrong (exit 2)."""
    r = run_tlc(scratch, module, cfg, workers=workers, timeout=timeout, **kw)
    if r["rc"] != 0 or "No error has been found" not in r["out"]:
        tail = "\n".join(l for l in r["out"].splitlines() if not re.match(r"^(Semantic|Linting|Parsing)", l))[-3000:]
        raise Infra("model checking of %s/%s failed (specification error, not a violation of the code):\n%s" % (module, r["cfg"], tail))
    log("[model] %s/%s: %d states generated, %d distinct, depth %d, %.1fs" % (module, r["cfg"], r["states"], r["distinct"], r["depth"], r["wall"]))
    return r


def generate(scratch, module, cfg, timeout=1800, workers=16):
    """Role B: run a generating model; returns (path of de-duplicated cases.ndjson, tlc result)."""
    r = model_check(scratch, module, cfg, workers=workers, timeout=timeout, name="gen-" + cfg)
    raw = os.path.join(r["dir"], "cases.ndjson")
    if not os.path.exists(raw):
        raise Infra("generator %s/%s wrote no cases" % (module, cfg))
    seen, out = set(), os.path.join(r["dir"], "cases.dedup.ndjson")
    with open(out, "w") as w:
        for line in open(raw):
            line = line.strip()
            if not line or line in seen:
                continue
            seen.add(line)
            v = json.loads(line)
            if isinstance(v, str):
                v = json.loads(v)
            w.write(json.dumps(v) + "\n")
    log("[gen] %s/%s: %d distinct cases" % (module, cfg, len(seen)))
    r["cases"] = len(seen)
    return out, r


def apalache(scratch, module, inv, timeout=600, init="Init", length=0, cinit=None):
    """Symbolic check of a state invariant with Apalache (length 0: all initial states; init=IndInit, length=1: inductive step)."""
    d = spec_dir(scratch, "apalache-%s-%s-%s" % (module, inv, init))
    t0 = time.time()
    try:
        p = subprocess.run(["apalache-mc", "check", "--init=" + init, "--next=Next", "--inv=" + inv, "--length=%d" % length, "--out-dir=" + os.path.join(d, "out")]
                           + (["--cinit=" + cinit] if cinit else []) + [module + ".tla"],
                           cwd=d, capture_output=True, text=True, timeout=timeout)
    except subprocess.TimeoutExpired:
        raise Infra("Apalache timed out on %s/%s" % (module, inv))
    if p.returncode != 0 or "EXITCODE: OK" not in p.stdout:
        raise Infra("Apalache did not establish %s/%s:\n%s" % (module, inv, (p.stdout + p.stderr)[-1500:]))
    log("[apalache] %s/%s: no error over all initial states, %.1fs" % (module, inv, time.time() - t0))
    return dict(module=module, inv=inv, wall=round(time.time() - t0, 1))


def judge_shard(args):
    scratch, module, shard_file, idx, xmx, timeout = args
    d = spec_dir(scratch, "judge-%s-%02d" % (module, idx))
    tr = os.path.join(d, "trace.ndjson")
    if os.path.lexists(tr):
        os.remove(tr)
    os.symlink(shard_file, tr)
    vfile = os.path.join(d, "verdict.json")
    if os.path.exists(vfile):
        os.remove(vfile)
    cmd = ["java", "-Xmx" + xmx, "-Xss512m", "-XX:+UseParallelGC", "-cp", JAR, "tlc2.TLC",
           "-workers", "1", "-metadir", os.path.join(d, "md"), "-config", module + ".cfg", module]
    t0 = time.time()
    try:
        p = subprocess.run(cmd, cwd=d, capture_output=True, text=True, timeout=timeout)
    except subprocess.TimeoutExpired:
        return dict(idx=idx, error="judge %s timed out on shard %d after %ds" % (module, idx, timeout))
    out = p.stdout + p.stderr
    if p.returncode != 0 or not os.path.exists(vfile):
        tail = "\n".join(l for l in out.splitlines() if not re.match(r"^(Semantic|Linting|Parsing)", l))[-3000:]
        return dict(idx=idx, error="judge %s failed on shard %d (rc=%d):\n%s" % (module, idx, p.returncode, tail))
    v = json.load(open(vfile))
    m = STATS_RE.findall(out)
    states = int(m[-1][1]) if m else 0
    return dict(idx=idx, n=v["n"], rejected=v.get("rejected", []), states=states, wall=time.time() - t0, extra={k: v[k] for k in v if k not in ("n", "rejected")})


def judge(scratch, module, outdir, xmx="3g", timeout=3000, parallel=16):
    """Role C: trace validation. Returns (events_judged, rejected list, states)."""
    shards = sorted(f for f in os.listdir(outdir) if f.startswith("trace-") and f.endswith(".ndjson"))
    jobs = []
    expected = {}
    names = {}
    for i, f in enumerate(shards):
        path = os.path.join(outdir, f)
        n = sum(1 for _ in open(path))
        if n == 0:
            continue
        expected[i] = n
        names[i] = f
        jobs.append((scratch, module, path, i, xmx, timeout))
    t0 = time.time()
    rejected, total, states = [], 0, 0
    extras = []
    with cf.ThreadPoolExecutor(max_workers=parallel) as ex:
        for r in ex.map(judge_shard, jobs):
            if "error" in r:
                raise Infra(r["error"])
            if r["n"] != expected[r["idx"]]:
                raise Infra("judge %s consumed %d of %d lines of shard %d" % (module, r["n"], expected[r["idx"]], r["idx"]))
            total += r["n"]
            states += r["states"]
            extras.append(r["extra"])
            for x in r["rejected"]:
                x["shard"] = names[r["idx"]]
                rejected.append(x)
    log("[judge] %s: %d events in %d shards judged in %.1fs, %d rejected" % (module, total, len(jobs), time.time() - t0, len(rejected)))
    return total, rejected, states, extras


def shard_line(outdir, shard, line):
    path = os.path.join(outdir, shard if isinstance(shard, str) else "trace-%02d.ndjson" % shard)
    with open(path) as f:
        for i, l in enumerate(f, 1):
            if i == line:
                return json.loads(l)
    return None


# ---------------------------------------------------------------------------
# known findings, verdict, evidence

def load_known():
    p = os.path.join(ROOT, "known_findings.json")
    if not os.path.exists(p):
        return []
    return json.load(open(p)).get("known", [])


def match_known(known, prop, key):
    for k in known:
        if k["property"] != prop:
            continue
        pat = k["key"]
        if pat == key or (pat.endswith("*") and key.startswith(pat[:-1])):
            return k
    return None


def finish(prop, tier, seed, level, coverage, rejected, outdir, t0, assumptions, keep_events=True):
    """Classify rejections, print the verdict lines, write evidence, return exit code."""
    specbugs = [r for r in rejected if any("SPECBUG" in w for w in r.get("why", []))]
    if specbugs:
        raise Infra("the specification disagrees with its cross-check oracle on %d events (specification bug, not a verdict): %s" % (len(specbugs), specbugs[:3]))
    known = load_known()
    printed_known = set()
    violations = []
    for r in rejected:
        k = match_known(known, prop, r.get("key", ""))
        if k is not None:
            if k["key"] not in printed_known:
                printed_known.add(k["key"])
                print("KNOWN-FINDING: property=%s %s" % (prop, k["what"]))
        else:
            violations.append(r)
    # known findings whose witness ran and was accepted: say so (evidence only)
    rc = 0
    replay_paths = []
    if violations:
        os.makedirs(os.path.join(ROOT, "replays"), exist_ok=True)
        seen_keys = set()
        for r in violations:
            if r.get("key") in seen_keys and len(seen_keys) >= 1 and len(replay_paths) >= 5:
                continue
            seen_keys.add(r.get("key"))
            ev = shard_line(outdir, r["shard"], r["line"]) if outdir and "line" in r else None
            body = dict(property=prop, tier=tier, seed=seed, rejection=r, event=ev)
            h = hashlib.sha1(json.dumps(body, sort_keys=True).encode()).hexdigest()[:12]
            path = os.path.join(ROOT, "replays", "%s-%s.json" % (prop, h))
            json.dump(body, open(path, "w"), indent=1)
            replay_paths.append(path)
            if len(replay_paths) <= 5:
                print("VIOLATION property=%s replay=%s" % (prop, path))
                log("  key=%s why=%s" % (r.get("key"), r.get("why")))
        rc = 1
    coverage = dict(coverage)
    coverage["rejected_events"] = len(rejected)
    coverage["known_findings_seen"] = sorted(printed_known)
    ev = dict(property_id=prop, tier=tier, seed=seed, level=level, coverage=coverage,
              assumptions=assumptions, wall_s=round(time.time() - t0, 1), violations=len(violations))
    os.makedirs(os.path.join(ROOT, "evidence"), exist_ok=True)
    json.dump(ev, open(os.path.join(ROOT, "evidence", prop + ".json"), "w"), indent=1)
    log("[done] %s tier=%s seed=%d: %d violations, %d known, %.1fs" % (prop, tier, seed, len(violations), len(printed_known), time.time() - t0))
    return rc


class Run:
    """Scratch directory + shared state of one check run."""

    def __init__(self, prop, tier, seed, keep=False):
        self.prop, self.tier, self.seed, self.keep = prop, tier, seed, keep
        self.t0 = time.time()
        self.scratch = tempfile.mkdtemp(prefix="verif-%s-" % prop, dir=SCRATCH_BASE)
        self.models = []
        self._bin = {}

    def thorough(self):
        return self.tier == "thorough"

    def pick(self, q, t):
        return t if self.thorough() else q

    def harness(self, race=False):
        if race not in self._bin:
            self._bin[race] = build_harness(self.scratch, race)
        return self._bin[race]

    def model(self, module, cfg=None, **kw):
        r = model_check(self.scratch, module, cfg, **kw)
        self.models.append(r)
        return r

    def drive(self, driver=None, cases=None, race=False, **kw):
        out = os.path.join(self.scratch, "out-" + (driver or self.prop))
        meta = run_harness(self.harness(race), driver or self.prop, self.tier, self.seed, out, cases=cases, **kw)
        return out, meta

    def model_cov(self):
        return dict(states=sum(m["distinct"] for m in self.models), transitions=sum(m["states"] for m in self.models),
                    models=[dict(module=m["module"], cfg=m["cfg"], distinct=m["distinct"], generated=m["states"], depth=m["depth"], wall_s=round(m["wall"], 1)) for m in self.models])

    def cleanup(self):
        if not self.keep:
            shutil.rmtree(self.scratch, ignore_errors=True)
        else:
            log("[keep] scratch kept at " + self.scratch)
