#!/usr/bin/env python3
"""Regenerates MANIFEST.json from the table below (python3 lib/manifest.py)."""
import json
import os
import subprocess

ROOT = os.path.dirname(os.path.dirname(os.path.abspath(__file__)))
PROPS = [json.loads(l)["id"] for l in open(os.path.join(ROOT, "properties.jsonl"))]

# id -> (category, technique, level text, level note, design ref)
CLAIMED = {
 "C17": ("model_checking",
         "TLA+ bit-level varint/IEEE reference (AvroWire) model-checked by TLC; recorded codec calls trace-validated by TLC (Trace_Prim)",
         "TLC checks the varint layer of the specification exhaustively on all 16-bit values, a 4^8/5^8 grid of 64-bit values and all short byte strings; every recorded Write/Read/Skip of the public primitive codecs (all int16 in the thorough tier, boundaries of every varint length, random int32/int64/float patterns, candidate varints up to 12 bytes) is then judged by TLC against that reference.",
         "Trusted: TLC, the Json module, harness/project.go. int32 and float32 domains are boundary+random, not exhaustive (2^32 events are out of reach of TLC as judge).",
         "DESIGN.md section 6 C17"),
}

CLAIMED["C01"] = ("model_checking",
  "TLA+ AvroSystem (writer/crash/reader state machine) and AvroWire theorems model-checked by TLC; recorded encode->ReadFile round trips trace-validated by TLC against GoModel!SameValue (Trace_Codec)",
  "TLC checks on the abstract writer->bytes->reader system that, for every call history, block size and record size within the bounds, the reader delivers exactly the encoded records in order, and on the byte-level reference that decoding inverts every legal encoding. Every recorded round trip of the real code (8 compile-time types through Encoder[T], seeded random reflect.StructOf types through SchemaForType+Codec+FileWriter, three codecs, block sizes 0..2^20, flush patterns, four reader kinds, value and pointer targets, one witness per nullable/pointer/collection shape) is then judged by TLC: same count, same order, equal up to the documented normalisations, checked in the callback and again after the whole read.",
  "Trusted: TLC, Json module, harness/project.go. Type and value spaces are sampled by a seeded generator (VERIF_SEED), not enumerated.",
  "DESIGN.md section 6 C01")
CLAIMED["C02"] = ("model_checking",
  "TLA+ reference decoder written from the Avro 1.8 specification (AvroWire, Container) model-checked by TLC; the bytes the encoder produced are parsed and decoded by TLC alone and compared with the inputs through GoModel!Rep (Trace_Codec)",
  "The oracle is the TLA+ container parser and binary decoder, which see only the output bytes and the embedded schema (parsed by encoding/json, not by the library): magic, metadata (schema, codec), sync markers, per-block count and byte length exact, payload decodes to exactly count datums with nothing left over, each datum is the value written with nil pointer / invalid null.* / zero omitempty scalar in the null branch and everything else in the non-null branch.",
  "Trusted: TLC, Json module, harness/project.go, and compress/flate + golang/snappy + hash/crc32 as the environment's decompression oracle (TLA+ does not interpret compressed bytes). The text of time.Time strings is not yet compared with the instant (only that a string was written).",
  "DESIGN.md section 6 C02")

CLAIMED["C06"] = ("model_checking",
  "TLC enumerates every single-field mutation of valid encodings from the token-level TLA+ encoder (MC_Mutate) and checks the reference decoder total on them; the mutants, framing mutations of real files, random bytes, damaged schema JSON and timestamp text are fed to every reading entry point in watchdogged child processes and the recorded outcomes are trace-validated (Trace_Robust)",
  "The specification's reading functions are total (checked by TLC on all enumerated mutants); a real entry point must therefore return a result or an error for each of those inputs: panic, process death, time-out and allocation above 4 MiB + 4 KiB/byte are rejected. ~4,500 TLC-generated mutants (quick) through Codec.Read, Codec.Skip and ReadFile, every header/block framing varint x 15 replacements, truncations, flips, random strings, ~700 schema documents, ~900 timestamp strings.",
  "Trusted: TLC, harness child-process isolation (20 s watchdog, 8 GiB RLIMIT_AS), runtime.MemStats.TotalAlloc. 'All byte strings' is explored, not proved. Arrays of zero-byte items with huge counts are a listed known finding.",
  "DESIGN.md section 6 C06")
CLAIMED["C07"] = ("model_checking",
  "TLA+ ReaderDamage state machine (header/block/decompress/record/sync with damage and callback-failure environment actions; the defect cfg that holds the callback's error back behind the sync check must violate AtEnd) model-checked by TLC; ReadFile on bit-flipped, header-damaged and callback-failing runs trace-validated by TLC (Trace_Reader) with an independent decompressor as environment oracle",
  "TLC checks the C07 statement on the abstract reader for every file of <= 3 blocks x <= 2 records with any combination of rejected payloads, checksum mismatches, bad sync markers, five header variants and every callback failure index (222k states). Every recorded ReadFile run on real files is then judged: single-bit flips in every sync marker and snappy checksum and across compressed payloads (classified by compress/flate, snappy, crc32 called independently), header variants (missing codec = uncompressed must succeed), callback failing at each record index (error returned by identity, exactly i records delivered before).",
  "Trusted: TLC, harness/project.go, flate/snappy/crc32 as environment oracle. A flipped payload the independent decompressor still accepts imposes only no-panic and intact earlier blocks.",
  "DESIGN.md section 6 C07")
CLAIMED["C08"] = ("model_checking",
  "TLA+ AvroSystem (writer emits symbols, Crash(cut) at every position, reader on the prefix) model-checked by TLC; ReadFile on every prefix of real files trace-validated by TLC: expected delivery computed by Container/Trace_Reader!CutWalk from the file bytes",
  "TLC checks on the abstract system, for every history and every cut, that the reader delivers exactly the records of blocks whose payload is completely below the cut and succeeds iff the cut is at the end of the header or of a block. For 21 real files (3 codecs x 7 block layouts including a 70-record block = two-byte count and a 9000-byte record = three-byte length) every cut position (or every cut near a field boundary plus a stride for the large ones) is read with the real ReadFile through four reader kinds and judged by TLC.",
  "Trusted: TLC, harness/project.go. Files are produced by the library's writer and re-validated by the TLA+ container parser before use.",
  "DESIGN.md section 6 C08")
CLAIMED["C09"] = ("model_checking",
  "TLA+ AvroSystem writer invariants (gap-free, threshold, after-flush) and MirrorWriter (one FileWriter, several destinations: every destination a valid container; the marker-per-header defect cfg must violate it) model-checked by TLC; Encoder/FileWriter call histories trace-validated by the Trace_Encoder state machine (pend/sync/acc) after every call",
  "TLC checks the encoder design exhaustively (histories <= 3/4 ops, block sizes {0..5}, record sizes {0..3}, with faults and crashes: 258k / 1.4M states). Every history over {encode(size), flush} up to length 3 (5 thorough) x block sizes {0,1,2,3,5} x 3 codecs plus random histories up to 40 calls, a record type whose encoding is empty, and FileWriter used directly, is run against the real Encoder with a recording writer; after each call TLC demands exactly one block (exact count, payload = concatenation of the pending encodings via the decompression oracle, header's sync) when the buffered bytes reach the block size or flush has records pending, and no bytes otherwise.",
  "Trusted: TLC, flate/snappy/crc32 as decompression oracle.",
  "DESIGN.md section 6 C09")
CLAIMED["C16"] = ("model_checking",
  "TLA+ AvroSystem with WriteFail(k, accepted prefix) model-checked by TLC; every history re-run with the k-th writer call failing and trace-validated by Trace_Encoder (error wraps the injected error, accepted bytes are a prefix of the fault-free output modulo the sync marker)",
  "Fault enumeration over every writer call index k (sampled when a history has more than 6/40 calls) x accepted-prefix classes {0, 1, all-1} for every enumerated and random history and for FileWriter.WriteHeader/WriteBlock; TLC judges that the call in which the failure happens returns an error for which errors.Is(err, injected) holds, does not panic, and that all bytes accepted so far are a prefix of the same history's fault-free output with this run's sync marker.",
  "Trusted: TLC; the fault-free reference output is produced by the library in the same run and is itself judged as a C09 trace.",
  "DESIGN.md section 6 C16")

CLAIMED["C03"] = ("model_checking",
  "TLC proves on a bounded universe that the TLA+ reference decoder inverts every legal encoding (MC_Wire: all block compositions, size prefixes, null positions) and emits each (schema, datum, encoding) vector; the vectors are replayed through the real ReadFile into generated target types and TLC judges the delivered values with GoModel!Rep / Fits (Trace_Codec)",
  "The bytes fed to the reader are produced by the specification, not by the library: for every schema of the universe (all primitives, fixed, arrays/maps of them, nested collections, unions with null first and second, single- and multi-branch unions, records), every datum and every legal serialisation. The harness wraps them in containers with its own writer (3 codecs, several block partitions) and reads into 5 target variants (natural, int16, pointer indirection, null.* wrappers + float32, Go int + double pointers). TLC demands the datum's values, or an error when an integer does not fit the target width.",
  "Trusted: TLC, harness/project.go, harness/schema2go.go. The universe is bounded (803 vectors quick); enum is outside the supported subset.",
  "DESIGN.md section 6 C03")
CLAIMED["C04"] = ("model_checking",
  "Same vector machinery as C03 over wide and nested record schemas; targets obtained by deleting, permuting and adding fields at every depth; TLC judges projected values with GoModel!Rep (direction r) and that Codec.Read and Codec.Skip consume exactly the encoding (Trace_Codec!FailsLefts)",
  "For wide/nested records whose fields cover every kind followed by further fields (long, array, string, map, nullable union, fixed, bytes, nested record, array of records, nullable record), in unsized, sized and one-item-per-block encodings, the real reader decodes into the full target, the empty target, even/odd/first/last subsets, permuted targets with extra fields and seeded random subsets; remaining fields must hold the datum's values, extra fields must be zero, the file must be consumed completely; and for every vector of the general universe Read and Skip must each leave exactly the three guard bytes.",
  "Trusted: TLC, harness/project.go, harness/schema2go.go.",
  "DESIGN.md section 6 C04")

CLAIMED["C13"] = ("model_checking",
  "TLA+ reference decoder + GoModel!Rep (both directions) + LogicalTime big-number relation model-checked (MC_Wire, MC_Time); Codec.Write/Read of codecs built from caller-written schemas trace-validated by TLC under the caller's schema (Trace_Codec!FailsCS)",
  "For every (Go field type x caller schema) pair of the table (null first or second; int/long x int,int16,int32,int64; float/double x float32,float64; fixed; date/timestamp-millis/-micros/plain long/string x time.Time; null.* under each primitive; pointers) alone, as array item, map value and nested-record field, and seeded random records of 1-5 such fields: if the codec builds, TLC decodes the written bytes with the reference decoder under the caller's schema (nothing left over), demands they denote the value (branch, width, unit, content), that Read returns what the bytes denote and the original value, and that Skip consumes them.",
  "Trusted: TLC, harness/project.go. Values are generated inside the schema type's range (32-bit for int schemas, unit multiples and UTC for long-based times).",
  "DESIGN.md section 6 C13")
CLAIMED["C18"] = ("model_checking",
  "TLA+ ZoneCache (the parser's zone cache under an application that holds parsed times: HeldStable, AddOnly; the overwrite-in-place defect cfg must violate HeldStable) model-checked; TLA+ RFC 3339 grammar over byte sequences (TimeParse) model-checked against a reference formatter (MC_Time: parse(format(t)) on a civil-time grid, all fraction lengths/separators/offsets); every recorded parse of the real parser trace-validated (Trace_Codec!FailsTimeParse) with time.Parse logged as cross-check of the reference",
  "Every string of the grammar-directed grid and of the seeded random families is parsed by the real code through three entry points; TLC demands the same civil time and UTC offset as the TLA+ grammar (which must itself agree with time.Parse on every string it accepts, else exit 2), midnight UTC for date-only strings, identity for format-then-parse, and no panic for ~1,000 damaged strings.",
  "Trusted: TLC, harness/project.go (time.Time accessors). time.Parse is more lenient than RFC 3339 (one-digit hours, +24:00); such strings are outside the property's domain and only no-panic is demanded.",
  "DESIGN.md section 6 C18")
CLAIMED["C19"] = ("model_checking",
  "TLA+ LogicalTime relation (stored integer <-> instant in mixed radix with base-256 big numbers, MC_Time checks unit consistency) ; recorded DateCodec/LongCodec reads of stored integers and writes of times trace-validated by TLC (Trace_Codec!FailsCSRead / FailsCS)",
  "Read direction: boundary values, a stride across all int32 day counts and random longs over the int64-nanosecond-representable range are decoded under date / timestamp-millis / timestamp-micros / plain long and TLC demands exactly the instant days*86400 s, stored*10^6 ns, stored*10^3 ns, stored ns (UTC), including before 1970. Write direction: exact multiples must store exactly that integer; other instants floor or floor+1; reading the written bytes must give what they denote.",
  "Trusted: TLC, harness/project.go (Unix, Date, Clock). int32 day counts are strided + random, not exhaustive.",
  "DESIGN.md section 6 C19")

CLAIMED["C05"] = ("model_checking",
  "TLA+ type-soundness table (MC_Build: Compatible / Fits / Rep / Footprint coherent on every schema-kind x Go-kind pair) model-checked; every pair of the real 32 x 57 matrix built with Schema.Codec and, if built, decoded into a canary-surrounded field; TLC judges canaries and the stored value with GoModel!Rep (Trace_Codec!FailsBuild)",
  "The matrix of (schema type, Go kind) pairs is enumerated completely (14 Avro types with parameters x every Go kind incl. unsigned, complex, byte arrays of 0/1/3/4/8/16, maps with non-string keys, pointers, interface, chan, func, alone / behind pointers / in slices and maps). A pair either fails to build or each decode of independently written valid and damaged encodings (extreme longs included) leaves every canary byte, sibling field and neighbouring array element intact and the destination holding the datum as a value of its own type (bools 0/1 only); out-of-width integers must be errors.",
  "Trusted: TLC, harness/project.go; canary bytes are the sensor for stray stores (memory safety in general is outside TLA+). Values per pair are sampled.",
  "DESIGN.md section 6 C05")
CLAIMED["C10"] = ("model_checking",
  "TLA+ Bank (arenas, growth, string store, close/reuse; Disjoint, ZeroAtBirth, IntactUntilClosed) and BankPool (explicit holders, the pool as a bag; PoolOnce; the double-put defect cfg must violate Disjoint) model-checked; recorded bank operation sequences and retained-record reads trace-validated by the Trace_Bank state machine (live set + expected content hashes)",
  "TLC checks the bank design exhaustively (2 banks x 2 types, arenas growing 1-2-4, 8 operations). Real sequences of 60 (400) operations over up to 4 open banks through the public surface are replayed: every allocation must be zero, address ranges (rank-compressed) of live allocations of unclosed banks pairwise disjoint, contents unchanged except by their owner; and ReadFile runs with every record retained and banks closed in a seeded order while reading continues (also after a read the callback aborted, with payloads above 32 KiB, with few distinct strings and allocation-free records) are re-projected at checkpoints and compared with the values written; the identities of the banks held at the same time must be pairwise different (PoolOnce observed) and zone names of retained times must not change.",
  "Trusted: TLC, harness/project.go, unsafe reads of addresses and content hashes in harness/bank.go.",
  "DESIGN.md section 6 C10")
CLAIMED["C11"] = ("exploration",
  "TLA+ Heap model of the allocation mechanisms (typed vs untyped words, GC, reuse; GCSafe holds for the mechanisms in use and is violated for the untyped-word mechanism) + decode/encode under forced collections in child processes with GODEBUG=clobberfree=1, recorded values trace-validated by TLC (Trace_Codec!FailsGC, FailsGCWrite)",
  "Exploration with the Go runtime as sensor: 9 target shapes (maps and slices behind pointers, maps of maps / slices / pointers, same-size types with different pointer layouts in one record, pointers to registered types, a registered codec that forces collections in the middle of map iteration and between map entries) x 3 codecs x block layouts; collections + size-class churn in the callback, after the read, and inside decoding through the hook in ResourceBank.Alloc; the collector overwrites what it frees, so an untracked value is destroyed at the next cycle; TLC compares every re-projected value with the input and decodes what was written during concurrent collections.",
  "Trusted: the Go runtime's collector as sensor (TLA+ cannot observe it); TLC; harness/project.go. Level claimed: exploration.",
  "DESIGN.md section 6 C11")
CLAIMED["C12"] = ("model_checking",
  "TLA+ SharedCodec (a built codec is immutable: the error held from a failed decode stays the caller's own; the error-slot-in-codec defect cfg must violate HeldIsOwn) model-checked; PlusCal model of the three locks and the maps they protect (MutualExclusion, LookupSeesLatest, TzCanonical) and RWLockBuild (writer-preferring RWMutex x recursive builder x Register: deadlock-free, terminates; the hold-across-build defect cfg must deadlock) model-checked; gate enforcement through hooks inside the critical sections, -race stress with sequenced section events replayed against the lock model, and per-goroutine results judged by the sequential reference (Trace_Conc)",
  "TLC checks the lock design for 3 goroutines x 1 (2 thorough) operations. On the real code: (1) for each ordered pair of sections of one lock a goroutine is parked inside (blocked in the hook) and a second is sent to the other section; an arrival that the model forbids is a violation; (2) 10 (40) rounds of 12-32 goroutines re-parsing timestamps with shared zone offsets, distinct results judged; (3) 3 (20) race-detector runs of 8-16 goroutines with mixed workloads (shared codec, codec construction, registration, whole-file reads, banks closed on other goroutines): section enter/leave events sequenced inside the sections must be a behaviour of the lock model, every shared-codec round trip and timestamp must equal the sequential reference, and a race report whose access stack runs through the library is a violation; (4) gate experiments and a build-vs-Register probe have time limits (a deadlock is a violation), (5) bank-pool hammer in fast children after a very large record.",
  "Trusted: TLC, the Go race detector as sensor, harness/project.go. Interleavings are enforced at hook granularity and explored by stress, not enumerated at instruction level.",
  "DESIGN.md section 6 C12")
CLAIMED["C14"] = ("model_checking",
  "TLA+ SchemaJSON (abstract JSON tree <-> Schema) model-checked: Parse(v(Serialise(s))) = s for every schema of the universe and every variation (MC_Schema); TLC-chosen schemas rendered as text in random member orders/layouts/with unknown attributes, parsed by SchemaFromString, marshalled and read back by encoding/json; compared by TLC (Trace_Schema)",
  "For each of 28 (49) schemas (primitives, logical types on primitives and fixed, namespaces, enum, fixed, unions, nested records/collections, named references) 8 (60) renderings are parsed by the real parser; the parsed Schema must equal the schema TLC chose (type, name, namespace, logical type, fields in order, items, values, size, symbols, branches in order), its Marshal output must be valid JSON that denotes the same schema, and every proper prefix / trailing data / syntax damage of the canonical documents must be an error.",
  "Trusted: TLC, encoding/json as independent reader, harness renderer.",
  "DESIGN.md section 6 C14")
CLAIMED["C15"] = ("model_checking",
  "TLA+ SchemaGen!SchemaOf (the documented mapping as a total function, strict/natural modes for the kinds the statement leaves open) model-checked over all types of wrapper depth 2 (MC_SchemaGen); SchemaForType on compile-time and generated types trace-validated: result in {SchemaOf strict, natural}, deterministic, ValidAvro, codec built-or-error (Trace_Schema!FailsGen)",
  "29 compile-time types (all tag combinations, unexported, embedded value and pointer, four self-referential shapes in a child process, unsupported kinds, named primitives, registered types before and after RegisterSchema) and 250 (5000) seeded run-time types with odd kinds spliced in: outcome error exactly for inexpressible types, otherwise the record of the exported non-excluded fields in order under their JSON names typed by the mapping, equal for value and pointer arguments, no nested or repeated union branch, named types defined once, Schema.Codec builds or errors, Marshal gives valid JSON.",
  "Trusted: TLC, harness/project.go (type facts incl. the namespace rule). One struct type used in several positions is a listed known finding.",
  "DESIGN.md section 6 C15")
CLAIMED["C20"] = ("model_checking",
  "TLA+ registry state machine (MC_Registry: latest registration governs every occurrence and nothing else, earlier results unchanged) model-checked; registration histories with logging codecs on the real registries trace-validated: generated schema = SchemaGen!SchemaOf with the latest registered schemas, every logged codec call names the latest builder, calls per type = occurrences in the value, values round-trip (Trace_Schema!FailsReg)",
  "Histories (unregistered; registered; re-registered codecs; schema re-registered after schemas were generated; seeded further re-registrations) x holder values placing a named-string, a struct and a named-slice custom type as field, pointer, slice element, map value, omitempty (nullable union), nested field, slice of pointers, next to an unregistered named type. The custom codecs mark their bytes, so a built-in codec taking over an occurrence changes both the log and the wire.",
  "Trusted: TLC, harness/project.go, the logging codecs (harness code).",
  "DESIGN.md section 6 C20")

NOT_APPLICABLE = {}

def main():
    hooks_commits = []
    hp = os.path.join(ROOT, "hooks_commits.txt")
    if os.path.exists(hp):
        hooks_commits = [l.split()[0] for l in open(hp) if l.strip()]
    checks = []
    for pid in PROPS:
        if pid not in CLAIMED:
            continue
        cat, tech, text, note, ref = CLAIMED[pid]
        checks.append({
            "property_id": pid,
            "quick_cmd": "./bin/check %s --tier quick" % pid,
            "thorough_cmd": "./bin/check %s --tier thorough" % pid,
            "evidence_file": "/verif/evidence/%s.json" % pid,
            "replay_cmd_template": "./bin/check %s --replay {path}" % pid,
            "engine": "tlc-trace-validation",
            "level_claimed": {"category": cat, "text": text, "design_ref": ref},
            "level_note": note,
            "technique": tech,
        })
    na = []
    for pid in PROPS:
        if pid in CLAIMED:
            continue
        na.append({"property_id": pid, "reason": NOT_APPLICABLE.get(pid, "check not built yet in this session (construction order: DESIGN.md section 12); nothing is claimed for it")})
    m = {
        "version": 1,
        "setup_cmd": "./bin/setup",
        "hooks": {
            "guard": "verif",
            "enable": "harness is built with `go build -tags verif`; its go.mod replaces github.com/philpearl/avro with /repo, so every check rebuilds the library from /repo's working tree",
            "baseline_off_cmd": "cd /repo && go test -mod=mod -vet=off -count=1 ./...",
            "source_commits": hooks_commits,
            "add_only": True,
        },
        "engines": [
            {"name": "tlc-trace-validation", "path": "/verif/lib/vcheck.py", "serves_properties": sorted(CLAIMED),
             "kind_free_text": "TLA+ specification under /verif/spec; TLC as model checker (role A), behaviour generator (role B) and trace-validation judge (role C); Go harness under /verif/harness drives the real library and records ndjson traces"},
        ],
        "checks": checks,
        "notes": "All checks: exit 0 = held, exit 1 + VIOLATION line = the real code did something the specification forbids, exit 2 = infrastructure/specification failure (never a verdict). Known findings: /verif/known_findings.json.",
        "not_applicable": na,
    }
    json.dump(m, open(os.path.join(ROOT, "MANIFEST.json"), "w"), indent=1)
    print("MANIFEST.json: %d checks, %d not_applicable" % (len(checks), len(na)))

if __name__ == "__main__":
    main()
