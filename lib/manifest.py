#!/usr/bin/env python3
"""Regenerates MANIFEST.json from the table below (python3 lib/manifest.py)."""
import json
import os
import subprocess

ROOT = os.path.dirname(os.path.dirname(os.path.abspath(__file__)))
PROPS = [json.loads(l)["id"] for l in open(os.path.join(ROOT, "properties.jsonl"))]

# id -> (category, technique, level text, level note, design ref)
CLAIMED = {
 "C17": ("model_checking",
         "TLA+ bit-level varint/IEEE reference (AvroWire) model-checked by TLC; recorded codec calls trace-validated by TLC (Trace_Prim)",
         "TLC checks the varint layer of the specification exhaustively on all 16-bit values, a 4^8/5^8 grid of 64-bit values and all short byte strings; every recorded Write/Read/Skip of the public primitive codecs (all int16 in the thorough tier, boundaries of every varint length, random int32/int64/float patterns, candidate varints up to 12 bytes) is then judged by TLC against that reference.",
         "Trusted: TLC, the Json module, harness/project.go. int32 and float32 domains are boundary+random, not exhaustive (2^32 events are out of reach of TLC as judge).",
         "DESIGN.md section 6 C17"),
}

CLAIMED["C01"] = ("model_checking",
  "TLA+ AvroSystem (writer/crash/reader state machine) and AvroWire theorems model-checked by TLC; recorded encode->ReadFile round trips trace-validated by TLC against GoModel!SameValue (Trace_Codec)",
  "TLC checks on the abstract writer->bytes->reader system that, for every call history, block size and record size within the bounds, the reader delivers exactly the encoded records in order, and on the byte-level reference that decoding inverts every legal encoding. Every recorded round trip of the real code (8 compile-time types through Encoder[T], seeded random reflect.StructOf types through SchemaForType+Codec+FileWriter, three codecs, block sizes 0..2^20, flush patterns, four reader kinds, value and pointer targets, one witness per nullable/pointer/collection shape) is then judged by TLC: same count, same order, equal up to the documented normalisations, checked in the callback and again after the whole read.",
  "Trusted: TLC, Json module, harness/project.go. Type and value spaces are sampled by a seeded generator (VERIF_SEED), not enumerated.",
  "DESIGN.md section 6 C01")
CLAIMED["C02"] = ("model_checking",
  "TLA+ reference decoder written from the Avro 1.8 specification (AvroWire, Container) model-checked by TLC; the bytes the encoder produced are parsed and decoded by TLC alone and compared with the inputs through GoModel!Rep (Trace_Codec)",
  "The oracle is the TLA+ container parser and binary decoder, which see only the output bytes and the embedded schema (parsed by encoding/json, not by the library): magic, metadata (schema, codec), sync markers, per-block count and byte length exact, payload decodes to exactly count datums with nothing left over, each datum is the value written with nil pointer / invalid null.* / zero omitempty scalar in the null branch and everything else in the non-null branch.",
  "Trusted: TLC, Json module, harness/project.go, and compress/flate + golang/snappy + hash/crc32 as the environment's decompression oracle (TLA+ does not interpret compressed bytes). The text of time.Time strings is not yet compared with the instant (only that a string was written).",
  "DESIGN.md section 6 C02")

NOT_APPLICABLE = {}

def main():
    hooks_commits = []
    hp = os.path.join(ROOT, "hooks_commits.txt")
    if os.path.exists(hp):
        hooks_commits = [l.split()[0] for l in open(hp) if l.strip()]
    checks = []
    for pid in PROPS:
        if pid not in CLAIMED:
            continue
        cat, tech, text, note, ref = CLAIMED[pid]
        checks.append({
            "property_id": pid,
            "quick_cmd": "./bin/check %s --tier quick" % pid,
            "thorough_cmd": "./bin/check %s --tier thorough" % pid,
            "evidence_file": "/verif/evidence/%s.json" % pid,
            "replay_cmd_template": "./bin/check %s --replay {path}" % pid,
            "engine": "tlc-trace-validation",
            "level_claimed": {"category": cat, "text": text, "design_ref": ref},
            "level_note": note,
            "technique": tech,
        })
    na = []
    for pid in PROPS:
        if pid in CLAIMED:
            continue
        na.append({"property_id": pid, "reason": NOT_APPLICABLE.get(pid, "check not built yet in this session (construction order: DESIGN.md section 12); nothing is claimed for it")})
    m = {
        "version": 1,
        "setup_cmd": "./bin/setup",
        "hooks": {
            "guard": "verif",
            "enable": "harness is built with `go build -tags verif`; its go.mod replaces github.com/philpearl/avro with /repo, so every check rebuilds the library from /repo's working tree",
            "baseline_off_cmd": "cd /repo && go test -mod=mod -vet=off -count=1 ./...",
            "source_commits": hooks_commits,
            "add_only": True,
        },
        "engines": [
            {"name": "tlc-trace-validation", "path": "/verif/lib/vcheck.py", "serves_properties": sorted(CLAIMED),
             "kind_free_text": "TLA+ specification under /verif/spec; TLC as model checker (role A), behaviour generator (role B) and trace-validation judge (role C); Go harness under /verif/harness drives the real library and records ndjson traces"},
        ],
        "checks": checks,
        "notes": "All checks: exit 0 = held, exit 1 + VIOLATION line = the real code did something the specification forbids, exit 2 = infrastructure/specification failure (never a verdict). Known findings: /verif/known_findings.json.",
        "not_applicable": na,
    }
    json.dump(m, open(os.path.join(ROOT, "MANIFEST.json"), "w"), indent=1)
    print("MANIFEST.json: %d checks, %d not_applicable" % (len(checks), len(na)))

if __name__ == "__main__":
    main()
