#!/bin/sh
# usage: repo_commit.sh <message-file>   -- runs the baseline (guard off) and commits /repo only if it passes
set -e
cd /repo
test -z "$(gofmt -l .)" || { echo "gofmt:"; gofmt -l .; exit 1; }
go test -mod=mod -vet=off -count=1 ./... > /var/tmp/baseline.log 2>&1 || { tail -30 /var/tmp/baseline.log; echo BASELINE FAILED; exit 1; }
n=$(go test -mod=mod -vet=off -count=1 -json ./... 2>/dev/null | grep -c '"Action":"pass","Package":"[^"]*","Test"')
echo "baseline passed ($n test passes)"
git add -A && git commit -q -F "$1" && git log --oneline | head -1
