#!/usr/bin/env python3
"""Self-test of the checks: every seeded change under /verif/seeded and every fix commit reverse-applied must be
reported as a VIOLATION by the check(s) named in its meta.json / the fixed list, and /repo must be clean afterwards.

  python3 lib/selftest.py [--only <substring>] [--fixes] [--seeded]

Writes /verif/selftest_result.json. Applies patches to /repo and always restores it; do not edit /repo, /verif/spec or
/verif/harness while it runs."""
import json, os, re, subprocess, sys, glob, time

ROOT = os.path.dirname(os.path.dirname(os.path.abspath(__file__)))
ENV = dict(os.environ, GOFLAGS="-mod=mod", GOPROXY="off", GOPRIVATE="*")
REPO = os.environ.get("VERIF_REPO", "/repo")   # a scratch worktree of /repo when the self-test runs beside other work

# fixes whose reversal no longer changes behaviour because a later fix covers the same path
SUBSUMED = {"8503718": "reversal is harmless since 4949316: MapCodec.Read allocates the value itself when the value codec's New returns nil"}


def sh(cmd, cwd=None, timeout=7200):
    p = subprocess.run(cmd, shell=True, cwd=cwd, env=ENV, capture_output=True, text=True, timeout=timeout)
    return p.returncode, p.stdout + p.stderr

def clean():
    rc, out = sh("git -C %s status --porcelain" % REPO)
    return out.strip() == ""

def run_checks(ids):
    res = {}
    for i in ids:
        t0 = time.time()
        rc, out = sh("./bin/check %s --tier quick" % i, cwd=ROOT)
        res[i] = dict(rc=rc, violations=len([l for l in out.splitlines() if l.startswith("VIOLATION")]), wall=round(time.time() - t0, 1))
    return res

def main():
    only = None
    if "--only" in sys.argv:
        only = sys.argv[sys.argv.index("--only") + 1]
    do_fix = "--fixes" in sys.argv or "--seeded" not in sys.argv
    do_seed = "--seeded" in sys.argv or "--fixes" not in sys.argv
    assert clean(), "/repo is not clean"
    part = os.environ.get("SELFTEST_PART", "0/1")   # "i/n": only the items whose running index is i modulo n (parallel runs on separate worktrees)
    pi, pn = [int(x) for x in part.split("/")]
    counter = [0]

    def mine():
        counter[0] += 1
        return (counter[0] - 1) % pn == pi
    import shutil, tempfile
    bak = tempfile.mkdtemp(prefix="evbak-", dir="/var/tmp")
    shutil.copytree(os.path.join(ROOT, "evidence"), os.path.join(bak, "evidence"))
    results = []
    if do_seed:
        for d in sorted(glob.glob(os.path.join(ROOT, "seeded", "*"))):
            name = os.path.basename(d)
            if only and only not in name:
                continue
            if not mine():
                continue
            m = json.load(open(os.path.join(d, "meta.json")))
            ids = m.get("detected_by") or [m["property"]]
            rc, out = sh("git -C %s apply %s" % (REPO, os.path.join(d, "patch.diff")))
            if rc != 0:
                results.append(dict(kind="seeded", name=name, error="patch does not apply: " + out[-200:]))
                continue
            try:
                r = run_checks(ids)
            finally:
                sh("git -C %s checkout -- . && git -C %s clean -fdq" % (REPO, REPO))
            ok = all(v["rc"] == 1 for v in r.values())
            if m.get("undetected"):
                # a documented gap: kept in the collection, expected to pass unnoticed (a detection would be news)
                results.append(dict(kind="seeded", name=name, checks=r, detected=True, documented_gap=True, now_detected=ok))
                print("%-55s %s %s" % (name, "GAP (documented)" + (" -- now detected!" if ok else ""), {k: v["rc"] for k, v in r.items()}), flush=True)
                continue
            results.append(dict(kind="seeded", name=name, checks=r, detected=ok))
            print("%-55s %s %s" % (name, "DETECTED" if ok else "MISSED  ", {k: v["rc"] for k, v in r.items()}), flush=True)
    if do_fix:
        k = json.load(open(os.path.join(ROOT, "known_findings.json")))
        for line in k.get("fixed", []):
            mm = re.match(r"fixed: property=(C\d+) ([0-9a-f]{7,}) (.*)", line)
            if not mm:
                continue
            prop, commit, what = mm.groups()
            if commit in SUBSUMED:
                results.append(dict(kind="fix", name=commit, property=prop, detected=True, subsumed=SUBSUMED[commit]))
                print("%-55s %s" % (commit + " " + prop, "SUBSUMED: " + SUBSUMED[commit]), flush=True)
                continue
            if only and only not in commit and only not in prop:
                continue
            if not mine():
                continue
            rc, out = sh("git -C %s show %s -- . ':!*_test.go' | git -C %s apply -R" % (REPO, commit, REPO))
            if rc != 0:
                results.append(dict(kind="fix", name=commit, property=prop, error="cannot reverse-apply (later commits touch the same lines): " + out[-200:]))
                print("%-55s %s" % (commit + " " + prop, "NOT-REVERSIBLE"), flush=True)
                continue
            try:
                r = run_checks([prop])
            finally:
                sh("git -C %s checkout -- . && git -C %s clean -fdq" % (REPO, REPO))
            ok = all(v["rc"] == 1 for v in r.values())
            results.append(dict(kind="fix", name=commit, property=prop, what=what[:120], checks=r, detected=ok))
            print("%-55s %s %s" % (commit + " " + prop, "DETECTED" if ok else "MISSED  ", {k: v["rc"] for k, v in r.items()}), flush=True)
    assert clean(), "/repo was left dirty"
    shutil.rmtree(os.path.join(ROOT, "evidence"), ignore_errors=True)
    shutil.copytree(os.path.join(bak, "evidence"), os.path.join(ROOT, "evidence"))
    shutil.rmtree(bak, ignore_errors=True)
    json.dump(dict(at=time.strftime("%Y-%m-%dT%H:%M:%S"), results=results), open(os.path.join(ROOT, "selftest_result.json" if pn == 1 else "selftest_result.%d.json" % pi), "w"), indent=1)
    missed = [r for r in results if not r.get("detected")]
    print("%d cases, %d not detected" % (len(results), len(missed)))
    return 1 if missed else 0

if __name__ == "__main__":
    sys.exit(main())
