package main

// C18: timestamp text through the exported time StringCodec (directly, through a
// time.Time record field and through a null.Time field). time.Parse is logged
// as a cross-check of the TLA+ reference (a disagreement between the two is a
// specification bug, exit 2), never as the judge.

import (
	"fmt"
	"reflect"
	"strings"
	"time"
	"unsafe"

	"github.com/philpearl/avro"
	avrotime "github.com/philpearl/avro/time"
	"github.com/unravelin/null/v5"
)

func init() { drivers["C18"] = driveC18 }

type timeRec struct {
	T  time.Time `json:"t"`
	NT null.Time `json:"nt"`
}

// one backing array and one ReadBuf used over and over (what ReadFile does with its block buffer): text the
// parser keeps a reference to changes under its feet
var (
	reuseBacking = make([]byte, 256)
	reuseBuf     = avro.NewReadBuf(nil)
)

func parseVia(via string, s string) (t time.Time, outcome string) {
	w := avro.NewWriteBuf(nil)
	switch via {
	case "reused":
		w.Varint(int64(len(s)))
		w.Write([]byte(s))
		n := copy(reuseBacking, w.Bytes())
		reuseBuf.Reset(reuseBacking[:n])
		outcome, _ = safeCall(func() error { return avrotime.StringCodec{}.Read(reuseBuf, unsafe.Pointer(&t)) })
		return
	case "codec":
		w.Varint(int64(len(s)))
		w.Write([]byte(s))
		r := avro.NewReadBuf(w.Bytes())
		defer r.ExtractResourceBank().Close()
		outcome, _ = safeCall(func() error { return avrotime.StringCodec{}.Read(r, unsafe.Pointer(&t)) })
		return
	default:
		sch, err := avro.SchemaFromString(`{"type":"record","name":"T","fields":[{"name":"t","type":"string"},{"name":"nt","type":["null","string"]}]}`)
		if err != nil {
			return t, "harness"
		}
		var rec timeRec
		codec, err := sch.Codec(&rec)
		if err != nil {
			return t, "harness"
		}
		if via == "record" {
			w.Varint(int64(len(s)))
			w.Write([]byte(s))
			w.Varint(0)
		} else {
			w.Varint(int64(len("2000-01-01")))
			w.Write([]byte("2000-01-01"))
			w.Varint(1)
			w.Varint(int64(len(s)))
			w.Write([]byte(s))
		}
		r := avro.NewReadBuf(w.Bytes())
		defer r.ExtractResourceBank().Close()
		outcome, _ = safeCall(func() error { return codec.Read(r, unsafe.Pointer(&rec)) })
		if via == "record" {
			return rec.T, outcome
		}
		return rec.NT.Time, outcome
	}
}

func emitTimeParse(c *driverCtx, class, s string) {
	var std time.Time
	var err error
	if len(s) == 10 {
		std, err = time.Parse("2006-01-02", s)
	} else {
		std, err = time.Parse(time.RFC3339, s)
	}
	for i, via := range []string{"codec", "record", "nulltime", "reused"} {
		if via == "reused" && len(s) > 200 {
			continue
		}
		if i > 0 && via != "reused" && !strings.HasPrefix(class, "grid") && c.rng.Intn(3) > 0 {
			continue
		}
		if len(s) == 0 && via != "codec" {
			continue
		}
		t, out := parseVia(via, s)
		c.rec.NewCase()
		c.rec.Emit("C18|"+class+"|"+via, map[string]any{"op": "time_parse", "s": byteList([]byte(s)), "text": s, "out": out, "t": timeNode(t),
			"std_ok": err == nil, "std": timeNode(std)})
	}
}

func fracString(ns, k int, sep byte) string {
	if k == 0 {
		return ""
	}
	d := fmt.Sprintf("%09d", ns)
	for len(d) < k {
		d += "7"
	}
	return string(sep) + d[:k]
}

func zoneString(off int) string {
	if off == 0 {
		return "Z"
	}
	sign := byte('+')
	if off < 0 {
		sign, off = '-', -off
	}
	return fmt.Sprintf("%c%02d:%02d", sign, off/3600, off/60%60)
}

func init() {
	drivers["C18TZ"] = driveC18 // the same driver in a process whose TZ names a zone with daylight saving (set by the check)
}

func driveC18(c *driverCtx) error {
	// process history first: offsets outside the usual range (minutes and hours a lenient parser lets through) are
	// parsed BEFORE the valid timestamps, so that whatever they leave behind in caches is there when those arrive
	for _, z := range []string{"+00:64", "-04:94", "+23:99", "+99:99", "-00:60", "+24:00", "+01:60", "-12:75", "+14:00", "-11:59", "+00:01", "-00:01"} {
		emitTimeParse(c, "prelude|odd-offset", "2006-01-02T13:37:42"+z)
	}
	// grammar-directed grid
	years := []int{0, 1, 1600, 1900, 1969, 1970, 2000, 2024, 2100, 2200, 2400, 9999} // century years: leap-year rules
	months := []int{1, 2, 6, 12}
	offs := []int{0, 60, -60, 3600, 30060, -30060, 50400, -43200, 86340, -86340, -14400, -18000, 37800, 39600, 7200} // incl. both offsets of the zones the TZ pass runs in
	nanos := []int{0, 1, 326000000, 326876123, 999999999, 100000000}
	n := 0
	for _, y := range years {
		for _, mo := range months {
			for _, dsel := range []int{1, 31} {
				d := dsel
				if d == 31 {
					d = time.Date(y, time.Month(mo)+1, 0, 0, 0, 0, 0, time.UTC).Day()
				}
				emitTimeParse(c, "grid-date", fmt.Sprintf("%04d-%02d-%02d", y, mo, d))
				for _, h := range []int{0, 23} {
					for _, k := range []int{0, 1, 3, 6, 9, 10, 12, 40, 70} {
						n++
						if !c.thorough() && n%3 != 0 {
							continue
						}
						q := n / 3 // (n itself is a multiple of 3 in the quick tier: it would only ever reach a third of the lists)
						ns := nanos[q%len(nanos)]
						off := offs[q%len(offs)]
						sep := []byte{'.', ','}[n%2]
						s := fmt.Sprintf("%04d-%02d-%02dT%02d:%02d:%02d%s%s", y, mo, d, h, (n*7)%60, 59-(n*11)%60, fracString(ns, k, sep), zoneString(off))
						emitTimeParse(c, fmt.Sprintf("grid|frac%d", k), s)
					}
				}
			}
		}
	}
	// format / parse identity on random times (nanosecond precision, whole-minute offsets, years 0000-9999)
	for i := 0; i < c.pick(600, 250000); i++ {
		t := genTime(c.rng)
		if i%7 == 0 {
			t = time.Date(c.rng.Intn(10000), time.Month(1+c.rng.Intn(12)), 1+c.rng.Intn(28), c.rng.Intn(24), c.rng.Intn(60), c.rng.Intn(60), c.rng.Intn(1e9), time.UTC)
		}
		w := avro.NewWriteBuf(nil)
		p := catch(func() { avrotime.StringCodec{}.Write(w, unsafe.Pointer(&t)) })
		var back time.Time
		out := "panic"
		if p == "" {
			r := avro.NewReadBuf(w.Bytes())
			out, _ = safeCall(func() error { return avrotime.StringCodec{}.Read(r, unsafe.Pointer(&back)) })
			r.ExtractResourceBank().Close()
		}
		c.rec.NewCase()
		c.rec.Emit("C18|format-parse", map[string]any{"op": "time_roundtrip", "t": timeNode(t), "bytes": byteList(w.Bytes()), "out": out, "back": timeNode(back)})
		// the same instant written with other fraction lengths
		base := t.Format("2006-01-02T15:04:05")
		_, off := t.Zone()
		emitTimeParse(c, "random-valid", base+fracString(t.Nanosecond(), c.rng.Intn(13), []byte{'.', ','}[i%2])+zoneString(off))
	}
	// other strings: only "an error or a time, never a panic"
	good := []string{"2006-01-02T13:37:42Z", "2006-01-02T13:37:42.326+08:00", "2006-01-02T13:37:42,326876123Z", "2021-09-30", "0000-01-01T00:00:00.5-23:59"}
	for _, g := range good {
		for cut := 0; cut < len(g); cut++ {
			emitTimeParse(c, "invalid|trunc", g[:cut])
			emitTimeParse(c, "invalid|drop", g[:cut]+g[cut+1:])
			for _, ch := range []byte(".,Z+-:T9a \xff") {
				b := []byte(g)
				b[cut] = ch
				emitTimeParse(c, "invalid|subst", string(b))
			}
		}
		for _, suf := range []string{".", ",", ".Z", "..", "+", "-", "+0", "+08:", "Z.", ".+08:00", "z", "+24:00", "+08:60"} {
			emitTimeParse(c, "invalid|suffix", g+suf)
			if len(g) >= 19 {
				emitTimeParse(c, "invalid|suffix19", g[:19]+suf)
			}
		}
	}
	for _, s := range []string{"2006-13-02T13:37:42Z", "2006-02-30T13:37:42Z", "2006-01-02T24:00:00Z", "2006-01-02T13:60:42Z", "2006-01-02T13:37:60Z", "2006-01-02t13:37:42Z",
		"2006-00-10", "2006-01-00", "2023-02-29", "2024-02-29", "2024-02-29T00:00:00Z", "1900-02-29T00:00:00Z", "2000-02-29T00:00:00Z"} {
		emitTimeParse(c, "invalid|range", s)
	}
	// sequences of equally long timestamps with changing zone offsets, decoded one after the other out of the same
	// backing array (what ReadFile does from block to block): anything the parser remembers about the previous
	// timestamp must not depend on bytes that have been overwritten since
	seqOffs := []int{8 * 3600, -5 * 3600, 3600, 8 * 3600, -1800, 1800, 0, 5*3600 + 45*60, -(9*3600 + 30*60), 8 * 3600,
		2 * 3600, 3 * 3600, -3 * 3600, 4*3600 + 30*60, -7 * 3600, 9 * 3600, 10 * 3600, -10 * 3600, 11 * 3600, 12 * 3600, -11 * 3600, 13 * 3600, 6 * 3600, -6 * 3600, 8 * 3600, -5 * 3600}
	for round := 0; round < c.pick(6, 60); round++ {
		k := []int{0, 3, 9, 6, 1, 12}[round%6]
		for i := 0; i < 60; i++ {
			off := seqOffs[c.rng.Intn(len(seqOffs))]
			if off == 0 {
				off = 7200 // keep the length (and so the position of the zone text) constant within a round
			}
			s := fmt.Sprintf("%04d-%02d-%02dT%02d:%02d:%02d%s%s", 1990+c.rng.Intn(60), 1+c.rng.Intn(12), 1+c.rng.Intn(28), c.rng.Intn(24), c.rng.Intn(60), c.rng.Intn(60),
				fracString(c.rng.Intn(1000000000), k, '.'), zoneString(off))
			std, err := time.Parse(time.RFC3339, s)
			t, out := parseVia("reused", s)
			c.rec.NewCase()
			c.rec.Emit(fmt.Sprintf("C18|reused-sequence|frac%d", k), map[string]any{"op": "time_parse", "s": byteList([]byte(s)), "text": s, "out": out, "t": timeNode(t),
				"std_ok": err == nil, "std": timeNode(std)})
		}
	}
	// ... and a long run over (nearly) every minute offset there is, again out of the one reused backing array: caches
	// keyed by anything that points into the caller's buffer fall apart when they have to grow
	{
		perm := c.rng.Perm(28*60 + 1)
		nrun := c.pick(1200, 2*len(perm))
		type heldTime struct {
			s   string
			t   time.Time
			out string
		}
		var held []heldTime
		for i := 0; i < nrun; i++ {
			off := (perm[i%len(perm)] - 14*60) * 60
			if off == 0 {
				off = 60
			}
			s := fmt.Sprintf("2021-%02d-%02dT%02d:%02d:%02d%s", 1+i%12, 1+i%28, i%24, i%60, (i*7)%60, zoneString(off))
			std, err := time.Parse(time.RFC3339, s)
			t, out := parseVia("reused", s)
			c.rec.NewCase()
			c.rec.Emit("C18|reused-sequence|all-offsets", map[string]any{"op": "time_parse", "s": byteList([]byte(s)), "text": s, "out": out, "t": timeNode(t),
				"std_ok": err == nil, "std": timeNode(std)})
			held = append(held, heldTime{s, t, out})
		}
		// the application still holds every one of those times: looked at again now, each is what it was
		for i, h := range held {
			if !c.thorough() && i%3 != 0 {
				continue
			}
			std, err := time.Parse(time.RFC3339, h.s)
			c.rec.NewCase()
			c.rec.Emit("C18|reused-sequence|held", map[string]any{"op": "time_parse", "s": byteList([]byte(h.s)), "text": h.s, "out": h.out, "t": timeNode(h.t),
				"std_ok": err == nil, "std": timeNode(std)})
		}
	}
	_ = reflect.TypeOf
	return nil
}
