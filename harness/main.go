package main

// Harness entry point. The harness drives the real library and records what
// happened; it never decides whether a result is right (TLC does, from the
// specification under /verif/spec).
//
//	harness -prop C17 -tier quick -seed 1 -out DIR [-shards 16] [-cases FILE]

import (
	"flag"
	"fmt"
	"math/rand"
	"os"
	"sort"
)

type driverCtx struct {
	rec   *Recorder
	rng   *rand.Rand
	seed  int64
	tier  string
	cases string // optional TLC-generated cases (ndjson)
	extra map[string]any
	args  []string
}

func (c *driverCtx) thorough() bool { return c.tier == "thorough" }

// pick returns q for the quick tier and t for the thorough tier.
func (c *driverCtx) pick(q, t int) int {
	if c.thorough() {
		return t
	}
	return q
}

var drivers = map[string]func(*driverCtx) error{}

func main() {
	prop := flag.String("prop", "", "driver to run")
	tier := flag.String("tier", "quick", "quick|thorough")
	seed := flag.Int64("seed", 1, "seed for every random choice")
	out := flag.String("out", "", "output directory")
	shards := flag.Int("shards", 16, "number of trace shards")
	cases := flag.String("cases", "", "TLC-generated cases (ndjson)")
	child := flag.String("child", "", "internal: run one isolated child task")
	flag.Parse()

	if *child != "" {
		os.Exit(runChild(*child, flag.Args()))
	}

	d, ok := drivers[*prop]
	if !ok {
		names := make([]string, 0, len(drivers))
		for k := range drivers {
			names = append(names, k)
		}
		sort.Strings(names)
		fmt.Fprintf(os.Stderr, "unknown driver %q; have %v\n", *prop, names)
		os.Exit(2)
	}
	rec, err := NewRecorder(*out, *shards)
	if err != nil {
		fmt.Fprintln(os.Stderr, err)
		os.Exit(2)
	}
	ctx := &driverCtx{rec: rec, rng: rand.New(rand.NewSource(*seed)), seed: *seed, tier: *tier, cases: *cases, extra: map[string]any{}, args: flag.Args()}
	if err := d(ctx); err != nil {
		fmt.Fprintln(os.Stderr, "driver failed:", err)
		os.Exit(2)
	}
	if err := rec.Close(ctx.extra); err != nil {
		fmt.Fprintln(os.Stderr, err)
		os.Exit(2)
	}
}

// children: isolated tasks whose crash must not take the harness down
var children = map[string]func(args []string) int{}

func runChild(name string, args []string) int {
	f, ok := children[name]
	if !ok {
		fmt.Fprintf(os.Stderr, "unknown child %q\n", name)
		return 2
	}
	return f(args)
}

func newRand(seed int64) *rand.Rand { return rand.New(rand.NewSource(seed)) }
