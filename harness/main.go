package main

// Harness entry point. The harness drives the real library and records what
// happened; it never decides whether a result is right (TLC does, from the
// specification under /verif/spec).
//
//	harness -prop C17 -tier quick -seed 1 -out DIR [-shards 16] [-cases FILE]

import (
	"bytes"
	"encoding/json"
	"flag"
	"fmt"
	"math/rand"
	"os"
	"os/exec"
	"path/filepath"
	"sort"
	"strings"
)

type driverCtx struct {
	rec   *Recorder
	rng   *rand.Rand
	seed  int64
	tier  string
	cases string // optional TLC-generated cases (ndjson)
	extra map[string]any
	args  []string
}

func (c *driverCtx) thorough() bool { return c.tier == "thorough" }

// pick returns q for the quick tier and t for the thorough tier.
func (c *driverCtx) pick(q, t int) int {
	if c.thorough() {
		return t
	}
	return q
}

var drivers = map[string]func(*driverCtx) error{}

func main() {
	prop := flag.String("prop", "", "driver to run")
	tier := flag.String("tier", "quick", "quick|thorough")
	seed := flag.Int64("seed", 1, "seed for every random choice")
	out := flag.String("out", "", "output directory")
	shards := flag.Int("shards", 16, "number of trace shards")
	cases := flag.String("cases", "", "TLC-generated cases (ndjson)")
	child := flag.String("child", "", "internal: run one isolated child task")
	noIsolate := flag.Bool("noisolate", false, "internal: run the driver in this process")
	flag.Parse()

	if *child != "" {
		os.Exit(runChild(*child, flag.Args()))
	}

	// Drivers that decode into Go memory run in a child process: if the library corrupts memory the Go runtime
	// kills the process (fatal error, SIGSEGV in the collector, ...), and that death is then recorded as an
	// observation of the open run instead of taking the harness down with it.
	if isolatedProps[*prop] && !*noIsolate {
		os.Exit(runIsolatedDriver(*prop, *tier, *seed, *out, *shards, *cases))
	}
	d, ok := drivers[*prop]
	if !ok {
		names := make([]string, 0, len(drivers))
		for k := range drivers {
			names = append(names, k)
		}
		sort.Strings(names)
		fmt.Fprintf(os.Stderr, "unknown driver %q; have %v\n", *prop, names)
		os.Exit(2)
	}
	rec, err := NewRecorder(*out, *shards)
	if err != nil {
		fmt.Fprintln(os.Stderr, err)
		os.Exit(2)
	}
	ctx := &driverCtx{rec: rec, rng: rand.New(rand.NewSource(*seed)), seed: *seed, tier: *tier, cases: *cases, extra: map[string]any{}, args: flag.Args()}
	if err := d(ctx); err != nil {
		fmt.Fprintln(os.Stderr, "driver failed:", err)
		os.Exit(2)
	}
	if err := rec.Close(ctx.extra); err != nil {
		fmt.Fprintln(os.Stderr, err)
		os.Exit(2)
	}
}

var isolatedProps = map[string]bool{"C01": true, "C03": true, "C04": true, "C05": true, "C10": true, "C13": true, "C19": true, "C20": true}

// runIsolatedDriver runs the driver in a child. Exit status 0 of the child: nothing to add. A death whose
// report points into the library or the runtime's memory management: the partial trace is kept (cut at the
// last complete line of every shard), a driver_crash event is appended and meta.json is written, so that the
// judge sees the crash. Anything else (a panic in harness code, exit 2) stays an infrastructure failure.
func runIsolatedDriver(prop, tier string, seed int64, out string, shards int, cases string) int {
	self, _ := os.Executable()
	args := []string{"-noisolate", "-prop", prop, "-tier", tier, "-seed", fmt.Sprint(seed), "-out", out, "-shards", fmt.Sprint(shards)}
	if cases != "" {
		args = append(args, "-cases", cases)
	}
	cmd := exec.Command(self, args...)
	var stderr bytes.Buffer
	cmd.Stderr = &stderr
	cmd.Stdout = os.Stdout
	cmd.Env = append(os.Environ(), "GOTRACEBACK=single")
	err := cmd.Run()
	if err == nil {
		return 0
	}
	report := stderr.String()
	os.Stderr.WriteString(report)
	if !libraryAttributableCrash(report) {
		return 2
	}
	// keep the complete lines of every shard
	files, _ := filepath.Glob(filepath.Join(out, "trace-*.ndjson"))
	total := 0
	for _, f := range files {
		b, err := os.ReadFile(f)
		if err != nil {
			continue
		}
		if i := bytes.LastIndexByte(b, '\n'); i >= 0 {
			b = b[:i+1]
		} else {
			b = nil
		}
		total += bytes.Count(b, []byte{'\n'})
		os.WriteFile(f, b, 0o644)
	}
	if len(report) > 1500 {
		report = report[:1500]
	}
	ev, _ := json.Marshal(map[string]any{"op": "driver_crash", "key": prop + "|crash", "seq": total, "detail": report})
	f, ferr := os.OpenFile(filepath.Join(out, "trace-00.ndjson"), os.O_APPEND|os.O_CREATE|os.O_WRONLY, 0o644)
	if ferr != nil {
		return 2
	}
	f.Write(append(ev, '\n'))
	f.Close()
	meta, _ := json.MarshalIndent(map[string]any{"events": total + 1, "distinct_keys": 2, "realised": map[string]int{}, "samples": []any{json.RawMessage(ev)},
		"driver_crashed": true}, "", " ")
	os.WriteFile(filepath.Join(out, "meta.json"), meta, 0o644)
	return 0
}

// libraryAttributableCrash: the process was killed by the Go runtime because of corrupted or misused memory
// (or a fatal error raised from library frames), as opposed to an ordinary panic in harness code.
func libraryAttributableCrash(report string) bool {
	for _, marker := range []string{"fatal error: found bad pointer", "fatal error: unexpected signal", "unexpected fault address", "fatal error: fault",
		"runtime: pointer", "found pointer to free object", "fatal error: sweep", "fatal error: heap", "fatal error: bad", "fatal error: invalid",
		"fatal error: concurrent map", "fatal error: stack overflow", "fatal error: out of memory", "fatal error: runtime", "SIGSEGV", "SIGBUS",
		"checkptr", "fatal error: markBits", "fatal error: workbuf", "fatal error: scanobject", "fatal error: greyobject", "span has no free"} {
		if strings.Contains(report, marker) {
			return true
		}
	}
	// an unrecovered panic: attributable only if its first non-runtime frame is library code
	if i := strings.Index(report, "goroutine "); i >= 0 && strings.HasPrefix(strings.TrimSpace(report), "panic:") {
		return panicOrigin("panic(\n"+report[i:]) == "lib" && strings.Contains(report[i:], "github.com/philpearl/avro")
	}
	return false
}

// children: isolated tasks whose crash must not take the harness down
var children = map[string]func(args []string) int{}

func runChild(name string, args []string) int {
	f, ok := children[name]
	if !ok {
		fmt.Fprintf(os.Stderr, "unknown child %q\n", name)
		return 2
	}
	return f(args)
}

func newRand(seed int64) *rand.Rand { return rand.New(rand.NewSource(seed)) }
