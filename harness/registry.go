package main

// C20: registered custom codecs. Harness-defined types (named string, struct,
// named slice) with logging codecs are registered, re-registered and used in
// every position of a struct type tree; which codec ran for which occurrence,
// the generated schema and the round-tripped values are recorded. Judged by
// spec/Trace_Schema.tla (reg_use) against spec/SchemaGen.tla (registered
// schema at exactly the occurrences of the type, latest registration wins).

import (
	"encoding/hex"
	"fmt"
	"reflect"
	"strings"
	"time"
	"unsafe"

	"github.com/philpearl/avro"
	avronull "github.com/philpearl/avro/null"
	avrotime "github.com/philpearl/avro/time"
	"github.com/unravelin/null/v5"
)

func init() { drivers["C20"] = driveC20 }

type CEmail string
type CCelsius struct{ V float64 }
type CTags []string
type CPlain string // never registered

// CPoint is a struct whose registered schema is a record (the shape a pointer fast path would take for built-in structs)
type CPoint struct{ X, Y int64 }

// CRatio is a registered type of float kind: its codec stores percent on the wire (so a built-in float path that
// bypasses the registration shows in the bytes and in the call counts)
type CRatio float64

// CSuit is a registered type whose registered schema is an enum: the library has no codec of its own for enums, a
// registered codec is the only way to read or write one
type CSuit int64

// COpt is an optional value in the style of null.Int: its registered schema is a nullable union and its codec
// decides by itself (Omit) whether a value is written as null -- in every position, omitempty or not
type COpt struct {
	V     int64
	Valid bool
}

// CObjID is deliberately NOT a declared type: registrations are keyed by reflect.Type, and an unnamed type is
// a type like any other ([12]byte is used nowhere else in the harness)
type cObjID = [12]byte

var customNames = map[reflect.Type]string{
	reflect.TypeOf(cObjID{}):   "CObjID",
	reflect.TypeOf(COpt{}):     "COpt",
	reflect.TypeOf(CRatio(0)):  "CRatio",
	reflect.TypeOf(CSuit(0)):   "CSuit",
	reflect.TypeOf(CEmail("")): "CEmail",
	reflect.TypeOf(CCelsius{}): "CCelsius",
	reflect.TypeOf(CTags(nil)): "CTags",
	reflect.TypeOf(CPoint{}):   "CPoint",
}

type logEntry struct {
	ID   int    `json:"id"`
	Type string `json:"type"`
	Op   string `json:"op"`
}

var codecLog []logEntry

// logCodec delegates to a standard codec and logs every Read / Write / Skip.
type logCodec struct {
	avro.Codec
	id   int
	name string
	mark byte // first byte of every string this codec writes (so built-in and custom encodings differ on the wire)
}

func (c logCodec) Read(r *avro.ReadBuf, p unsafe.Pointer) error {
	codecLog = append(codecLog, logEntry{c.id, c.name, "read"})
	switch c.name {
	case "CEmail":
		var s string
		if err := c.Codec.Read(r, unsafe.Pointer(&s)); err != nil {
			return err
		}
		if len(s) == 0 || s[0] != c.mark {
			return fmt.Errorf("custom string without its marker")
		}
		*(*CEmail)(p) = CEmail(strings.Clone(s[1:]))
		return nil
	case "CObjID":
		var s string
		if err := c.Codec.Read(r, unsafe.Pointer(&s)); err != nil {
			return err
		}
		if len(s) != 25 || s[0] != c.mark {
			return fmt.Errorf("custom object id without its marker")
		}
		_, err := hex.Decode((*cObjID)(p)[:], []byte(s[1:]))
		return err
	case "CTags":
		var s string
		if err := c.Codec.Read(r, unsafe.Pointer(&s)); err != nil {
			return err
		}
		if len(s) == 0 || s[0] != c.mark {
			return fmt.Errorf("custom tags without marker")
		}
		if len(s) == 1 {
			*(*CTags)(p) = nil
			return nil
		}
		*(*CTags)(p) = strings.Split(strings.Clone(s[1:]), ",")
		return nil
	}
	if c.name == "COpt" {
		o := (*COpt)(p)
		o.Valid = true
		return c.Codec.Read(r, unsafe.Pointer(&o.V))
	}
	if c.name == "CRatio" {
		var pct float64
		if err := c.Codec.Read(r, unsafe.Pointer(&pct)); err != nil {
			return err
		}
		*(*CRatio)(p) = CRatio(pct / 100)
		return nil
	}
	if c.name == "CPoint" {
		pt := (*CPoint)(p)
		if err := c.Codec.Read(r, unsafe.Pointer(&pt.X)); err != nil {
			return err
		}
		return c.Codec.Read(r, unsafe.Pointer(&pt.Y))
	}
	return c.Codec.Read(r, p) // CCelsius: one double
}

func (c logCodec) Write(w *avro.WriteBuf, p unsafe.Pointer) {
	codecLog = append(codecLog, logEntry{c.id, c.name, "write"})
	switch c.name {
	case "CEmail":
		s := string(c.mark) + string(*(*CEmail)(p))
		c.Codec.Write(w, unsafe.Pointer(&s))
		return
	case "CTags":
		s := string(c.mark) + strings.Join(*(*CTags)(p), ",")
		c.Codec.Write(w, unsafe.Pointer(&s))
		return
	case "CObjID":
		s := string(c.mark) + hex.EncodeToString((*cObjID)(p)[:])
		c.Codec.Write(w, unsafe.Pointer(&s))
		return
	}
	if c.name == "COpt" {
		c.Codec.Write(w, unsafe.Pointer(&(*COpt)(p).V))
		return
	}
	if c.name == "CRatio" {
		pct := float64(*(*CRatio)(p)) * 100
		c.Codec.Write(w, unsafe.Pointer(&pct))
		return
	}
	if c.name == "CPoint" {
		pt := (*CPoint)(p)
		c.Codec.Write(w, unsafe.Pointer(&pt.X))
		c.Codec.Write(w, unsafe.Pointer(&pt.Y))
		return
	}
	c.Codec.Write(w, p)
}

func (c logCodec) Skip(r *avro.ReadBuf) error {
	codecLog = append(codecLog, logEntry{c.id, c.name, "skip"})
	return c.Codec.Skip(r)
}

func (c logCodec) Omit(p unsafe.Pointer) bool {
	if c.name == "COpt" {
		return !(*COpt)(p).Valid
	}
	return false
}

func (c logCodec) New(r *avro.ReadBuf) unsafe.Pointer {
	codecLog = append(codecLog, logEntry{c.id, c.name, "new"})
	switch c.name {
	case "CEmail":
		return r.Alloc(reflect.TypeOf(CEmail("")))
	case "CTags":
		return r.Alloc(reflect.TypeOf(CTags(nil)))
	case "CPoint":
		return r.Alloc(reflect.TypeOf(CPoint{}))
	case "CObjID":
		return r.Alloc(reflect.TypeOf(cObjID{}))
	case "COpt":
		return r.Alloc(reflect.TypeOf(COpt{}))
	case "CRatio":
		return r.Alloc(reflect.TypeOf(CRatio(0)))
	case "CSuit":
		return r.Alloc(reflect.TypeOf(CSuit(0)))
	}
	return r.Alloc(reflect.TypeOf(CCelsius{}))
}

var builtLog []logEntry

func mkBuilder(id int, name string) avro.CodecBuildFunc {
	return func(schema avro.Schema, typ reflect.Type, omit bool) (avro.Codec, error) {
		builtLog = append(builtLog, logEntry{id, name, "build:" + schema.Type})
		if name == "CCelsius" || name == "CRatio" {
			return logCodec{Codec: avro.DoubleCodec{}, id: id, name: name}, nil
		}
		if name == "CPoint" || name == "COpt" || name == "CSuit" {
			return logCodec{Codec: avro.Int64Codec{}, id: id, name: name}, nil
		}
		return logCodec{Codec: avro.StringCodec{}, id: id, name: name, mark: byte('A' + id%26)}, nil
	}
}

type regState struct {
	builder map[string]int
	schema  map[string]string // schema JSON
	order   []string
}

func (rs *regState) nodes() []any {
	out := []any{}
	for _, n := range rs.order {
		sj, ok := rs.schema[n]
		if !ok {
			continue
		}
		sn, _ := schemaNodeFromJSON([]byte(sj))
		out = append(out, map[string]any{"name": n, "schema": sn})
	}
	return out
}

func (rs *regState) latest() map[string]any {
	out := map[string]any{}
	for n, id := range rs.builder {
		out[n] = id
	}
	return out
}

// holder types: the custom types in every position
type HEmail struct {
	F CEmail            `json:"f"`
	P *CEmail           `json:"p"`
	L []CEmail          `json:"l"`
	M map[string]CEmail `json:"m"`
	O CEmail            `json:"o,omitempty"`
	N struct {
		X CEmail `json:"x"`
	} `json:"n"`
	Plain CPlain `json:"plain"`
	S     string `json:"s"`
}
type HCelsius struct {
	F CCelsius            `json:"f"`
	P *CCelsius           `json:"p"`
	L []CCelsius          `json:"l"`
	M map[string]CCelsius `json:"m"`
	O CCelsius            `json:"o,omitempty"`
	Q []*CCelsius         `json:"q"`
	D float64             `json:"d"`
}
type HTags struct {
	F CTags            `json:"f"`
	P *CTags           `json:"p"`
	L []CTags          `json:"l"`
	M map[string]CTags `json:"m"`
	Z []string         `json:"z"`
}
type HPoint struct {
	F  CPoint            `json:"f"`
	P  *CPoint           `json:"p"`
	L  []CPoint          `json:"l"`
	M  map[string]CPoint `json:"m"`
	LP []*CPoint         `json:"lp"`
	N  struct {
		PP *CPoint `json:"pp"`
	} `json:"n"`
}
type HObjID struct {
	F cObjID            `json:"f"`
	P *cObjID           `json:"p"`
	L []cObjID          `json:"l"`
	M map[string]cObjID `json:"m"`
	N struct {
		X cObjID `json:"x"`
	} `json:"n"`
	B []byte `json:"b"`
}
type HOpt struct {
	F COpt            `json:"f"`
	P *COpt           `json:"p"`
	L []COpt          `json:"l"`
	M map[string]COpt `json:"m"`
	O COpt            `json:"o,omitempty"`
	N struct {
		X COpt `json:"x"`
	} `json:"n"`
	Z int64 `json:"z"`
}

// unregistered look-alikes of registered types (same fields, same underlying type): nothing but the registered type
// itself is governed by a registration
type CPointTwin struct{ X, Y int64 }
type CCelsiusTwin struct{ V float64 }
type COptTwin struct {
	V     int64
	Valid bool
}
type CEmailTwin string

type HSuit struct {
	F CSuit            `json:"f"`
	P *CSuit           `json:"p"`
	L []CSuit          `json:"l"`
	M map[string]CSuit `json:"m"`
	Z int64            `json:"z"`
}
type HRatio struct {
	F CRatio            `json:"f"`
	P *CRatio           `json:"p"`
	L []CRatio          `json:"l"`
	M map[string]CRatio `json:"m"`
	O CRatio            `json:"o,omitempty"`
	D float64           `json:"d"`
	G []float64         `json:"g"`
}
type HNone struct {
	A  CPlain              `json:"a"`
	B  []CPlain            `json:"b"`
	C  string              `json:"c"`
	T  CPointTwin          `json:"t"`
	PT *CPointTwin         `json:"pt"`
	LT []CCelsiusTwin      `json:"lt"`
	MT map[string]COptTwin `json:"mt"`
	ET CEmailTwin          `json:"et"`
}

func holderValues(c *driverCtx) []reflect.Value {
	e := func(s string) CEmail { return CEmail(s) }
	pe := e("ptr@x")
	pc := CCelsius{-3.5}
	pt := CTags{"p", "q"}
	var he HEmail
	he = HEmail{F: e("a@b"), P: &pe, L: []CEmail{e("l1"), e(""), e("l3")}, M: map[string]CEmail{"k1": e("m1"), "k2": e("m2")}, O: e("opt"), Plain: "plain", S: "s"}
	he.N.X = e("nested")
	he2 := HEmail{F: e(""), L: nil, O: e("")}
	hc := HCelsius{F: CCelsius{1.5}, P: &pc, L: []CCelsius{{2}, {3}}, M: map[string]CCelsius{"a": {4}}, O: CCelsius{5}, Q: []*CCelsius{&pc, nil, &pc}, D: 6}
	hc2 := HCelsius{}
	ht := HTags{F: CTags{"a", "b"}, P: &pt, L: []CTags{{"x"}, nil}, M: map[string]CTags{"m": {"y", "z"}}, Z: []string{"plain"}}
	hn := HNone{A: "a", B: []CPlain{"b1", "b2"}, C: "c", T: CPointTwin{1, 2}, PT: &CPointTwin{3, 4}, LT: []CCelsiusTwin{{1.5}, {0}}, MT: map[string]COptTwin{"a": {5, true}, "b": {0, false}}, ET: "twin@x"}
	pp := CPoint{7, -8}
	hp := HPoint{F: CPoint{1, 2}, P: &pp, L: []CPoint{{3, 4}}, M: map[string]CPoint{"k": {5, 6}}, LP: []*CPoint{&pp, nil}}
	hp.N.PP = &pp
	id1, id2 := cObjID{1, 2, 3, 4, 5, 6, 7, 8, 9, 10, 11, 12}, cObjID{0xff, 0xee}
	ho := HObjID{F: id1, P: &id2, L: []cObjID{id2, id1, {}}, M: map[string]cObjID{"a": id1}, B: []byte{9, 8, 7, 6}}
	ho.N.X = id2
	ov := func(v int64) COpt { return COpt{v, true} }
	po := ov(-7)
	hop := HOpt{F: ov(5), P: &po, L: []COpt{ov(1), {}, ov(0), {}}, M: map[string]COpt{"a": ov(2), "b": {}}, O: ov(3), Z: 9}
	hop.N.X = ov(0)
	hop2 := HOpt{L: []COpt{{}}, M: map[string]COpt{"n": {}}, Z: -1} // every occurrence invalid: null everywhere
	pr := CRatio(0.75)
	lr := make([]CRatio, 20)
	for i := range lr {
		lr[i] = CRatio(float64(i) * 0.25)
	}
	hr := HRatio{F: 0.25, P: &pr, L: lr, M: map[string]CRatio{"a": 1.5}, O: 2, D: 0.5, G: []float64{1, 2, 3, 4, 5, 6, 7, 8, 9, 10, 11, 12, 13, 14, 15, 16, 17}}
	ps := CSuit(2)
	hs := HSuit{F: 3, P: &ps, L: []CSuit{0, 1, 2, 3}, M: map[string]CSuit{"a": 1}, Z: 4}
	// (CPoint itself as the row type: a registration governs its type at the top level too)
	vals := []any{he, he2, hc, hc2, ht, hn, hp, HPoint{}, ho, HObjID{}, hop, hop2, hr, HRatio{}, hs, HSuit{}, CPoint{3, -4}}
	out := make([]reflect.Value, len(vals))
	for i, v := range vals {
		p := reflect.New(reflect.TypeOf(v))
		p.Elem().Set(reflect.ValueOf(v))
		out[i] = p.Elem()
	}
	return out
}

func useAll(c *driverCtx, rs *regState, step string) {
	for _, v := range holderValues(c) {
		t := v.Type()
		if _, reg := rs.builder["COpt"]; !reg && t == reflect.TypeOf(HOpt{}) {
			continue // unregistered, the type is an ordinary struct {V, Valid}: nothing optional about it
		}
		if _, reg := rs.builder["CObjID"]; !reg && t == reflect.TypeOf(HObjID{}) {
			continue // an unregistered byte array gets a "bytes" schema for which no codec can be built: nothing to use yet
		}
		ev := map[string]any{"op": "reg_use", "step": step, "regs": rs.nodes(), "latest": rs.latest(), "type": projectType(t), "typeName": t.Name(),
			"value": projectValue(v), "outcome": "ok", "schema": snode("null", "", "", 0, nil, nil), "log": []any{}, "rvalue": projectValue(reflect.New(t).Elem()), "detail": ""}
		func() {
			defer func() {
				if r := recover(); r != nil {
					ev["outcome"], ev["detail"] = "panic", fmt.Sprint(r)
				}
			}()
			s, err := avro.SchemaForType(v.Interface())
			if err != nil {
				ev["outcome"], ev["detail"] = "err", "schema: "+err.Error()
				return
			}
			ev["schema"] = projectLibSchema(s)
			codec, err := s.Codec(v.Interface())
			if err != nil {
				ev["outcome"], ev["detail"] = "err", "codec: "+err.Error()
				return
			}
			codecLog = nil
			w := avro.NewWriteBuf(nil)
			codec.Write(w, v.Addr().UnsafePointer())
			out := reflect.New(t)
			r := avro.NewReadBuf(w.Bytes())
			if err := codec.Read(r, unsafe.Pointer(out.Pointer())); err != nil {
				ev["outcome"], ev["detail"] = "err", "read: "+err.Error()
			}
			ev["rvalue"] = projectValue(out.Elem())
			ev["left"] = r.Len()
			r.ExtractResourceBank().Close()
			lg := make([]any, len(codecLog))
			for i, e := range codecLog {
				lg[i] = map[string]any{"id": e.ID, "type": e.Type, "op": e.Op}
			}
			ev["log"] = lg
		}()
		c.rec.NewCase()
		c.rec.Emit(fmt.Sprintf("C20|%s|%s", step, t.Name()), ev)
	}
}

func driveC20(c *driverCtx) error {
	rs := &regState{builder: map[string]int{}, schema: map[string]string{}}
	types := map[string]reflect.Type{"CEmail": reflect.TypeOf(CEmail("")), "CCelsius": reflect.TypeOf(CCelsius{}), "CTags": reflect.TypeOf(CTags(nil)), "CPoint": reflect.TypeOf(CPoint{}), "CObjID": reflect.TypeOf(cObjID{}), "COpt": reflect.TypeOf(COpt{}), "CRatio": reflect.TypeOf(CRatio(0)), "CSuit": reflect.TypeOf(CSuit(0))}
	nextID := 1
	register := func(name string) {
		avro.Register(types[name], mkBuilder(nextID, name))
		rs.builder[name] = nextID
		nextID++
	}
	registerSchema := func(name, sj string) {
		s, err := avro.SchemaFromString(sj)
		if err != nil {
			panic("harness: " + err.Error())
		}
		avro.RegisterSchema(types[name], s)
		if _, ok := rs.schema[name]; !ok {
			rs.order = append(rs.order, name)
		}
		rs.schema[name] = sj
	}
	// step 0: nothing registered: the types behave as their underlying kinds
	useAll(c, rs, "0-unregistered")
	// step 1: first registrations
	register("CEmail")
	registerSchema("CEmail", `{"type":"string","logicalType":"email"}`) // an annotated primitive: the annotation is part of the registered schema
	register("CCelsius")
	registerSchema("CCelsius", `"double"`)
	register("CTags")
	registerSchema("CTags", `"string"`)
	register("CPoint")
	registerSchema("CPoint", `{"type":"record","name":"CPoint","fields":[{"name":"X","type":"long"},{"name":"Y","type":"long"}]}`)
	register("CObjID")
	registerSchema("CObjID", `"string"`)
	register("COpt")
	registerSchema("COpt", `["null","long"]`)
	register("CRatio")
	registerSchema("CRatio", `{"type":"double","logicalType":"percent"}`)
	register("CSuit")
	registerSchema("CSuit", `{"type":"enum","name":"Suit","symbols":["SPADES","HEARTS","DIAMONDS","CLUBS"]}`)
	// a builder registered for a POINTER type is a registration for that type and no other: it says nothing about
	// the type pointed to (CPointTwin and CEmailTwin stay unregistered; the builder is not in rs, so any call of its
	// codec shows up as a codec that should not have run)
	avro.Register(reflect.TypeOf((*CPointTwin)(nil)), mkBuilder(9001, "PtrTwin"))
	avro.Register(reflect.TypeOf((*CEmailTwin)(nil)), mkBuilder(9002, "PtrTwin"))
	useAll(c, rs, "1-registered")
	// step 2: re-register codecs (the most recent builder wins)
	register("CEmail")
	register("CCelsius")
	useAll(c, rs, "2-reregistered-codec")
	// step 3: re-register a schema after schemas have been generated (nullable form for CCelsius)
	registerSchema("CCelsius", `["null","double"]`)
	register("CTags")
	useAll(c, rs, "3-reregistered-schema")
	// ... and with null second: the registered schema is emitted as registered
	registerSchema("CCelsius", `["double","null"]`)
	useAll(c, rs, "3b-null-second-schema")
	// step 4: interleaved further registrations in a seeded order
	names := []string{"CEmail", "CCelsius", "CTags", "CPoint", "CObjID", "COpt", "CRatio", "CSuit"}
	for k := 0; k < c.pick(3, 80); k++ {
		n := names[c.rng.Intn(len(names))]
		register(n)
		if c.rng.Intn(2) == 0 && n == "CCelsius" {
			registerSchema(n, []string{`"double"`, `["null","double"]`, `["double","null"]`}[c.rng.Intn(3)])
		}
		useAll(c, rs, fmt.Sprintf("4-random-%d", k))
	}
	// step 5: the library's own registration functions are registrations like any other: after someone else has
	// registered time.Time / null.Int, calling RegisterCodecs again makes the library's codecs the most recent ones
	type HLib struct {
		T time.Time  `json:"t"`
		P *time.Time `json:"p"`
		N null.Int   `json:"n"`
	}
	t1 := time.Date(2022, 5, 6, 7, 8, 9, 123000, time.FixedZone("", 2*3600))
	useLib := func(step string, expectCustom bool) {
		v := HLib{T: t1, P: &t1, N: null.IntFrom(5)}
		ev := map[string]any{"op": "reg_lib", "step": step, "expectCustom": expectCustom, "outcome": "ok", "detail": "", "schema": snode("null", "", "", 0, nil, nil),
			"value": projectValue(reflect.ValueOf(v)), "rvalue": projectValue(reflect.ValueOf(HLib{})), "customWrites": 0, "customReads": 0, "left": 0}
		func() {
			defer func() {
				if r := recover(); r != nil {
					ev["outcome"], ev["detail"] = "panic", fmt.Sprint(r)
				}
			}()
			s, err := avro.SchemaForType(v)
			if err != nil {
				ev["outcome"], ev["detail"] = "err", "schema: "+err.Error()
				return
			}
			ev["schema"] = projectLibSchema(s)
			codec, err := s.Codec(v)
			if err != nil {
				ev["outcome"], ev["detail"] = "err", "codec: "+err.Error()
				return
			}
			codecLog = nil
			w := avro.NewWriteBuf(nil)
			codec.Write(w, unsafe.Pointer(&v))
			var out HLib
			r := avro.NewReadBuf(w.Bytes())
			if err := codec.Read(r, unsafe.Pointer(&out)); err != nil {
				ev["outcome"], ev["detail"] = "err", "read: "+err.Error()
			}
			ev["rvalue"], ev["left"] = projectValue(reflect.ValueOf(out)), r.Len()
			r.ExtractResourceBank().Close()
			for _, e := range codecLog {
				switch e.Op {
				case "write":
					ev["customWrites"] = ev["customWrites"].(int) + 1
				case "read":
					ev["customReads"] = ev["customReads"].(int) + 1
				}
			}
		}()
		c.rec.NewCase()
		c.rec.Emit("C20|"+step+"|HLib", ev)
	}
	avrotime.RegisterCodecs()
	avronull.RegisterCodecs()
	useLib("5a-library-codecs", false)
	// a foreign registration for the library's types: nanoseconds as a long, through a logging codec
	avro.Register(reflect.TypeOf(time.Time{}), func(schema avro.Schema, typ reflect.Type, omit bool) (avro.Codec, error) {
		return foreignTimeCodec{}, nil
	})
	avro.RegisterSchema(reflect.TypeOf(time.Time{}), avro.Schema{Type: "long"})
	useLib("5b-foreign-time-codec", true)
	avrotime.RegisterCodecs()
	avronull.RegisterCodecs()
	useLib("5c-library-codecs-again", false)
	return nil
}

// foreignTimeCodec: somebody else's codec for time.Time (nanoseconds since the epoch as a long, UTC on the way back)
type foreignTimeCodec struct{ avro.Int64Codec }

func (foreignTimeCodec) Read(r *avro.ReadBuf, p unsafe.Pointer) error {
	codecLog = append(codecLog, logEntry{0, "foreign-time", "read"})
	var ns int64
	if err := (avro.Int64Codec{}).Read(r, unsafe.Pointer(&ns)); err != nil {
		return err
	}
	*(*time.Time)(p) = time.Unix(0, ns).UTC()
	return nil
}

func (foreignTimeCodec) Write(w *avro.WriteBuf, p unsafe.Pointer) {
	codecLog = append(codecLog, logEntry{0, "foreign-time", "write"})
	ns := (*time.Time)(p).UnixNano()
	avro.Int64Codec{}.Write(w, unsafe.Pointer(&ns))
}

func (foreignTimeCodec) New(r *avro.ReadBuf) unsafe.Pointer {
	return r.Alloc(reflect.TypeOf(time.Time{}))
}
func (foreignTimeCodec) Omit(p unsafe.Pointer) bool { return false }
