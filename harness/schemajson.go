package main

// C14: schema documents. TLC (MC_Schema) supplies the schemas; the harness
// renders each in many key orders / layouts / with unknown attributes, feeds
// the text to SchemaFromString and records the parsed Schema (projected from
// the library's public struct fields), then Schema.Marshal's output read back
// with encoding/json. Judged by spec/Trace_Schema.tla.

import (
	"fmt"
	jsonv2 "github.com/go-json-experiment/json"
	"math/rand"
	"os"
	"strings"

	"github.com/philpearl/avro"
)

func init() { drivers["C14"] = driveC14 }

// projectLibSchema reads the library's Schema value (public fields only).
func projectLibSchema(s avro.Schema) node {
	if s.Type == "union" || (s.Object == nil && len(s.Union) > 0) {
		c := make([]any, len(s.Union))
		for i, b := range s.Union {
			c[i] = projectLibSchema(b)
		}
		n := snode("union", "", "", 0, nil, c)
		if s.Type != "union" {
			n["k"] = s.Type
		}
		return n
	}
	n := snode(s.Type, "", "", 0, nil, nil)
	if o := s.Object; o != nil {
		n["name"], n["ns"], n["lt"], n["size"] = o.Name, o.Namespace, o.LogicalType, o.Size
		if o.Symbols != nil {
			n["syms"] = append([]string{}, o.Symbols...)
		}
		switch s.Type {
		case "record":
			c := make([]any, len(o.Fields))
			for i, f := range o.Fields {
				c[i] = snode("field", f.Name, "", 0, nil, []any{projectLibSchema(f.Type)})
			}
			n["c"] = c
		case "array":
			n["c"] = []any{projectLibSchema(o.Items)}
		case "map":
			n["c"] = []any{projectLibSchema(o.Values)}
		}
	}
	return n
}

// ---- a tiny JSON document model for rendering ----
type jmem struct {
	k string
	v any // string (already rendered JSON) or *jobj or []any
}
type jobj struct{ ms []jmem }

func schemaDoc(s node) any {
	k := nodeStr(s, "k")
	kids := nodeKids(s)
	q := func(x string) string { return fmt.Sprintf("%q", x) }
	switch k {
	case "union":
		arr := make([]any, len(kids))
		for i, b := range kids {
			arr[i] = schemaDoc(b)
		}
		return arr
	case "record":
		o := &jobj{ms: []jmem{{"type", q("record")}}}
		if v := nodeStr(s, "name"); v != "" {
			o.ms = append(o.ms, jmem{"name", q(v)})
		}
		if v := nodeStr(s, "ns"); v != "" {
			o.ms = append(o.ms, jmem{"namespace", q(v)})
		}
		fs := make([]any, len(kids))
		for i, f := range kids {
			fs[i] = &jobj{ms: []jmem{{"name", q(nodeStr(f, "name"))}, {"type", schemaDoc(nodeKids(f)[0])}}}
		}
		o.ms = append(o.ms, jmem{"fields", fs})
		return o
	case "array":
		return &jobj{ms: []jmem{{"type", q("array")}, {"items", schemaDoc(kids[0])}}}
	case "map":
		return &jobj{ms: []jmem{{"type", q("map")}, {"values", schemaDoc(kids[0])}}}
	case "fixed":
		o := &jobj{ms: []jmem{{"type", q("fixed")}, {"name", q(nodeStr(s, "name"))}, {"size", fmt.Sprint(nodeInt(s, "size"))}}}
		if v := nodeStr(s, "lt"); v != "" {
			o.ms = append(o.ms, jmem{"logicalType", q(v)})
		}
		if v := nodeStr(s, "ns"); v != "" {
			o.ms = append(o.ms, jmem{"namespace", q(v)})
		}
		return o
	case "enum":
		syms, _ := s["syms"].([]any)
		arr := make([]any, len(syms))
		for i, x := range syms {
			arr[i] = q(x.(string))
		}
		o := &jobj{ms: []jmem{{"type", q("enum")}, {"name", q(nodeStr(s, "name"))}, {"symbols", arr}}}
		if v := nodeStr(s, "ns"); v != "" {
			o.ms = append(o.ms, jmem{"namespace", q(v)})
		}
		return o
	}
	if lt := nodeStr(s, "lt"); lt != "" {
		return &jobj{ms: []jmem{{"type", q(k)}, {"logicalType", q(lt)}}}
	}
	return q(k)
}

var extraMembers = []jmem{
	{"doc", `"some \"quoted\" text, with: punctuation {} []"`}, {"default", `null`}, {"aliases", `["x","y"]`}, {"order", `"ascending"`},
	{"precision", `10`}, {"scale", `2.5e0`}, {"x-meta", `{"type":"record","deep":[true,false,null,{"a":[]}]}`}, {"flag", `true`},
	// JSON member names are case-sensitive and have no separators to ignore: these are unknown attributes too
	{"logical_type", `"date"`}, {"LogicalType", `"decimal"`}, {"logical-type", `7`}, {"LOGICALTYPE", `"x"`}, {"Type", `"string"`}, {"TYPE", `5`}, {"NAME", `"Zed"`},
	{"Name", `"Other"`}, {"Namespace", `"q.r"`}, {"name_space", `"q"`}, {"Size", `3`}, {"Symbols", `["Q"]`}, {"Items", `"long"`}, {"Values", `"boolean"`}, {"Fields", `[]`}, {"FIELDS", `null`},
}

// render writes the document; vary > 0 shuffles members and inserts unknown ones, ws selects a whitespace style.
func render(d any, rng *rand.Rand, vary bool, ws int, sb *strings.Builder, depth int) {
	nl, sp := "", ""
	switch ws {
	case 1:
		sp = " "
	case 2:
		nl, sp = "\n"+strings.Repeat("\t", depth+1), " "
	}
	switch x := d.(type) {
	case string:
		if vary && len(x) > 2 && x[0] == '"' && rng.Intn(4) == 0 {
			x = escapeSome(x, rng)
		}
		sb.WriteString(x)
	case []any:
		sb.WriteString("[")
		for i, e := range x {
			if i > 0 {
				sb.WriteString("," + sp)
			}
			sb.WriteString(nl)
			render(e, rng, vary, ws, sb, depth+1)
		}
		sb.WriteString("]")
	case *jobj:
		ms := append([]jmem{}, x.ms...)
		if vary {
			for k := rng.Intn(4); k > 0; k-- {
				ms = append(ms, extraMembers[rng.Intn(len(extraMembers))])
			}
			// unknown members must have distinct keys
			seen := map[string]bool{}
			uniq := ms[:0]
			for _, m := range ms {
				if !seen[m.k] {
					seen[m.k] = true
					uniq = append(uniq, m)
				}
			}
			ms = uniq
			rng.Shuffle(len(ms), func(i, j int) { ms[i], ms[j] = ms[j], ms[i] })
		}
		sb.WriteString("{")
		for i, m := range ms {
			if i > 0 {
				sb.WriteString(",")
			}
			sb.WriteString(nl)
			kq := fmt.Sprintf("%q", m.k)
			if vary && rng.Intn(6) == 0 {
				kq = escapeSome(kq, rng)
			}
			sb.WriteString(kq + ":" + sp)
			render(m.v, rng, vary, ws, sb, depth+1)
		}
		if ws == 2 {
			sb.WriteString("\n" + strings.Repeat("\t", depth))
		}
		sb.WriteString("}")
	}
}

// escapeSome rewrites one character of a rendered JSON string as a \uXXXX escape (or '/' as \/):
// a different spelling of the same JSON string.
func escapeSome(q string, rng *rand.Rand) string {
	body := q[1 : len(q)-1]
	if len(body) == 0 || strings.ContainsAny(body, "\\") {
		return q
	}
	i := rng.Intn(len(body))
	if body[i] >= 0x80 {
		return q
	}
	return `"` + body[:i] + fmt.Sprintf("\\u%04x", body[i]) + body[i+1:] + `"`
}

// the schema parsed by the previous emitSchemaParse call
var prevParsed *avro.Schema

func emitSchemaParse(c *driverCtx, key string, s node, text string) {
	ev := map[string]any{"op": "schema_parse", "s": s, "text": clipS(text, 600), "outcome": "ok", "parsed": snode("null", "", "", 0, nil, nil),
		"marshal": "none", "remarshalled": snode("null", "", "", 0, nil, nil)}
	var sch avro.Schema
	var err error
	p := catch(func() { sch, err = avro.SchemaFromString(text) })
	switch {
	case p != "":
		ev["outcome"] = "panic"
	case err != nil:
		ev["outcome"], ev["err"] = "err", err.Error()
	default:
		ev["parsed"] = projectLibSchema(sch)
		var out []byte
		p := catch(func() { out, err = sch.Marshal() })
		switch {
		case p != "":
			ev["marshal"] = "panic"
		case err != nil:
			ev["marshal"] = "err"
		default:
			// the application goes on to marshal another schema while it still holds these bytes
			if prevParsed != nil {
				catch(func() { prevParsed.Marshal() })
			}
			keep := sch
			prevParsed = &keep
			ev["marshalText"] = clipS(string(out), 600)
			back, err := schemaNodeFromJSON(out)
			if err != nil {
				ev["marshal"] = "invalid-json"
			} else {
				ev["marshal"], ev["remarshalled"] = "ok", back
			}
		}
	}
	c.rec.NewCase()
	c.rec.Emit(key, ev)
}

func driveC14(c *driverCtx) error {
	if c.cases == "" {
		return fmt.Errorf("C14 needs TLC-generated schemas (-cases)")
	}
	tl, err := loadTLCcases(c.cases)
	if err != nil {
		return err
	}
	var docs []string
	for si, m := range tl {
		s := node(m["s"].(map[string]any))
		d := schemaDoc(s)
		for v := 0; v < c.pick(8, 400); v++ {
			var sb strings.Builder
			render(d, c.rng, v > 0, v%3, &sb, 0)
			text := sb.String()
			if v%4 == 3 {
				text = " \n\t" + text + " \n"
			}
			emitSchemaParse(c, fmt.Sprintf("C14|parse|%s|%s", nodeStr(s, "k"), []string{"canonical", "varied"}[min(v, 1)]), s, text)
			if v == 0 {
				docs = append(docs, text)
			}
		}
		// FileSchema: the same schema embedded in a container file on disk (harness's own container writer)
		{
			var sb strings.Builder
			render(d, c.rng, true, si%3, &sb, 0)
			path := fmt.Sprintf("%s/fileschema-%d.avro", c.rec.dir, si)
			os.WriteFile(path, buildContainer([]byte(sb.String()), codecs3[si%3], si%2 == 0, []byte("0123456789abcdef"), nil), 0o644)
			ev := map[string]any{"op": "schema_parse", "s": s, "text": clipS(sb.String(), 600), "outcome": "ok", "parsed": snode("null", "", "", 0, nil, nil),
				"marshal": "ok", "remarshalled": s}
			var sch avro.Schema
			var err error
			if p := catch(func() { sch, err = avro.FileSchema(path) }); p != "" {
				ev["outcome"] = "panic"
			} else if err != nil {
				ev["outcome"], ev["err"] = "err", err.Error()
			} else {
				ev["parsed"] = projectLibSchema(sch)
			}
			c.rec.NewCase()
			c.rec.Emit(fmt.Sprintf("C14|fileschema|%s", nodeStr(s, "k")), ev)
			// the schema is the caller's: after it has been edited in place, reading the header again gives the header's schema
			if err == nil && ev["outcome"] == "ok" {
				scrambleSchema(&sch, 0)
				ev2 := map[string]any{"op": "schema_parse", "s": s, "text": ev["text"], "outcome": "ok", "parsed": snode("null", "", "", 0, nil, nil), "marshal": "ok", "remarshalled": s}
				var sch2 avro.Schema
				if p := catch(func() { sch2, err = avro.FileSchema(path) }); p != "" {
					ev2["outcome"] = "panic"
				} else if err != nil {
					ev2["outcome"], ev2["err"] = "err", err.Error()
				} else {
					ev2["parsed"] = projectLibSchema(sch2)
				}
				c.rec.NewCase()
				c.rec.Emit(fmt.Sprintf("C14|fileschema-again-after-edit|%s", nodeStr(s, "k")), ev2)
			}
			os.Remove(path)
		}
	}
	c.extra["tlc_schemas"] = len(tl)
	// documents outside the TLC universe: the same named type written out in full more than once (not strictly valid
	// Avro, but what this library's own schema generation emits), deep nesting of named types
	for hi, text := range []string{
		`{"type":"record","name":"Line","fields":[{"name":"from","type":{"type":"record","name":"Point","fields":[{"name":"x","type":"long"},{"name":"y","type":"long"}]}},{"name":"to","type":{"type":"record","name":"Point","fields":[{"name":"x","type":"long"},{"name":"y","type":"long"}]}}]}`,
		`{"type":"record","name":"Ids","namespace":"org.example","fields":[{"name":"a","type":{"type":"fixed","name":"ID","size":4}},{"name":"b","type":["null",{"type":"fixed","name":"ID","size":4}]},{"name":"c","type":{"type":"array","items":{"type":"fixed","name":"ID","size":4}}}]}`,
		`{"type":"record","name":"E2","fields":[{"name":"a","type":{"type":"enum","name":"Suit","symbols":["H","S"]}},{"name":"b","type":{"type":"map","values":{"type":"enum","name":"Suit","symbols":["H","S"]}}}]}`,
	} {
		sn, err := schemaNodeFromJSON([]byte(text))
		if err != nil {
			return fmt.Errorf("harness: handwritten schema %d: %v", hi, err)
		}
		emitSchemaParse(c, fmt.Sprintf("C14|parse|handwritten|repeated-named-type-%d", hi), sn, text)
	}
	// through the json package (the Schema type implements its unmarshalling interface): the caller's buffer is the
	// caller's, and is overwritten as soon as the call has returned
	for si, m := range tl {
		if si%3 != 0 && !c.thorough() {
			continue
		}
		s := node(m["s"].(map[string]any))
		var sb strings.Builder
		render(schemaDoc(s), c.rng, true, si%3, &sb, 0)
		buf := []byte(sb.String())
		ev := map[string]any{"op": "schema_parse", "s": s, "text": clipS(sb.String(), 600), "outcome": "ok", "parsed": snode("null", "", "", 0, nil, nil), "marshal": "ok", "remarshalled": s}
		var sch avro.Schema
		var err error
		if p := catch(func() { err = jsonv2.Unmarshal(buf, &sch) }); p != "" {
			ev["outcome"] = "panic"
		} else if err != nil {
			ev["outcome"], ev["err"] = "err", err.Error()
		} else {
			for i := range buf {
				buf[i] = 'x'
			}
			ev["parsed"] = projectLibSchema(sch)
		}
		c.rec.NewCase()
		c.rec.Emit(fmt.Sprintf("C14|unmarshal-then-reuse-buffer|%s", nodeStr(s, "k")), ev)
	}
	// malformed JSON: every proper prefix, trailing data, unbalanced brackets
	for di, d := range docs {
		if !c.thorough() && di%4 != 0 {
			continue
		}
		for cut := 0; cut < len(d); cut++ {
			if len(d) > 60 && cut%5 != di%5 {
				continue
			}
			emitBad(c, "C14|malformed|prefix", d[:cut])
		}
		for _, tail := range []string{"}", "]", "x", `"int"`, ",", d, "{}", "null"} {
			emitBad(c, "C14|malformed|trailing", d+tail)
			emitBad(c, "C14|malformed|trailing-ws", d+" \n"+tail)
		}
		if strings.HasPrefix(d, "{") {
			emitBad(c, "C14|malformed|unquoted-key", strings.Replace(d, `"type"`, `type`, 1))
			emitBad(c, "C14|malformed|single-quotes", strings.ReplaceAll(d, `"`, `'`))
			emitBad(c, "C14|malformed|missing-colon", strings.Replace(d, `:`, ` `, 1))
			emitBad(c, "C14|malformed|trailing-comma", d[:len(d)-1]+",}")
		}
	}
	return nil
}

func emitBad(c *driverCtx, key, text string) {
	var err error
	p := catch(func() { _, err = avro.SchemaFromString(text) })
	out := "ok"
	if p != "" {
		out = "panic"
	} else if err != nil {
		out = "err"
	}
	c.rec.NewCase()
	c.rec.Emit(key, map[string]any{"op": "schema_bad", "text": clipS(text, 300), "outcome": out})
}
