//go:build verif

package main

// C12: concurrent use of shared codecs, the two registries, the bank pool and
// the timezone cache.
//  (1) gates: a goroutine is parked inside a critical section (blocked in the
//      verif hook) and a second one is sent towards a conflicting section; only
//      an *arrival* inside is recorded as an observation (no timing assumption
//      on the failing side).
//  (2) stress: N goroutines with mixed workloads, in a child process built
//      with -race; section enter/leave events carry a sequence number taken
//      inside the section; every result is recorded for the sequential oracle.
// Judged by spec/Trace_Conc.tla.

import (
	"bufio"
	"bytes"
	"encoding/json"
	"fmt"
	"math/rand"
	"os"
	"os/exec"
	"reflect"
	"runtime"
	"sort"
	"strings"
	"sync"
	"sync/atomic"
	"time"
	"unsafe"

	"github.com/philpearl/avro"
	avrotime "github.com/philpearl/avro/time"
)

func init() {
	drivers["C12"] = driveC12
	children["concstress"] = concStressChild
	children["tzhammer"] = tzHammerChild
	children["bankhammer"] = bankHammerChild
}

type gateType struct{ X int64 }
type gateRec struct {
	A gateType `json:"a"`
}

func setHooks(h func(string)) {
	avro.VerifHook = h
	avrotime.VerifHook = h
}

// sectionOp performs an operation that enters the named section.
func sectionOp(sec string) {
	switch sec {
	case "registry.w":
		avro.Register(reflect.TypeOf(gateType{}), func(s avro.Schema, t reflect.Type, omit bool) (avro.Codec, error) { return avro.Int64Codec{}, nil })
	case "registry.r":
		s, _ := avro.SchemaFromString(`{"type":"record","name":"g","fields":[{"name":"a","type":"long"}]}`)
		s.Codec(struct {
			A int64 `json:"a"`
		}{})
	case "schema.w":
		avro.RegisterSchema(reflect.TypeOf(gateType{}), avro.Schema{Type: "long"})
	case "schema.r":
		avro.SchemaForType(struct{ A int64 }{})
	case "tz.w":
		var t time.Time
		s := "2006-01-02T13:37:42+05:17"
		w := avro.NewWriteBuf(nil)
		w.Varint(int64(len(s)))
		w.Write([]byte(s))
		r := avro.NewReadBuf(w.Bytes())
		avrotime.StringCodec{}.Read(r, unsafe.Pointer(&t))
		r.ExtractResourceBank().Close()
	}
}

func gate(parked, probe string) (parkedReached, arrived, stuck bool) {
	release := make(chan struct{})
	reached := make(chan struct{}, 1)
	arrive := make(chan struct{}, 1)
	var parkedG, probeStarted atomic.Bool
	var once sync.Once
	setHooks(func(p string) {
		if p == parked+".enter" && !probeStarted.Load() && parkedG.CompareAndSwap(false, true) {
			reached <- struct{}{}
			<-release // parked inside the section
			return
		}
		if p == probe+".enter" && probeStarted.Load() {
			once.Do(func() { arrive <- struct{}{} })
		}
	})
	defer setHooks(nil)
	done := make(chan struct{}, 2)
	go func() { sectionOp(parked); done <- struct{}{} }()
	select {
	case <-reached:
		parkedReached = true
	case <-time.After(2 * time.Second):
		close(release)
		return false, false, false
	}
	probeStarted.Store(true)
	go func() { sectionOp(probe); done <- struct{}{} }()
	select {
	case <-arrive:
		arrived = true
	case <-time.After(250 * time.Millisecond):
	}
	close(release)
	for i := 0; i < 2; i++ {
		select {
		case <-done:
		case <-time.After(10 * time.Second):
			stuck = true // the two operations never finished: deadlock
			return
		}
	}
	return
}

// buildVsRegister: a codec build is parked inside its second registry lookup; a Register call is started (it
// queues behind the reader); the build is released. Both must complete: a build that still holds a read lock
// from an earlier lookup would now wait behind the queued writer for ever.
func buildVsRegister() (completed bool) {
	release := make(chan struct{})
	parked := make(chan struct{}, 1)
	var lookups atomic.Int32
	var builder atomic.Bool
	setHooks(func(p string) {
		if p == "registry.r.enter" && builder.Load() && lookups.Add(1) == 2 {
			parked <- struct{}{}
			<-release
		}
	})
	defer setHooks(nil)
	done := make(chan struct{}, 2)
	go func() {
		builder.Store(true)
		s, _ := avro.SchemaFromString(`{"type":"record","name":"g","fields":[{"name":"a","type":"long"},{"name":"b","type":"long"},{"name":"c","type":"string"},{"name":"d","type":"long"}]}`)
		s.Codec(struct {
			A int64  `json:"a"`
			B int64  `json:"b"`
			C string `json:"c"`
			D int64  `json:"d"`
		}{})
		builder.Store(false)
		done <- struct{}{}
	}()
	select {
	case <-parked:
	case <-time.After(2 * time.Second):
		close(release)
		return true // never reached the second lookup: nothing realised
	}
	go func() { sectionOp("registry.w"); done <- struct{}{} }()
	time.Sleep(50 * time.Millisecond) // let the writer queue up
	close(release)
	for i := 0; i < 2; i++ {
		select {
		case <-done:
		case <-time.After(5 * time.Second):
			return false
		}
	}
	return true
}

// encoderVsReregister: NewEncoderFor is started with builder A registered for a field type; A's builder parks until
// Register(B) for the same type has returned; afterwards (everything at rest) two more encoders are made and one row
// is written with each: the row must have been written by B's codec.
type encRegT struct{ V int64 }
type encRegRow struct {
	F encRegT `json:"f"`
	Z int64   `json:"z"`
}
type markCodec struct {
	avro.Int64Codec
	mark int64
}

func (m markCodec) Write(w *avro.WriteBuf, p unsafe.Pointer) { w.Varint(m.mark) }

func encoderVsReregister() string {
	started, release := make(chan struct{}, 1), make(chan struct{})
	t := reflect.TypeOf(encRegT{})
	avro.RegisterSchema(t, avro.Schema{Type: "long"})
	avro.Register(t, func(s avro.Schema, typ reflect.Type, omit bool) (avro.Codec, error) {
		select {
		case started <- struct{}{}:
			<-release
		default:
		}
		return markCodec{mark: 11}, nil
	})
	done := make(chan error, 1)
	go func() {
		var sink bytes.Buffer
		_, err := avro.NewEncoderFor[encRegRow](&sink, avro.CompressionNull, 10)
		done <- err
	}()
	select {
	case <-started:
	case <-time.After(3 * time.Second):
		close(release)
		return "ok" // the builder was never reached: nothing realised
	}
	avro.Register(t, func(s avro.Schema, typ reflect.Type, omit bool) (avro.Codec, error) { return markCodec{mark: 22}, nil })
	close(release)
	select {
	case <-done:
	case <-time.After(5 * time.Second):
		return "the encoder under construction never finished"
	}
	for k := 0; k < 2; k++ {
		var sink bytes.Buffer
		enc, err := avro.NewEncoderFor[encRegRow](&sink, avro.CompressionNull, 0)
		if err != nil {
			return "NewEncoderFor: " + err.Error()
		}
		before := sink.Len()
		if err := enc.Encode(&encRegRow{F: encRegT{5}, Z: 1}); err != nil {
			return "Encode: " + err.Error()
		}
		enc.Flush()
		blk := sink.Bytes()[before:]
		// block = count(1) len(2) payload(mark, z) sync: the mark is the third byte
		if len(blk) < 3 || blk[2] != byte(22*2) {
			return fmt.Sprintf("an encoder made after the re-registration returned wrote with the old builder's codec (payload % x)", blk[:min(len(blk), 6)])
		}
	}
	return "ok"
}

// nestingProbe runs codec construction, schema generation, registration and timestamp parsing on ONE goroutine
// with nothing else running and records the section events in order. Judged against the design rule of
// spec/RWLockBuild.tla (NoRecursiveRLock): deterministic, no timing involved.
type nestInner struct {
	P *int64            `json:"p"`
	T time.Time         `json:"t"`
	M map[string]string `json:"m"`
}
type nestOuter struct {
	A int64                `json:"a"`
	I nestInner            `json:"i"`
	L []nestInner          `json:"l"`
	Q *nestInner           `json:"q"`
	N map[string]nestInner `json:"n"`
	G gateType             `json:"g"`
	E []*[]string          `json:"e"`
}

func nestingProbe(c *driverCtx) {
	run := func(name string, f func()) {
		var events []any
		setHooks(func(p string) {
			i := strings.LastIndex(p, ".")
			if ph := p[i+1:]; ph != "enter" && ph != "leave" {
				return // point events (bank.alloc, bank.close) are not sections
			}
			events = append(events, map[string]any{"sec": p[:i], "ph": p[i+1:]})
		})
		pn := catch(f)
		setHooks(nil)
		c.rec.NewCase()
		c.rec.Emit("C12|nesting|"+name, map[string]any{"op": "nesting", "events": events, "panic": pn})
	}
	run("register", func() { sectionOp("registry.w"); sectionOp("schema.w") })
	run("schema-for-type", func() { avro.SchemaForType(nestOuter{}) })
	run("codec-build", func() {
		if s, err := avro.SchemaForType(nestOuter{}); err == nil {
			s.Codec(nestOuter{})
		}
	})
	run("encoder", func() {
		var sink bytes.Buffer
		if enc, err := avro.NewEncoderFor[nestOuter](&sink, avro.CompressionNull, 10); err == nil {
			t := time.Date(2020, 2, 3, 4, 5, 6, 7, time.FixedZone("", 3600+17*60))
			enc.Encode(&nestOuter{A: 1, I: nestInner{T: t}, L: []nestInner{{T: t}}, N: map[string]nestInner{"k": {T: t}}})
			enc.Flush()
			avro.ReadFile(bufio.NewReader(&sink), nestOuter{}, func(val unsafe.Pointer, rb *avro.ResourceBank) error { rb.Close(); return nil })
		}
	})
	run("timestamps", func() { sectionOp("tz.w"); sectionOp("tz.w") })
	// a registered builder that itself builds codecs (the way the library's own builders for composite types do, and
	// the way an application's builder for a wrapper type would): construction re-entered from inside a builder
	run("re-entrant-builder", func() {
		type wrapped struct {
			V map[string]int64 `json:"v"`
			I nestInner        `json:"i"`
		}
		type reent struct{ W wrapped }
		avro.Register(reflect.TypeOf(reent{}), func(s avro.Schema, t reflect.Type, omit bool) (avro.Codec, error) {
			inner, err := avro.SchemaForType(wrapped{})
			if err != nil {
				return nil, err
			}
			return inner.Codec(wrapped{})
		})
		if ws, err := avro.SchemaForType(wrapped{}); err == nil {
			avro.RegisterSchema(reflect.TypeOf(reent{}), ws)
		}
		type holder struct {
			A int64   `json:"a"`
			R reent   `json:"r"`
			L []reent `json:"l"`
		}
		if s, err := avro.SchemaForType(holder{}); err == nil {
			s.Codec(holder{})
		}
	})
}

type stressRecord struct {
	Op    string `json:"op"`
	G     int    `json:"g"`
	Seq   int64  `json:"seq"`
	Sec   string `json:"sec,omitempty"`
	Ph    string `json:"ph,omitempty"`
	Value node   `json:"value,omitempty"`
	Back  node   `json:"back,omitempty"`
	Bytes []int  `json:"bytes,omitempty"`
	S     []int  `json:"s,omitempty"`
	T     node   `json:"t,omitempty"`
	Out   string `json:"out,omitempty"`
	N     int    `json:"n,omitempty"`
	Idx   int    `json:"idx"`
}

// concStressChild: args = [seed, goroutines, opsPerGoroutine, outFile]
func concStressChild(args []string) int {
	var seed int64
	var ng, nops int
	fmt.Sscan(args[0], &seed)
	fmt.Sscan(args[1], &ng)
	fmt.Sscan(args[2], &nops)
	var seq atomic.Int64
	var mu sync.Mutex
	var sects []stressRecord
	gid := func() int { return 0 }
	_ = gid
	// section events: the goroutine id is not available in the hook; the sequence number taken inside the
	// section is what matters for the exclusion check, so events are attributed through a goroutine-local key
	var gls sync.Map // goroutine marker via a per-goroutine token stored by the workers (pointer identity of a stack var is not available) -> use channel-free approach below
	_ = &gls
	setHooks(func(p string) {
		n := seq.Add(1)
		i := strings.LastIndex(p, ".")
		if i < 0 {
			return
		}
		sec, ph := p[:i], p[i+1:]
		if ph != "enter" && ph != "leave" {
			return
		}
		mu.Lock()
		sects = append(sects, stressRecord{Op: "sect", Seq: n, Sec: sec, Ph: ph})
		mu.Unlock()
	})
	// shared state: one codec per record type (collections; times and null.* wrappers), shared by all goroutines
	sharedTypes := []reflect.Type{reflect.TypeOf(SColl{}), reflect.TypeOf(STime{})}
	var sharedCodecs []avro.Codec
	var schemaTexts []string
	for _, t := range sharedTypes {
		zero := reflect.New(t).Elem().Interface()
		sch, err := avro.SchemaForType(zero)
		if err != nil {
			return 2
		}
		cd, err := sch.Codec(zero)
		if err != nil {
			return 2
		}
		sj, _ := sch.Marshal()
		sharedCodecs, schemaTexts = append(sharedCodecs, cd), append(schemaTexts, string(sj))
	}
	results := make([][]stressRecord, ng)
	var wg sync.WaitGroup
	// a file every reader goroutine reads
	var file bytes.Buffer
	var fileInputs []any
	{
		enc, _ := avro.NewEncoderFor[RRec](&file, avro.CompressionSnappy, 100)
		for i := 0; i < 30; i++ {
			// every third record takes nothing from its resource bank (no string, no pointer, no slice)
			r := RRec{ID: int64(i)}
			if i%3 != 0 {
				r.Name = fmt.Sprint("name-of-record-", i)
				r.Tags = []string{fmt.Sprint("t", i)}
				v := int64(i)
				r.Opt = &v
			}
			fileInputs = append(fileInputs, projectValue(reflect.ValueOf(r)))
			enc.Encode(&r)
		}
		enc.Flush()
	}
	// process history before the concurrent phase: one bank that has held a very large record (and was closed), a few
	// banks of ordinary size in the pool
	{
		big := strings.Repeat("x", 200000)
		w := avro.NewWriteBuf(nil)
		w.Varint(int64(len(big)))
		w.Write([]byte(big))
		for i := 0; i < 3; i++ {
			r := avro.NewReadBuf(w.Bytes())
			var s string
			avro.StringCodec{}.Read(r, unsafe.Pointer(&s))
			var p *int64
			pc := avro.PointerCodec{Codec: avro.Int64Codec{}}
			r2 := avro.NewReadBuf([]byte{2})
			pc.Read(r2, unsafe.Pointer(&p))
			r.ExtractResourceBank().Close()
			r2.ExtractResourceBank().Close()
		}
	}
	// damaged inputs for the shared codecs, with the error each one gives when nobody else is decoding (computed
	// now, before the goroutines start): the same input gives the same error later, whoever else is failing
	type badInput struct {
		idx  int
		b    []byte
		want string
	}
	var bad []badInput
	{
		rng0 := rand.New(rand.NewSource(seed + 77))
		decodeErr := func(idx int, b []byte) string {
			out := reflect.New(sharedTypes[idx])
			r := avro.NewReadBuf(b)
			defer r.ExtractResourceBank().Close()
			if err := sharedCodecs[idx].Read(r, out.UnsafePointer()); err != nil {
				return err.Error()
			}
			return ""
		}
		for idx := range sharedTypes {
			v := genValues(rng0, sharedTypes[idx], 1)[0]
			w := avro.NewWriteBuf(nil)
			sharedCodecs[idx].Write(w, v.Addr().UnsafePointer())
			full := append([]byte{}, w.Bytes()...)
			for cut := 0; cut < len(full) && cut < 60; cut++ {
				b := append([]byte{}, full[:cut]...)
				if e := decodeErr(idx, b); e != "" {
					bad = append(bad, badInput{idx, b, e})
				}
				b2 := append(append([]byte{}, full[:cut]...), 0xff, 0xff, 0xff, 0xff, 0xff, 0xff, 0xff, 0xff, 0xff, 0xff, 0xff)
				if e := decodeErr(idx, b2); e != "" {
					bad = append(bad, badInput{idx, b2, e})
				}
			}
		}
	}
	// schemas generated for types that share structs behind pointers, slices and maps, one at a time
	var genTypes []reflect.Type
	var genWant []string
	genText := func(t reflect.Type) string {
		sch, err := avro.SchemaForType(reflect.New(t).Elem().Interface())
		if err != nil {
			return "error: " + err.Error()
		}
		b, err := sch.Marshal()
		if err != nil {
			return "marshal error: " + err.Error()
		}
		return string(b)
	}
	for _, sc := range staticCases() {
		genTypes = append(genTypes, sc.typ, reflect.StructOf([]reflect.StructField{{Name: "P", Type: reflect.PointerTo(sc.typ), Tag: `json:"p"`}, {Name: "L", Type: reflect.SliceOf(sc.typ), Tag: `json:"l"`}}))
	}
	for _, t := range genTypes {
		genWant = append(genWant, genText(t))
	}
	banks := make(chan *avro.ResourceBank, 1024)
	for g := 0; g < ng; g++ {
		wg.Add(1)
		go func(g int) {
			defer wg.Done()
			rng := rand.New(rand.NewSource(seed*1000 + int64(g)))
			for k := 0; k < nops; k++ {
				switch rng.Intn(11) {
				case 9: // decodes that fail, several goroutines at a time through the one shared codec: the error a goroutine
					// holds is the error of its own input, also after others have failed
					if len(bad) == 0 || k >= 60 {
						continue // (bounded per goroutine: every call adds section events, and the exclusion check is quadratic in them)
					}
					seen := map[[2]string]int{}
					for it := 0; it < 12; it++ {
						bi := bad[rng.Intn(len(bad))]
						out := reflect.New(sharedTypes[bi.idx])
						r := avro.NewReadBuf(bi.b)
						err := sharedCodecs[bi.idx].Read(r, out.UnsafePointer())
						runtime.Gosched()
						got := ""
						if err != nil {
							got = err.Error()
						}
						r.ExtractResourceBank().Close()
						seen[[2]string{bi.want, got}]++
					}
					agree := 0
					for k, n := range seen {
						if k[0] == k[1] {
							agree += n // (the judge sees one event for all of them: s = bytes = empty)
							continue
						}
						results[g] = append(results[g], stressRecord{Op: "conc_err", G: g, N: n, S: byteList([]byte(clipS(k[0], 300))), Bytes: byteList([]byte(clipS(k[1], 300)))})
					}
					results[g] = append(results[g], stressRecord{Op: "conc_err", G: g, N: agree, S: []int{0}, Bytes: []int{0}})
				case 10: // schema generation for types that share structs: the same schema as when nobody else generates
					if k >= 60 {
						continue
					}
					seen := map[[2]string]int{}
					for it := 0; it < 2; it++ {
						ti := rng.Intn(len(genTypes))
						seen[[2]string{genWant[ti], genText(genTypes[ti])}]++
					}
					agree := 0
					for k, n := range seen {
						if k[0] == k[1] {
							agree += n // (the judge sees one event for all of them: s = bytes = empty)
							continue
						}
						results[g] = append(results[g], stressRecord{Op: "conc_gen", G: g, N: n, S: byteList([]byte(clipS(k[0], 400))), Bytes: byteList([]byte(clipS(k[1], 400)))})
					}
					results[g] = append(results[g], stressRecord{Op: "conc_gen", G: g, N: agree, S: []int{0}, Bytes: []int{0}})
				case 8: // register a codec and a schema for a type only this goroutine knows; both are in effect once the calls return
					mine := reflect.StructOf([]reflect.StructField{{Name: fmt.Sprintf("G%dK%d", g, k), Type: reflect.TypeOf(int64(0))}})
					var built atomic.Int32
					avro.Register(mine, func(s avro.Schema, t reflect.Type, omit bool) (avro.Codec, error) {
						built.Add(1)
						return avro.Int64Codec{}, nil
					})
					avro.RegisterSchema(mine, avro.Schema{Type: "long"})
					holder := reflect.StructOf([]reflect.StructField{{Name: "F", Type: mine, Tag: `json:"f"`}, {Name: "L", Type: reflect.SliceOf(mine), Tag: `json:"l"`}})
					zero := reflect.New(holder).Elem().Interface()
					schemaOK, codecOK := false, false
					if sch, err := avro.SchemaForType(zero); err == nil {
						schemaOK = sch.Object != nil && len(sch.Object.Fields) == 2 && sch.Object.Fields[0].Type.Type == "long"
						if _, err := sch.Codec(zero); err == nil {
							codecOK = built.Load() >= 2
						}
					}
					out := "ok"
					if !schemaOK || !codecOK {
						out = fmt.Sprintf("schema=%v codec=%v builds=%d", schemaOK, codecOK, built.Load())
					}
					results[g] = append(results[g], stressRecord{Op: "conc_reg", G: g, Seq: int64(k), Out: out})
				case 7: // a tight loop of small string decodes, each with a bank of its own (drawn from and returned to the pool)
					mine := []string{fmt.Sprintf("goroutine %d string A, long enough to matter", g), fmt.Sprintf("g%d-B", g), fmt.Sprintf("goroutine %d string C %s", g, strings.Repeat("c", 40))}
					seen := map[[2]string]int{}
					for it := 0; it < 300; it++ {
						want := mine[it%3]
						wb := avro.NewWriteBuf(nil)
						wb.Varint(int64(len(want)))
						wb.Write([]byte(want))
						r := avro.NewReadBuf(wb.Bytes())
						var got, got2 string
						avro.StringCodec{}.Read(r, unsafe.Pointer(&got))
						r.Reset(wb.Bytes())
						avro.StringCodec{}.Read(r, unsafe.Pointer(&got2))
						runtime.Gosched()
						seen[[2]string{want, strings.Clone(got)}]++ // looked at (and copied) while the bank is still ours
						seen[[2]string{want, strings.Clone(got2)}]++
						r.ExtractResourceBank().Close()
					}
					for k, n := range seen {
						results[g] = append(results[g], stressRecord{Op: "conc_str", G: g, N: n, S: byteList([]byte(k[0])), Bytes: byteList([]byte(k[1]))})
					}
				case 0, 1: // encode + decode with the shared codec into private memory
					idx := rng.Intn(len(sharedTypes))
					shared := sharedCodecs[idx]
					v := genValues(rng, sharedTypes[idx], 1)[0]
					w := avro.NewWriteBuf(nil)
					shared.Write(w, v.Addr().UnsafePointer())
					b := append([]byte{}, w.Bytes()...)
					out := reflect.New(v.Type())
					r := avro.NewReadBuf(b)
					o, _ := safeCall(func() error { return shared.Read(r, unsafe.Pointer(out.Pointer())) })
					results[g] = append(results[g], stressRecord{Op: "conc_rt", G: g, Seq: int64(k), Idx: idx, Value: projectValue(v), Back: projectValue(out.Elem()), Bytes: byteList(b), Out: o})
					select {
					case banks <- r.ExtractResourceBank(): // closed later by another goroutine
					default:
						r.ExtractResourceBank().Close()
					}
				case 2: // build codecs (registry and schema registry lookups)
					t, _ := genType(rng, defaultFeatures())
					zero := reflect.New(t).Elem().Interface()
					if s, err := avro.SchemaForType(zero); err == nil {
						s.Codec(zero)
					}
				case 3: // register (same builder semantics every time)
					avro.Register(reflect.TypeOf(gateType{}), func(s avro.Schema, t reflect.Type, omit bool) (avro.Codec, error) { return avro.Int64Codec{}, nil })
					avro.RegisterSchema(reflect.TypeOf(gateType{}), avro.Schema{Type: "long"})
				case 4: // timestamps with assorted zone offsets
					off := []int{0, 3600, -3600, 19800, 20220, -20220, 60, -60}[rng.Intn(8)]
					t := time.Date(2000+rng.Intn(30), 5, 6, 7, 8, 9, rng.Intn(1e9), time.FixedZone("", off))
					s := t.Format(time.RFC3339Nano)
					var back time.Time
					w := avro.NewWriteBuf(nil)
					w.Varint(int64(len(s)))
					w.Write([]byte(s))
					r := avro.NewReadBuf(w.Bytes())
					o, _ := safeCall(func() error { return avrotime.StringCodec{}.Read(r, unsafe.Pointer(&back)) })
					r.ExtractResourceBank().Close()
					results[g] = append(results[g], stressRecord{Op: "conc_time", G: g, Seq: int64(k), S: byteList([]byte(s)), T: timeNode(back), Out: o})
				case 5: // read a whole file, retain every record, look at them after the read, then let go of the banks
					var kept []RRec
					var mine []*avro.ResourceBank
					err := avro.ReadFile(bytes.NewReader(file.Bytes()), RRec{}, func(val unsafe.Pointer, rb *avro.ResourceBank) error {
						kept = append(kept, *(*RRec)(val))
						if len(kept)%3 == 1 {
							rb.Close() // the application is done with this record's bank at once
						} else {
							mine = append(mine, rb)
						}
						return nil
					})
					o := "ok"
					if err != nil {
						o = "err"
					}
					var delivered []any
					for i := range kept {
						if i%3 == 0 {
							// its bank is closed; the record holds nothing from it
							delivered = append(delivered, safeProject(reflect.ValueOf(RRec{ID: kept[i].ID, F: kept[i].F})))
						} else {
							delivered = append(delivered, safeProject(reflect.ValueOf(kept[i])))
						}
					}
					results[g] = append(results[g], stressRecord{Op: "conc_file", G: g, Seq: int64(k), N: len(kept), Out: o, Value: node{"k": "list", "c": delivered}})
					for _, b := range mine {
						select {
						case banks <- b:
						default:
							b.Close()
						}
					}
				case 6: // close banks obtained on other goroutines
					for i := 0; i < 8; i++ {
						select {
						case b := <-banks:
							b.Close()
						default:
						}
					}
				}
			}
		}(g)
	}
	wg.Wait()
	setHooks(nil)
	f, err := os.Create(args[3])
	if err != nil {
		return 2
	}
	defer f.Close()
	enc := json.NewEncoder(f)
	enc.Encode(map[string]any{"op": "conc_schema", "schemaTexts": schemaTexts, "fileInputs": fileInputs})
	for _, s := range sects {
		enc.Encode(s)
	}
	for _, rs := range results {
		for _, r := range rs {
			enc.Encode(r)
		}
	}
	return 0
}

// tzHammerChild: args = [seed, goroutines, parsesPerGoroutine, outFile]. Each goroutine parses its own fixed
// timestamp over and over (a few goroutines share each zone offset, so the zone cache is shared); the distinct
// results it observed are recorded with their counts (de-duplication, not judgement: every distinct
// (text, result) pair is judged by TLC).
// bankHammerChild: after one very large record has been decoded and its bank closed, many goroutines at full speed
// decode small strings, each into a bank of its own that it draws from and returns to the pool on every iteration;
// each looks at its string while the bank is still its own. Distinct (wanted, got) pairs are recorded with counts.
func bankHammerChild(args []string) int {
	var seed int64
	var ng, n int
	fmt.Sscan(args[0], &seed)
	fmt.Sscan(args[1], &ng)
	fmt.Sscan(args[2], &n)
	{
		big := strings.Repeat("x", 200000)
		w := avro.NewWriteBuf(nil)
		w.Varint(int64(len(big)))
		w.Write([]byte(big))
		r := avro.NewReadBuf(w.Bytes())
		var s string
		avro.StringCodec{}.Read(r, unsafe.Pointer(&s))
		r.ExtractResourceBank().Close()
	}
	results := make([]map[[2]string]int, ng)
	var wg sync.WaitGroup
	start := make(chan struct{})
	for g := 0; g < ng; g++ {
		wg.Add(1)
		go func(g int) {
			defer wg.Done()
			mine := []string{fmt.Sprintf("goroutine %d string A, long enough to matter", g), fmt.Sprintf("g%d-B", g), fmt.Sprintf("goroutine %d string C %s", g, strings.Repeat("c", 40))}
			bufs := make([][]byte, len(mine))
			for i, m := range mine {
				wb := avro.NewWriteBuf(nil)
				wb.Varint(int64(len(m)))
				wb.Write([]byte(m))
				bufs[i] = append([]byte{}, wb.Bytes()...)
			}
			seen := map[[2]string]int{}
			<-start
			func() {
				defer func() {
					if rec := recover(); rec != nil {
						seen[[2]string{"no panic", "panic: " + fmt.Sprint(rec)}]++
					}
				}()
				for it := 0; it < n; it++ {
					want := mine[it%3]
					r := avro.NewReadBuf(bufs[it%3])
					var got string
					avro.StringCodec{}.Read(r, unsafe.Pointer(&got))
					if it%64 == 0 {
						runtime.Gosched()
					}
					if got != want { // de-duplication only: every distinct pair goes to the judge
						seen[[2]string{want, strings.Clone(got)}]++
					} else if it < 3 {
						seen[[2]string{want, want}]++
					}
					r.ExtractResourceBank().Close()
				}
			}()
			results[g] = seen
		}(g)
	}
	close(start)
	wg.Wait()
	f, err := os.Create(args[3])
	if err != nil {
		return 2
	}
	defer f.Close()
	enc := json.NewEncoder(f)
	for g, seen := range results {
		for k, cnt := range seen {
			enc.Encode(stressRecord{Op: "conc_str", G: g, N: cnt, S: byteList([]byte(k[0])), Bytes: byteList([]byte(clipS(k[1], 200)))})
		}
	}
	return 0
}

func tzHammerChild(args []string) int {
	var seed int64
	var ng, n int
	fmt.Sscan(args[0], &seed)
	fmt.Sscan(args[1], &ng)
	fmt.Sscan(args[2], &n)
	offs := []int{3600, -3600, 19800, -30060}
	type key struct {
		unixnano int64
		off      int
		out      string
	}
	type obs struct {
		s     string
		seen  map[key]int
		first map[key]time.Time
	}
	results := make([]obs, ng)
	var wg sync.WaitGroup
	start := make(chan struct{})
	for g := 0; g < ng; g++ {
		wg.Add(1)
		go func(g int) {
			defer wg.Done()
			s := time.Date(2001+g, 2, 3, 4, 5, 6, 7000*g, time.FixedZone("", offs[g%len(offs)])).Format(time.RFC3339Nano)
			w := avro.NewWriteBuf(nil)
			w.Varint(int64(len(s)))
			w.Write([]byte(s))
			buf := append([]byte{}, w.Bytes()...)
			o := obs{s: s, seen: map[key]int{}, first: map[key]time.Time{}}
			r := avro.NewReadBuf(buf)
			<-start
			// tight loop: the map of distinct observations is touched only when the result changes
			var last key
			lastCnt := 0
			flush := func() {
				if lastCnt > 0 {
					o.seen[last] += lastCnt
				}
			}
			func() {
				defer func() {
					if rec := recover(); rec != nil {
						flush()
						o.seen[key{0, 0, "panic"}]++
					}
				}()
				codec := avrotime.StringCodec{}
				for k := 0; k < n; k++ {
					var t time.Time
					r.Reset(buf)
					out := "ok"
					if err := codec.Read(r, unsafe.Pointer(&t)); err != nil {
						out = "err"
					}
					_, off := t.Zone()
					kk := key{t.UnixNano(), off, out}
					if kk != last {
						flush()
						last, lastCnt = kk, 0
						if _, ok := o.first[kk]; !ok {
							o.first[kk] = t
						}
					}
					lastCnt++
				}
				flush()
			}()
			r.ExtractResourceBank().Close()
			results[g] = o
		}(g)
	}
	close(start)
	wg.Wait()
	f, err := os.Create(args[3])
	if err != nil {
		return 2
	}
	defer f.Close()
	enc := json.NewEncoder(f)
	for g, o := range results {
		for kk, cnt := range o.seen {
			enc.Encode(stressRecord{Op: "conc_time", G: g, N: cnt, S: byteList([]byte(o.s)), T: timeNode(o.first[kk]), Out: kk.out})
		}
	}
	return 0
}

func driveC12(c *driverCtx) error {
	// (0) single-goroutine nesting discipline (first: nothing can be stuck yet)
	nestingProbe(c)
	// (1) gates
	secs := []string{"registry.w", "registry.r", "schema.w", "schema.r", "tz.w"}
	deadlocked := false
	for _, parked := range secs {
		for _, probe := range secs {
			if strings.Split(parked, ".")[0] != strings.Split(probe, ".")[0] {
				continue
			}
			for rep := 0; rep < c.pick(2, 6) && !deadlocked; rep++ {
				reached, arrived, stuck := gate(parked, probe)
				c.rec.NewCase()
				c.rec.Emit(fmt.Sprintf("C12|gate|%s|%s", parked, probe), map[string]any{"op": "gate", "parked": parked, "probe": probe, "reached": reached, "arrived": arrived})
				if stuck {
					c.rec.Emit(fmt.Sprintf("C12|gate|%s|%s", parked, probe), map[string]any{"op": "progress", "what": "an operation parked in " + parked + " together with one sent to " + probe, "completed": false})
					deadlocked = true // the locks of this process are stuck for good: no further in-process experiments
				}
			}
		}
	}
	// (1a) a registration arriving in the middle of a codec build
	for rep := 0; rep < c.pick(2, 6) && !deadlocked; rep++ {
		ok := buildVsRegister()
		c.rec.NewCase()
		c.rec.Emit("C12|build-vs-register", map[string]any{"op": "progress", "what": "a codec build and a Register call started during it", "completed": ok})
		if !ok {
			break // the goroutines are stuck for good; the registry is unusable from here on
		}
	}
	// (1a') an encoder being made for a row type while a field type of it is re-registered: the encoders made after
	// the re-registration has returned use the new builder (nothing built during the overlap is kept as current)
	for rep := 0; rep < c.pick(2, 6) && !deadlocked; rep++ {
		out := encoderVsReregister()
		c.rec.NewCase()
		c.rec.Emit("C12|encoder-vs-reregister", map[string]any{"op": "conc_reg", "g": 0, "seq": rep, "out": out})
	}
	// (1b) zone-cache hammer in ordinary (fast) children: several rounds, each a fresh process
	for round := 0; round < c.pick(10, 40); round++ {
		self, _ := os.Executable()
		out := c.rec.dir + "/tzhammer.ndjson"
		ng := []int{16, 32, 12, 24}[round%4]
		cmd := exec.Command(self, "-child", "tzhammer", fmt.Sprint(c.seed*100+int64(round)), fmt.Sprint(ng), fmt.Sprint(c.pick(300000, 1000000)), out)
		var stderr bytes.Buffer
		cmd.Stderr = &stderr
		err := cmd.Run()
		events, lerr := loadTLCcases(out)
		os.Remove(out)
		if err != nil || lerr != nil {
			c.rec.NewCase()
			c.rec.Emit("C12|tzhammer", map[string]any{"op": "conc_crash", "detail": clipS(stderr.String(), 1500)})
			continue
		}
		for _, e := range events {
			c.rec.NewCase()
			c.rec.Emit("C12|tzhammer", e)
		}
	}
	c.extra["tzhammer_rounds"] = c.pick(10, 40)
	// (1c) bank-pool hammer in ordinary (fast) children
	for round := 0; round < c.pick(6, 30); round++ {
		self, _ := os.Executable()
		out := c.rec.dir + "/bankhammer.ndjson"
		cmd := exec.Command(self, "-child", "bankhammer", fmt.Sprint(c.seed*100+int64(round)), fmt.Sprint(8+round%9), fmt.Sprint(c.pick(150000, 600000)), out)
		var stderr bytes.Buffer
		cmd.Stderr = &stderr
		err := runWithTimeout(cmd, 3*time.Minute)
		events, lerr := loadTLCcases(out)
		os.Remove(out)
		if err != nil || lerr != nil {
			c.rec.NewCase()
			c.rec.Emit("C12|bankhammer", map[string]any{"op": "conc_crash", "detail": clipS(stderr.String(), 1500)})
			continue
		}
		for _, e := range events {
			c.rec.NewCase()
			c.rec.Emit("C12|bankhammer", e)
		}
	}
	// (2) stress in a -race child
	raceBin := os.Getenv("VERIF_RACE_BIN")
	if raceBin == "" {
		return fmt.Errorf("C12 needs VERIF_RACE_BIN (harness built with -race)")
	}
	for run := 0; run < c.pick(3, 20); run++ {
		out := fmt.Sprintf("%s/stress-%d.ndjson", c.rec.dir, run)
		cmd := exec.Command(raceBin, "-child", "concstress", fmt.Sprint(c.seed*100+int64(run)), fmt.Sprint(c.pick(8, 16)), fmt.Sprint(c.pick(40, 150)), out)
		var stderr bytes.Buffer
		cmd.Stderr = &stderr
		cmd.Env = append(os.Environ(), "GORACE=halt_on_error=0 exitcode=0")
		err := runWithTimeout(cmd, 3*time.Minute)
		if err == errChildTimeout {
			// the goroutines never finished: a deadlock (or livelock) between the operations
			c.rec.NewCase()
			c.rec.Emit(fmt.Sprintf("C12|stress|run%d", run), map[string]any{"op": "conc_crash", "detail": "the stress process did not finish within 3 minutes (deadlock): " + clipS(stderr.String(), 800)})
			break // one deadlock is enough; every further run would cost the full time limit again
		}
		key := fmt.Sprintf("C12|stress|run%d", run)
		c.rec.NewCase()
		libRace, harnessRace := classifyRaces(stderr.String())
		if harnessRace {
			return fmt.Errorf("data race inside harness code (not a verdict):\n%s", clipS(stderr.String(), 3000))
		}
		race := libRace
		if err != nil && !race {
			c.rec.Emit(key, map[string]any{"op": "conc_crash", "detail": clipS(stderr.String(), 1500)})
			continue
		}
		c.rec.Emit(key, map[string]any{"op": "race", "detected": race, "report": clipS(stderr.String(), 1500)})
		events, lerr := loadTLCcases(out)
		os.Remove(out)
		if lerr != nil {
			// the child died before writing its results
			c.rec.Emit(key, map[string]any{"op": "conc_crash", "detail": clipS(stderr.String(), 1500)})
			continue
		}
		var schemaNodes []node
		var fileInputs any
		// section events in sequence-number order, one event
		var sects []any
		for _, e := range events {
			switch e["op"] {
			case "conc_schema":
				for _, t := range e["schemaTexts"].([]any) {
					sn, _ := schemaNodeFromJSON([]byte(t.(string)))
					schemaNodes = append(schemaNodes, sn)
				}
				fileInputs = e["fileInputs"]
			case "sect":
				sects = append(sects, map[string]any{"seq": e["seq"], "sec": e["sec"], "ph": e["ph"]})
			}
		}
		sort.Slice(sects, func(i, j int) bool {
			return sects[i].(map[string]any)["seq"].(float64) < sects[j].(map[string]any)["seq"].(float64)
		})
		c.rec.Emit(key, map[string]any{"op": "sections", "events": sects})
		for _, e := range events {
			switch e["op"] {
			case "conc_rt":
				if idx, _ := e["idx"].(float64); int(idx) < len(schemaNodes) {
					e["schema"] = schemaNodes[int(idx)]
				}
				c.rec.Emit(key, e)
			case "conc_time", "conc_str", "conc_reg", "conc_err", "conc_gen":
				c.rec.Emit(key, e)
			case "conc_file":
				e["inputs"] = fileInputs
				c.rec.Emit(key, e)
			}
		}
	}
	return nil
}

// classifyRaces splits a race-detector report into blocks and tells whether any block has an access stack
// that runs through the library (a verdict) and whether any block involves harness frames only (a harness bug).
func classifyRaces(report string) (lib, harnessOnly bool) {
	for _, blk := range strings.Split(report, "==================") {
		if !strings.Contains(blk, "DATA RACE") {
			continue
		}
		// the access stacks precede the first "Goroutine ... created at" paragraph
		acc := blk
		if i := strings.Index(blk, "created at:"); i >= 0 {
			acc = blk[:i]
		}
		if strings.Contains(acc, "github.com/philpearl/avro") {
			lib = true
		} else {
			harnessOnly = true
		}
	}
	return
}

var errChildTimeout = fmt.Errorf("child timed out")

func runWithTimeout(cmd *exec.Cmd, d time.Duration) error {
	if err := cmd.Start(); err != nil {
		return err
	}
	done := make(chan error, 1)
	go func() { done <- cmd.Wait() }()
	select {
	case err := <-done:
		return err
	case <-time.After(d):
		cmd.Process.Kill()
		<-done
		return errChildTimeout
	}
}
