package main

// C05: the (schema type x Go kind) matrix. For every pair a codec is built for
// struct{Pre; F <kind>; Post; Sib} against record{F: <schema type>}; pairs that
// build decode valid encodings (in and out of range) into the middle element of
// a three-element array whose canary fields and neighbours carry a pattern.
// Judged by spec/Trace_Codec.tla (build_decode): canaries intact and the field
// holds the datum as a value of its own type (GoModel!Rep) -- or the build
// must have failed.

import (
	"encoding/binary"
	"fmt"
	"math"
	"math/rand"
	"reflect"
	"unsafe"

	"github.com/philpearl/avro"
)

func init() { drivers["C05"] = driveC05 }

type kindCase struct {
	name string
	typ  reflect.Type
}

func goKinds() []kindCase {
	i64 := reflect.TypeOf(int64(0))
	str := reflect.TypeOf("")
	ks := []kindCase{
		{"bool", reflect.TypeOf(false)}, {"int", reflect.TypeOf(int(0))}, {"int8", reflect.TypeOf(int8(0))}, {"int16", reflect.TypeOf(int16(0))},
		{"int32", reflect.TypeOf(int32(0))}, {"int64", i64}, {"uint", reflect.TypeOf(uint(0))}, {"uint8", reflect.TypeOf(uint8(0))},
		{"uint16", reflect.TypeOf(uint16(0))}, {"uint32", reflect.TypeOf(uint32(0))}, {"uint64", reflect.TypeOf(uint64(0))},
		{"float32", reflect.TypeOf(float32(0))}, {"float64", reflect.TypeOf(float64(0))}, {"complex64", reflect.TypeOf(complex64(0))},
		{"complex128", reflect.TypeOf(complex128(0))}, {"string", str}, {"bytes", reflect.TypeOf([]byte(nil))},
		{"[0]byte", reflect.TypeOf([0]byte{})}, {"[1]byte", reflect.TypeOf([1]byte{})}, {"[3]byte", reflect.TypeOf([3]byte{})}, {"[4]byte", reflect.TypeOf([4]byte{})},
		{"[8]byte", reflect.TypeOf([8]byte{})}, {"[16]byte", reflect.TypeOf([16]byte{})}, {"[4]int8", reflect.TypeOf([4]int8{})}, {"[2]int64", reflect.TypeOf([2]int64{})},
		{"[3]uint32", reflect.TypeOf([3]uint32{})}, {"[4]uint32", reflect.TypeOf([4]uint32{})}, {"*[3]uint32", reflect.TypeOf((*[3]uint32)(nil))},
		{"[]int64", reflect.SliceOf(i64)}, {"[]int16", reflect.TypeOf([]int16(nil))}, {"[]string", reflect.SliceOf(str)}, {"[]bool", reflect.TypeOf([]bool(nil))},
		{"[]float32", reflect.TypeOf([]float32(nil))}, {"[][4]byte", reflect.TypeOf([][4]byte(nil))}, {"[]int8", reflect.TypeOf([]int8(nil))},
		{"map[string]int64", reflect.MapOf(str, i64)}, {"map[string]string", reflect.MapOf(str, str)}, {"map[string]int16", reflect.TypeOf(map[string]int16(nil))},
		{"map[int]int64", reflect.MapOf(reflect.TypeOf(int(0)), i64)}, {"map[int64]string", reflect.MapOf(i64, str)}, {"map[[2]byte]int64", reflect.TypeOf(map[[2]byte]int64(nil))},
		{"struct{A int64}", reflect.TypeOf(struct {
			A int64 `json:"a"`
		}{})}, {"struct{A int16;B int16}", reflect.TypeOf(struct {
			A int16 `json:"a"`
			B int16 `json:"b"`
		}{})}, {"struct{}", reflect.TypeOf(struct{}{})},
		{"*int64", reflect.PointerTo(i64)}, {"*int16", reflect.TypeOf((*int16)(nil))}, {"*string", reflect.PointerTo(str)}, {"*[4]byte", reflect.TypeOf((*[4]byte)(nil))},
		{"*[16]byte", reflect.TypeOf((*[16]byte)(nil))}, {"[]*[16]byte", reflect.TypeOf([]*[16]byte(nil))}, {"map[string][16]byte", reflect.TypeOf(map[string][16]byte(nil))},
		{"*float32", reflect.TypeOf((*float32)(nil))}, {"*bool", reflect.TypeOf((*bool)(nil))}, {"**int64", reflect.TypeOf((**int64)(nil))},
		{"interface{}", reflect.TypeOf((*any)(nil)).Elem()}, {"chan int", reflect.TypeOf((chan int)(nil))}, {"func()", reflect.TypeOf((func())(nil))},
		{"uintptr", reflect.TypeOf(uintptr(0))}, {"unsafe.Pointer", reflect.TypeOf(unsafe.Pointer(nil))},
	}
	return ks
}

func schemaTypes() []string {
	return []string{
		`"null"`, `"boolean"`, `"int"`, `"long"`, `"float"`, `"double"`, `"bytes"`, `"string"`,
		`{"type":"fixed","name":"F4","size":4}`, `{"type":"fixed","name":"F0","size":0}`, `{"type":"fixed","name":"F16","size":16}`, `{"type":"fixed","name":"F3","size":3}`,
		// logical types the library does not interpret change nothing about what a fixed is
		`{"type":"fixed","name":"D12","size":12,"logicalType":"duration"}`, `{"type":"fixed","name":"D16","size":16,"logicalType":"duration"}`, `{"type":"fixed","name":"Dec8","size":8,"logicalType":"decimal","precision":12,"scale":2}`,
		`{"type":"enum","name":"E","symbols":["A","B"]}`,
		`{"type":"array","items":"long"}`, `{"type":"array","items":"string"}`, `{"type":"array","items":"boolean"}`, `{"type":"array","items":{"type":"fixed","name":"AF4","size":4}}`,
		`{"type":"array","items":{"type":"fixed","name":"AF16","size":4}}`, `{"type":"array","items":"double"}`,
		`{"type":"map","values":"long"}`, `{"type":"map","values":"string"}`, `{"type":"map","values":{"type":"fixed","name":"MF4","size":4}}`,
		`["null","long"]`, `["long","null"]`, `["null","string"]`, `["null",{"type":"fixed","name":"UF4","size":4}]`, `["null","boolean"]`, `["null","float"]`, `["long","string"]`,
		`{"type":"record","name":"R","fields":[{"name":"a","type":"long"}]}`, `{"type":"record","name":"R2","fields":[{"name":"a","type":"long"},{"name":"b","type":"long"}]}`,
		`{"type":"record","name":"R0","fields":[]}`,
	}
}

// randomEncoding produces a valid encoding of a random datum of the schema
// (independent writer: random block compositions, occasional extreme longs).
// encSmallInts: when set, randomEncoding draws longs that fit every Go integer width
var encSmallInts bool

func randomEncoding(rng *rand.Rand, s node, depth int) []byte {
	kids := nodeKids(s)
	var b []byte
	switch nodeStr(s, "k") {
	case "null":
	case "boolean":
		b = append(b, byte(rng.Intn(2)))
	case "int":
		b = appendVar(b, int64(int32(extremeLong(rng))))
	case "long":
		b = appendVar(b, extremeLong(rng))
	case "float":
		b = binary.LittleEndian.AppendUint32(b, math.Float32bits(genFloat32(rng)))
	case "double":
		// float32-representable doubles only: narrowing into a float32 destination is then exact
		// (lossy narrowing is outside what C05 / C03 judge, DESIGN section 7)
		b = binary.LittleEndian.AppendUint64(b, math.Float64bits(float64(genFloat32(rng))))
	case "bytes", "string":
		p := genBytes(rng)
		if len(p) > 70 {
			p = p[:70]
		}
		b = appendVar(b, int64(len(p)))
		b = append(b, p...)
	case "fixed":
		b = append(b, payload(rng, nodeInt(s, "size"))...)
	case "enum":
		syms, _ := s["syms"].([]any)
		b = appendVar(b, int64(rng.Intn(max(len(syms), 1))))
	case "array", "map":
		n := rng.Intn(4)
		if depth > 2 {
			n = rng.Intn(2)
		}
		for n > 0 {
			k := 1 + rng.Intn(n)
			var body []byte
			for i := 0; i < k; i++ {
				if nodeStr(s, "k") == "map" {
					key := fmt.Sprintf("k%d%d", n, i)
					body = appendVar(body, int64(len(key)))
					body = append(body, key...)
				}
				body = append(body, randomEncoding(rng, kids[0], depth+1)...)
			}
			if rng.Intn(2) == 0 {
				b = appendVar(b, int64(-k))
				b = appendVar(b, int64(len(body)))
			} else {
				b = appendVar(b, int64(k))
			}
			b = append(b, body...)
			n -= k
		}
		b = appendVar(b, 0)
	case "union":
		i := rng.Intn(len(kids))
		b = appendVar(b, int64(i))
		b = append(b, randomEncoding(rng, kids[i], depth+1)...)
	case "record":
		for _, f := range kids {
			b = append(b, randomEncoding(rng, nodeKids(f)[0], depth+1)...)
		}
	}
	return b
}

func extremeLong(rng *rand.Rand) int64 {
	if encSmallInts {
		return int64(int16(genInt(rng, 16)))
	}
	switch rng.Intn(6) {
	case 0:
		return []int64{math.MaxInt64, math.MinInt64, math.MaxInt32 + 1, math.MinInt32 - 1, 32768, -32769, 128, -129, 1 << 40}[rng.Intn(9)]
	case 1:
		return []int64{0, 1, -1, 127, -128, 32767, -32768, math.MaxInt32, math.MinInt32}[rng.Intn(9)]
	}
	return genInt(rng, 64)
}

const canaryByte = 0xA5

func driveC05(c *driverCtx) error {
	driveDestShapes(c)
	kinds := goKinds()
	stypes := schemaTypes()
	built, total := 0, 0
	for si, st := range stypes {
		recJSON := `{"type":"record","name":"Top","fields":[{"name":"f","type":` + st + `}]}`
		sn, err := schemaNodeFromJSON([]byte(recJSON))
		if err != nil {
			return fmt.Errorf("harness schema: %v", err)
		}
		fieldSchema := nodeKids(nodeKids(sn)[0])[0]
		sch, err := avro.SchemaFromString(recJSON)
		if err != nil {
			return fmt.Errorf("library cannot parse harness schema %s: %v", recJSON, err)
		}
		for ki, kc := range kinds {
			total++
			t := reflect.StructOf([]reflect.StructField{
				{Name: "Pre", Type: reflect.TypeOf([16]byte{}), Tag: `json:"pre"`},
				{Name: "F", Type: kc.typ, Tag: `json:"f"`},
				{Name: "Post", Type: reflect.TypeOf([16]byte{}), Tag: `json:"post"`},
				{Name: "Sib", Type: reflect.TypeOf(int64(0)), Tag: `json:"sib"`},
			})
			var codec avro.Codec
			bp := catch(func() { codec, err = sch.Codec(reflect.New(t).Interface()) })
			ev := map[string]any{"op": "build_decode", "schema": sn, "schemaText": st, "kind": kc.name, "target": projectType(t),
				"built": bp == "" && err == nil, "buildpanic": bp, "builderr": errString(err), "cases": []any{}}
			key := fmt.Sprintf("C05|%s|%s", shortSchema(st), kc.name)
			if bp != "" || err != nil {
				c.rec.NewCase()
				c.rec.Emit(key, ev)
				continue
			}
			built++
			var cases []any
			for k := 0; k < c.pick(4, 100); k++ {
				b := randomEncoding(c.rng, fieldSchema, 0)
				damaged := false
				if k%4 == 3 && len(b) > 0 {
					damaged = true
					// a damaged encoding: the decode may fail, but it must still stay inside the field
					b[c.rng.Intn(len(b))] = []byte{2, 0x80, 0xff, 0x7f, 3}[c.rng.Intn(5)]
				}
				// array of three elements; decode into the middle one
				arr := reflect.New(reflect.ArrayOf(3, t)).Elem()
				fill := func(v reflect.Value) {
					bs := unsafe.Slice((*byte)(v.Addr().UnsafePointer()), v.Type().Size())
					for i := range bs {
						bs[i] = canaryByte
					}
				}
				fill(arr.Index(0).Field(0))
				fill(arr.Index(0).Field(2))
				fill(arr.Index(0).Field(3))
				fill(arr.Index(2).Field(0))
				fill(arr.Index(2).Field(2))
				fill(arr.Index(2).Field(3))
				mid := arr.Index(1)
				fill(mid.Field(0))
				fill(mid.Field(2))
				fill(mid.Field(3))
				r := avro.NewReadBuf(append(append([]byte{}, b...), 0xEE, 0xEE))
				out, _ := safeCall(func() error { return codec.Read(r, mid.Addr().UnsafePointer()) })
				intact := true
				check := func(v reflect.Value) {
					bs := unsafe.Slice((*byte)(v.Addr().UnsafePointer()), v.Type().Size())
					for _, x := range bs {
						if x != canaryByte {
							intact = false
						}
					}
				}
				for _, e := range []int{0, 1, 2} {
					check(arr.Index(e).Field(0))
					check(arr.Index(e).Field(2))
					check(arr.Index(e).Field(3))
				}
				// the neighbours' F fields must still be zero
				zeroF := arr.Index(0).Field(1).IsZero() && arr.Index(2).Field(1).IsZero()
				var val node
				pp := catch(func() { val = projectValue(mid.Field(1)) })
				if pp != "" {
					val = node{"k": "unprojectable", "n": pp}
				}
				cases = append(cases, map[string]any{"bytes": byteList(b), "rout": out, "left": r.Len(), "canary": intact && zeroF, "value": val, "damaged": damaged})
				r.ExtractResourceBank().Close()
			}
			ev["cases"] = cases
			c.rec.NewCase()
			c.rec.Emit(key, ev)
			_ = ki
		}
		_ = si
	}
	c.extra["pairs"] = total
	c.extra["pairs_built"] = built
	return nil
}

// ---------------------------------------------------------------------------
// destination shapes: what the caller hands to ReadFile / Schema.Codec as `out`, and struct shapes whose
// fields the schema can only reach through an embedded struct. Either the construction fails, or every store
// stays inside the destination: the bytes around it and the fields the schema does not name are compared
// before / after (TLA+ cannot look at Go memory), the content of the destination goes to the judge.

type destRow struct {
	A int64  `json:"a"`
	S string `json:"s"`
	B int64  `json:"b"`
}

type destMeta struct {
	ID  int64  `json:"id"`
	Tag string `json:"tag"`
}

type destEmbedded struct {
	Seq   int64 `json:"seq"`
	Count int64 `json:"count"`
	destMeta
	Tail int64 `json:"tail"`
}

type destEmbeddedExported struct {
	Seq int64 `json:"seq"`
	DestMetaX
	Tail int64 `json:"tail"`
}

type DestMetaX struct {
	ID  int64  `json:"id"`
	Tag string `json:"tag"`
}

const destGuard = 128

// guardedValue allocates a value of type t between two guard areas filled with a pattern (one allocation, so the
// guards really are the neighbouring memory) and returns the value and a function that checks the guards.
func guardedValue(t reflect.Type) (reflect.Value, func() bool) {
	h := reflect.New(reflect.StructOf([]reflect.StructField{
		{Name: "Pre", Type: reflect.TypeOf([destGuard]byte{})},
		{Name: "V", Type: t},
		{Name: "Post", Type: reflect.TypeOf([destGuard]byte{})},
	})).Elem()
	for _, g := range []string{"Pre", "Post"} {
		f := h.FieldByName(g)
		for i := 0; i < f.Len(); i++ {
			f.Index(i).SetUint(0xC3)
		}
	}
	return h.Field(1), func() bool {
		for _, g := range []string{"Pre", "Post"} {
			f := h.FieldByName(g)
			for i := 0; i < f.Len(); i++ {
				if f.Index(i).Uint() != 0xC3 {
					return false
				}
			}
		}
		return true
	}
}

func driveDestShapes(c *driverCtx) {
	const sj = `{"type":"record","name":"Row","fields":[{"name":"a","type":"long"},{"name":"s","type":"string"},{"name":"b","type":"long"}]}`
	sn, _ := schemaNodeFromJSON([]byte(sj))
	rowT := reflect.TypeOf(destRow{})
	var raw []byte
	raw = appendVar(raw, 1234567)
	raw = appendVar(raw, 5)
	raw = append(raw, "hello"...)
	raw = appendVar(raw, -99)
	emit := func(key string, ev map[string]any) {
		ev["op"], ev["schema"] = "dest_decode", sn
		if _, ok := ev["bytes"]; !ok {
			ev["bytes"] = byteList(raw)
		}
		c.rec.NewCase()
		c.rec.Emit("C05|dest|"+key, ev)
	}
	// (a) ReadFile with out = pointer chains of depth 1..3 to the row, and to things that are not structs
	for depth := 1; depth <= 3; depth++ {
		for ci, codec := range codecs3 {
			t := rowT
			for i := 1; i < depth; i++ {
				t = reflect.PointerTo(t)
			}
			dest, guardsOK := guardedValue(t)
			file := buildContainer([]byte(sj), codec, true, []byte("0123456789abcdef"), [][2]any{{1, raw}})
			var err error
			calls := 0
			p := catch(func() {
				err = avro.ReadFile(makeReader(readerKinds[ci], file), dest.Addr().Interface(), func(val unsafe.Pointer, rb *avro.ResourceBank) error {
					calls++
					return nil
				})
			})
			// follow the pointers of the destination down to the row (or nil)
			v := dest
			for v.Kind() == reflect.Pointer && !v.IsNil() {
				v = v.Elem()
			}
			val := node{"k": "nil"}
			if v.Kind() == reflect.Struct {
				val = safeProject(v)
			}
			emit(fmt.Sprintf("readfile|ptr-depth%d|%s", depth, codec), map[string]any{"shape": fmt.Sprintf("ptr-depth%d", depth),
				"built": err == nil && p == "", "buildpanic": p, "err": errString(err), "rout": map[bool]string{true: "ok", false: "err"}[err == nil && calls == 1],
				"canary": guardsOK(), "untouched": true, "value": val, "judgeValue": depth == 1})
		}
	}
	for _, out := range []any{new(int64), new([]destRow), new(map[string]destRow), new(string), new([3]destRow), int64(0), []destRow{}, "x"} {
		file := buildContainer([]byte(sj), "null", true, []byte("0123456789abcdef"), [][2]any{{1, raw}})
		var err error
		p := catch(func() {
			err = avro.ReadFile(makeReader("bytes", file), out, func(val unsafe.Pointer, rb *avro.ResourceBank) error { return nil })
		})
		emit("readfile|not-a-struct|"+reflect.TypeOf(out).String(), map[string]any{"shape": "not-a-struct", "built": err == nil && p == "", "buildpanic": p, "err": errString(err),
			"rout": "ok", "canary": err != nil, "untouched": true, "value": node{"k": "nil"}, "judgeValue": false})
	}
	// (a2) two different struct types that print the same (function-local types of the same name), read one after the
	// other from files with byte-identical schemas: whatever the library remembers about a destination type must be
	// keyed by the type itself
	{
		t1, t2 := sameNameType1(), sameNameType2()
		var raw2 []byte // values that fit the narrow fields of the second type
		raw2 = appendVar(raw2, 1234)
		raw2 = appendVar(raw2, 5)
		raw2 = append(raw2, "hello"...)
		raw2 = appendVar(raw2, -99)
		for round, t := range []reflect.Type{t1, t2, t1} {
			dest, guardsOK := guardedValue(t)
			file := buildContainer([]byte(sj), "null", true, []byte("0123456789abcdef"), [][2]any{{1, raw2}})
			var err error
			p := catch(func() {
				err = avro.ReadFile(makeReader("bytes", file), dest.Addr().Interface(), func(val unsafe.Pointer, rb *avro.ResourceBank) error { return nil })
			})
			emit(fmt.Sprintf("readfile|same-type-name|round%d", round), map[string]any{"shape": "same-type-name", "built": err == nil && p == "", "buildpanic": p, "err": errString(err),
				"rout": map[bool]string{true: "ok", false: "err"}[err == nil], "canary": guardsOK(), "untouched": true, "value": safeProject(dest), "judgeValue": true, "bytes": byteList(raw2)})
		}
	}
	// (b) fields the schema could only reach through an embedded struct: either they are not matched at all or
	// they are stored where they live; the fields the schema does not name keep their content
	const ej = `{"type":"record","name":"E","fields":[{"name":"id","type":"long"},{"name":"tag","type":"string"}]}`
	en, _ := schemaNodeFromJSON([]byte(ej))
	var eraw []byte
	eraw = appendVar(eraw, 4242)
	eraw = appendVar(eraw, 3)
	eraw = append(eraw, "tag"...)
	for _, t := range []reflect.Type{reflect.TypeOf(destEmbedded{}), reflect.TypeOf(destEmbeddedExported{})} {
		sch, err := avro.SchemaFromString(ej)
		if err != nil {
			continue
		}
		var codec avro.Codec
		bp := catch(func() { codec, err = sch.Codec(reflect.New(t).Interface()) })
		ev := map[string]any{"shape": "embedded", "built": bp == "" && err == nil, "buildpanic": bp, "err": errString(err), "rout": "", "canary": true, "untouched": true,
			"value": node{"k": "nil"}, "judgeValue": false}
		if bp == "" && err == nil {
			dest, guardsOK := guardedValue(t)
			const pat = int64(0x5A5A5A5A5A5A5A5A)
			named := []string{"Seq", "Count", "Tail"}
			for _, n := range named {
				if f := dest.FieldByName(n); f.IsValid() {
					f.SetInt(pat)
				}
			}
			r := avro.NewReadBuf(append(append([]byte{}, eraw...), 0xEE, 0xEE))
			rp := catch(func() { err = codec.Read(r, dest.Addr().UnsafePointer()) })
			untouched := true
			for _, n := range named {
				if f := dest.FieldByName(n); f.IsValid() && f.Int() != pat {
					untouched = false
				}
			}
			ev["rout"] = map[bool]string{true: "ok", false: "err"}[err == nil]
			if rp != "" {
				ev["rout"] = "panic"
			}
			ev["canary"], ev["untouched"] = guardsOK(), untouched
			r.ExtractResourceBank().Close()
		}
		ev["op"], ev["schema"], ev["bytes"] = "dest_decode", en, byteList(eraw)
		c.rec.NewCase()
		c.rec.Emit("C05|dest|embedded|"+t.Name(), ev)
	}
}

// two distinct types, both "main.row" to fmt and reflect.Type.String(), with different layouts
func sameNameType1() reflect.Type {
	type row struct {
		A int64  `json:"a"`
		S string `json:"s"`
		B int64  `json:"b"`
	}
	return reflect.TypeOf(row{})
}

func sameNameType2() reflect.Type {
	type row struct {
		B int32 `json:"b"`
		A int16 `json:"a"`
		X [3]byte
		S string `json:"s"`
	}
	return reflect.TypeOf(row{})
}
