package main

// C01 / C02: write values with the library's encoder (Encoder[T] for the
// compile-time types, SchemaForType + Schema.Codec + FileWriter for run-time
// types), record the bytes, read them back with ReadFile and record what was
// delivered. Judged by spec/Trace_Codec.tla.

import (
	"bufio"
	"bytes"
	"fmt"
	"io"
	"math/rand"
	"reflect"
	"strings"
	"unsafe"

	"github.com/philpearl/avro"
	avronull "github.com/philpearl/avro/null"
	avrotime "github.com/philpearl/avro/time"
)

func init() {
	avrotime.RegisterCodecs()
	avronull.RegisterCodecs()
	drivers["C01"] = func(c *driverCtx) error { return driveRoundTrip(c, "C01") }
	drivers["C02"] = func(c *driverCtx) error { return driveRoundTrip(c, "C02") }
}

type rtConfig struct {
	Codec   string
	Block   int
	Flush   map[int]bool // flush after the i-th encode
	Reader  string       // bytes | bufio | onebyte | chunk
	Pointer bool         // ReadFile target is a pointer to the struct
	nest    func()       // run before every write after the first (another, independent writer at work in the same process)
}

// nestWriter runs f before every Write but the first.
type nestWriter struct {
	w io.Writer
	n int
	f func()
}

func (h *nestWriter) Write(p []byte) (int, error) {
	h.n++
	if h.n > 1 {
		h.f()
	}
	return h.w.Write(p)
}

// writer abstraction over the two writing paths
type fileMaker func(w io.Writer, cfg rtConfig, vals []reflect.Value) error

// encodeGeneric is the Encoder[T] path for a compile-time type.
func encodeGeneric[T any](w io.Writer, cfg rtConfig, vals []reflect.Value) error {
	enc, err := avro.NewEncoderFor[T](w, avro.Compression(cfg.Codec), cfg.Block)
	if err != nil {
		return fmt.Errorf("NewEncoderFor: %w", err)
	}
	for i, v := range vals {
		x := v.Addr().Interface().(*T)
		if err := enc.Encode(x); err != nil {
			return fmt.Errorf("Encode %d: %w", i, err)
		}
		if cfg.Flush[i] {
			if err := enc.Flush(); err != nil {
				return fmt.Errorf("Flush after %d: %w", i, err)
			}
		}
	}
	return enc.Flush()
}

// encodeReflect is the non-generic path: the same steps Encoder[T] performs,
// through the public API, for a run-time type.
func encodeReflect(t reflect.Type) fileMaker {
	return func(w io.Writer, cfg rtConfig, vals []reflect.Value) error {
		zero := reflect.New(t).Elem().Interface()
		s, err := avro.SchemaForType(zero)
		if err != nil {
			return fmt.Errorf("SchemaForType: %w", err)
		}
		codec, err := s.Codec(zero)
		if err != nil {
			return fmt.Errorf("Codec: %w", err)
		}
		sb, err := s.Marshal()
		if err != nil {
			return fmt.Errorf("Marshal: %w", err)
		}
		fw, err := avro.NewFileWriter(sb, avro.Compression(cfg.Codec))
		if err != nil {
			return err
		}
		if err := fw.WriteHeader(w); err != nil {
			return err
		}
		// every other file is mirrored: the same FileWriter writes its header (and later every block) to a second
		// destination too; the file that is read back is the first one
		mirror := cfg.Block%2 == 1
		var side bytes.Buffer
		if mirror {
			if err := fw.WriteHeader(&side); err != nil {
				return err
			}
		}
		// all records are encoded into ONE buffer first; every block is then handed to WriteBlock as a sub-slice of
		// it (its capacity reaches into the following blocks): what a caller that batches encodings does. WriteBlock
		// has no business writing into the caller's memory.
		wb := avro.NewWriteBuf(nil)
		type span struct{ from, to, count int }
		var spans []span
		start, count := 0, 0
		cut := func() {
			if count > 0 {
				spans = append(spans, span{start, wb.Len(), count})
			}
			start, count = wb.Len(), 0
		}
		for i, v := range vals {
			codec.Write(wb, v.Addr().UnsafePointer())
			count++
			if wb.Len()-start >= cfg.Block || cfg.Flush[i] {
				cut()
			}
		}
		cut()
		data := wb.Bytes()
		for _, sp := range spans {
			if mirror {
				if err := fw.WriteBlock(&side, sp.count, data[sp.from:sp.to]); err != nil {
					return err
				}
			}
			if err := fw.WriteBlock(w, sp.count, data[sp.from:sp.to]); err != nil {
				return err
			}
		}
		return nil
	}
}

func makeReader(kind string, b []byte) avro.Reader {
	kind, _, _ = strings.Cut(kind, "+")
	switch kind {
	case "buffer":
		return bytes.NewBuffer(append([]byte{}, b...))
	case "strings":
		return strings.NewReader(string(b))
	case "eagereof":
		return &eagerEOFReader{b: b}
	case "bufio":
		return bufio.NewReaderSize(&chunkReader{b: b, max: 7}, 16)
	case "onebyte":
		return &chunkReader{b: b, max: 1}
	case "chunk":
		return &chunkReader{b: b, max: 5}
	}
	return bytes.NewReader(b)
}

// eagerEOFReader returns io.EOF together with the last bytes it has (legal for an io.Reader; network bodies do it)
type eagerEOFReader struct {
	b   []byte
	pos int
}

func (r *eagerEOFReader) Read(p []byte) (int, error) {
	if r.pos >= len(r.b) {
		return 0, io.EOF
	}
	n := copy(p, r.b[r.pos:])
	if n > 4096 {
		n = 4096
	}
	r.pos += n
	if r.pos >= len(r.b) {
		return n, io.EOF
	}
	return n, nil
}

func (r *eagerEOFReader) ReadByte() (byte, error) {
	if r.pos >= len(r.b) {
		return 0, io.EOF
	}
	c := r.b[r.pos]
	r.pos++
	return c, nil
}

type readResult struct {
	delivered []any // projection taken inside the callback
	recheck   []any // projection of the retained copies after the whole read, banks still open
	err       error
	panicked  string
	calls     int
}

// readBack reads a file into type t. Every delivered record is projected in
// the callback, retained (shallow copy + bank, as the documentation
// prescribes) and projected again at the end. failAt >= 0 makes the callback
// fail at that record index with sentinel.
func readBack(t reflect.Type, file []byte, reader string, pointer bool, failAt int, sentinel error) (res readResult) {
	var banks []*avro.ResourceBank
	// kept[i] is the retained shallow copy of record i, or (when its bank was closed at once) nothing: the projection
	// taken in the callback stands in for it
	type keptRec struct {
		v      reflect.Value
		closed bool
		proj   any
	}
	var kept []keptRec
	_, pattern, _ := strings.Cut(reader, "+")
	defer func() {
		if r := recover(); r != nil {
			res.panicked = fmt.Sprint(r)
		}
		for _, k := range kept {
			if k.closed {
				res.recheck = append(res.recheck, k.proj)
			} else {
				res.recheck = append(res.recheck, safeProject(k.v))
			}
		}
		for _, b := range banks {
			b.Close()
		}
	}()
	var out any
	if pointer {
		// the caller's struct is not necessarily zero when it is handed over
		pv := reflect.New(t)
		func() {
			defer func() { recover() }()
			genValue(rand.New(rand.NewSource(int64(len(file)))), pv.Elem(), 1)
		}()
		out = pv.Interface()
	} else {
		out = reflect.New(t).Elem().Interface()
	}
	res.err = avro.ReadFile(makeReader(reader, file), out, func(val unsafe.Pointer, rb *avro.ResourceBank) error {
		idx := res.calls
		res.calls++
		if idx == failAt {
			banks = append(banks, rb)
			return sentinel
		}
		if pattern == "nested" && idx%2 == 0 {
			// another complete read of a file of the same codec before this block has been delivered completely
			avro.ReadFile(bytes.NewReader(file), reflect.New(t).Elem().Interface(), func(_ unsafe.Pointer, rb2 *avro.ResourceBank) error {
				rb2.Close()
				return nil
			})
		}
		v := reflect.NewAt(t, val).Elem()
		proj := safeProject(v)
		res.delivered = append(res.delivered, proj)
		if pattern == "close" || (pattern == "closesome" && idx%2 == 0) {
			// done with this record: its bank goes back at once (and may be handed out again for a later record)
			rb.Close()
			kept = append(kept, keptRec{closed: true, proj: proj})
			return nil
		}
		banks = append(banks, rb)
		cp := reflect.New(t).Elem()
		cp.Set(v)
		kept = append(kept, keptRec{v: cp})
		return nil
	})
	return res
}

func errString(err error) string {
	if err == nil {
		return ""
	}
	return err.Error()
}

func safeMake(mk fileMaker, w io.Writer, cfg rtConfig, vals []reflect.Value) (err error, panicked string) {
	defer func() {
		if r := recover(); r != nil {
			panicked = fmt.Sprint(r)
		}
	}()
	return mk(w, cfg, vals), ""
}

// fileFacts is what the independent splitter sees in the written bytes.
func fileFacts(file []byte, codec string) map[string]any {
	facts := map[string]any{"indep": "ok", "schemaText": []int{}, "blocks": []any{}}
	f, err := splitContainer(file)
	if err != nil {
		facts["indep"] = "fail: " + err.Error()
		facts["schema"] = snode("null", "", "", 0, nil, nil)
		return facts
	}
	text := f.Meta["avro.schema"]
	facts["schemaText"] = byteList(text)
	sn, err := schemaNodeFromJSON(text)
	if err != nil {
		facts["indep"] = "fail: embedded schema is not valid JSON: " + err.Error()
		sn = snode("null", "", "", 0, nil, nil)
	}
	facts["schema"] = sn
	blocks := make([]any, len(f.Blocks))
	for i, b := range f.Blocks {
		raw, ok, crc := indepDecompress(codec, b.Payload)
		blocks[i] = map[string]any{"raw": byteList(raw), "ok": ok, "crc": crc}
	}
	facts["blocks"] = blocks
	return facts
}

type rtCase struct {
	name string
	typ  reflect.Type
	mk   fileMaker
	path string
	tags []string
}

var codecs3 = []string{"null", "deflate", "snappy"}

func runRoundTrip(c *driverCtx, prop string, cs rtCase, vals []reflect.Value, cfg rtConfig, class string) {
	w := &recWriter{}
	var wr io.Writer = w
	if cfg.nest != nil {
		wr = &nestWriter{w: w, f: cfg.nest}
	}
	werr, wpanic := safeMake(cs.mk, wr, cfg, vals)
	file := w.out
	inputs := make([]any, len(vals))
	for i, v := range vals {
		inputs[i] = projectValue(v)
	}
	ev := map[string]any{
		"op": "roundtrip", "mode": prop, "path": cs.path, "name": cs.name, "codec": cfg.Codec, "codecBytes": byteList([]byte(cfg.Codec)),
		"block": cfg.Block, "reader": cfg.Reader, "pointer": cfg.Pointer,
		"inputs": inputs, "werr": errString(werr), "wpanic": wpanic, "nwrites": len(w.calls),
	}
	if prop == "C02" {
		ev["file"] = byteList(file)
		for k, v := range fileFacts(file, cfg.Codec) {
			ev[k] = v
		}
	}
	if prop == "C01" {
		if werr == nil && wpanic == "" {
			r := readBack(cs.typ, file, cfg.Reader, cfg.Pointer, -1, nil)
			ev["delivered"], ev["recheck"] = orEmpty(r.delivered), orEmpty(r.recheck)
			ev["rerr"], ev["rpanic"] = errString(r.err), r.panicked
		} else {
			ev["delivered"], ev["recheck"], ev["rerr"], ev["rpanic"] = []any{}, []any{}, "", ""
		}
	}
	c.rec.NewCase()
	c.rec.Emit(prop+"|"+class, ev)
	if f, err := splitContainer(file); err == nil {
		c.rec.Realised(fmt.Sprintf("blocks=%d", min(len(f.Blocks), 3)))
		for _, b := range f.Blocks {
			if b.Count >= 64 {
				c.rec.Realised("count-2-bytes")
			}
			if len(b.Payload) >= 64 {
				c.rec.Realised("len-2-bytes")
			}
			if len(b.Payload) >= 8192 {
				c.rec.Realised("len-3-bytes")
			}
		}
	}
}

func orEmpty(x []any) []any {
	if x == nil {
		return []any{}
	}
	return x
}

func genConfig(c *driverCtx, nvals int) rtConfig {
	cfg := rtConfig{Codec: codecs3[c.rng.Intn(3)], Flush: map[int]bool{}}
	switch c.rng.Intn(6) {
	case 0:
		cfg.Block = 0
	case 1:
		cfg.Block = 1
	case 2:
		cfg.Block = 64
	case 3:
		cfg.Block = 10000
	default:
		cfg.Block = 1 + c.rng.Intn(300)
	}
	for i := 0; i < nvals; i++ {
		if c.rng.Intn(5) == 0 {
			cfg.Flush[i] = true
		}
	}
	cfg.Reader = readerKinds[c.rng.Intn(len(readerKinds))]
	cfg.Pointer = c.rng.Intn(2) == 0
	return cfg
}

func driveRoundTrip(c *driverCtx, prop string) error {
	feat := featuresFromKnown(prop)
	// compile-time types through Encoder[T]
	reps := c.pick(2, 40)
	// an independent writer of the same codec at work between any two writes of the file under test
	for si, st := range staticCases() {
		for ci, codec := range codecs3 {
			if !c.thorough() && (si+ci)%3 != 0 {
				continue
			}
			inner := staticCases()[(si+1)%len(staticCases())]
			innerVals := genValues(c.rng, inner.typ, 3)
			cfg := rtConfig{Codec: codec, Block: 64, Flush: map[int]bool{}, Reader: readerKinds[(si+ci)%len(readerKinds)]}
			cfg.nest = func() {
				safeMake(inner.mk, &recWriter{}, rtConfig{Codec: codec, Block: 0, Flush: map[int]bool{}}, innerVals)
			}
			runRoundTrip(c, prop, st, genValues(c.rng, st.typ, 5), cfg, "nested-writer|"+st.name)
		}
	}
	for _, st := range staticCases() {
		for k := 0; k < reps; k++ {
			n := 1 + c.rng.Intn(8)
			if k == 0 {
				n = 70 // a block with a two-byte record count
			}
			vals := genValues(c.rng, st.typ, n)
			cfg := genConfig(c, n)
			if k == 0 {
				cfg.Block = 1 << 20
				cfg.Flush = map[int]bool{}
			}
			runRoundTrip(c, prop, st, vals, cfg, "static|"+st.name)
		}
	}
	// run-time types through SchemaForType + Codec + FileWriter
	nt := c.pick(120, 8000)
	for i := 0; i < nt; i++ {
		t, tags := genType(c.rng, feat)
		n := 1 + c.rng.Intn(6)
		if c.rng.Intn(6) == 0 {
			n = 10 + c.rng.Intn(15)
		}
		vals := genValues(c.rng, t, n)
		cfg := genConfig(c, n)
		cs := rtCase{name: fmt.Sprintf("gen%d", i), typ: t, mk: encodeReflect(t), path: "filewriter", tags: tags}
		cls := "gen|" + strings.Join(tags, "+")
		runRoundTrip(c, prop, cs, vals, cfg, cls)
	}
	// TLC-enumerated types (role B): every type for which a schema and a codec exist
	if c.cases != "" {
		ts, err := tlcTypes(c.cases)
		if err != nil {
			return err
		}
		n := 0
		for i, t := range ts {
			zero := reflect.New(t).Elem().Interface()
			s, err := avro.SchemaForType(zero)
			if err != nil {
				continue
			}
			if _, err := s.Codec(zero); err != nil {
				continue
			}
			if !c.thorough() && i%3 != int(c.seed)%3 {
				continue
			}
			if usesExcludedShape(t, feat) {
				continue // a shape listed as a known finding: exercised by its dedicated witness only
			}
			vals := genValues(c.rng, t, 3)
			cfg := genConfig(c, 3)
			runRoundTrip(c, prop, rtCase{name: fmt.Sprintf("tlc%d", i), typ: t, mk: encodeReflect(t), path: "filewriter"}, vals, cfg, "tlc")
			n++
		}
		c.extra["tlc_types_roundtripped"] = n
	}
	// dedicated minimal witnesses (one feature each, including every known finding)
	for _, wt := range witnessCases() {
		for k := 0; k < 3; k++ {
			if prop == "C02" && wt.name == "thousands-of-small-records" && k > 0 {
				continue // (C02's judge parses the container itself: thousands of blocks cost it minutes; the one-block file stays)
			}
			vals := wt.values(c)
			// one big block; one record per block; small blocks
			cfg := rtConfig{Codec: codecs3[k%3], Block: []int{1 << 20, 0, 64}[k], Flush: map[int]bool{}, Reader: []string{"bytes", "bufio+closesome", "chunk+close"}[k]}
			runRoundTrip(c, prop, wt.rtCase, vals, cfg, "witness|"+wt.name)
		}
	}
	// size sweep: lengths around every power of two
	// up to 2^17 for strings, byte strings, lists and maps, each length its own file with neighbours before and after
	{
		st := staticOf[WSweep]("WSweep")
		var sizes []int
		for k := 5; k <= 17; k++ {
			for _, d := range []int{-1, 0, 1} {
				sizes = append(sizes, 1<<k+d)
			}
		}
		sizes = append(sizes, 15, 16, 17, 1000, 10000, 100000, 3*4096, 5*8192)
		for i, n := range sizes {
			if !c.thorough() && n > 1<<15+1 && i%3 != int(c.seed)%3 {
				continue // the largest sizes rotate with the seed in the quick tier
			}
			mk := func(which int) WSweep {
				v := WSweep{Before: int64(n), After: "after"}
				switch which {
				case 0:
					v.S = strings.Repeat("s", n)
				case 1:
					v.B = payload(c.rng, n)
				case 2:
					if n <= 1<<14+1 {
						v.L = make([]int32, n)
						for j := range v.L {
							v.L[j] = int32(j % 100)
						}
					}
					if n <= 1<<10+1 { // items of every fixed width, and strings
						v.LF, v.LD, v.LB, v.LS = make([]float32, n), make([]float64, n), make([]bool, n), make([]string, n)
						for j := 0; j < n; j++ {
							v.LF[j], v.LD[j], v.LB[j], v.LS[j] = float32(j)+0.5, float64(j)-0.25, j%3 == 0, fmt.Sprint(j)
						}
					}
				case 3:
					if n <= 1<<12+1 {
						v.M = make(map[string]int16, n)
						for j := 0; j < n; j++ {
							v.M[fmt.Sprintf("%x", j)] = int16(j % 100)
						}
					}
				}
				return v
			}
			for which := 0; which < 4; which++ {
				vs := vals(mk(which), WSweep{Before: -1, After: "small"}, mk(which))(c)
				cfg := rtConfig{Codec: codecs3[(i+which)%3], Block: []int{1 << 20, 0, 4096}[(i+which)%3], Flush: map[int]bool{}, Reader: readerKinds[(i+which)%len(readerKinds)]}
				runRoundTrip(c, prop, st, vs, cfg, fmt.Sprintf("sweep|%s", []string{"string", "bytes", "list", "map"}[which]))
			}
		}
	}
	return nil
}

// WSweep: one long value between two short ones
type WSweep struct {
	Before int64
	S      string
	B      []byte
	L      []int32
	LF     []float32
	LD     []float64
	LB     []bool
	LS     []string
	M      map[string]int16
	After  string
}

// usesExcludedShape: does the type contain a shape the known-findings list keeps out of composite cases?
func usesExcludedShape(t reflect.Type, f features) bool {
	switch t.Kind() {
	case reflect.Ptr:
		e := t.Elem()
		if e.Kind() == reflect.Ptr && !f.PtrPtr {
			return true
		}
		if isNullWrapper(e) && !f.PtrNullWrapper {
			return true
		}
		return usesExcludedShape(e, f)
	case reflect.Slice, reflect.Array:
		return usesExcludedShape(t.Elem(), f)
	case reflect.Map:
		return usesExcludedShape(t.Elem(), f)
	case reflect.Struct:
		if isNullableRegistered(t) {
			return false
		}
		for i := 0; i < t.NumField(); i++ {
			if usesExcludedShape(t.Field(i).Type, f) {
				return true
			}
		}
	}
	return false
}
