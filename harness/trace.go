package main

import (
	"bufio"
	"encoding/json"
	"fmt"
	"os"
	"path/filepath"
	"sort"
)

// Recorder writes events as ndjson, spread over shard files so that several
// TLC judges can run in parallel. Events of one case stay in one shard.
type Recorder struct {
	dir      string
	shards   []*bufio.Writer
	files    []*os.File
	counts   []int
	written  []int64 // bytes in the current file of each lane
	roll     []int   // file number of each lane
	preamble map[string]any
	closed   []string
	n        int
	next     int
	// coverage bookkeeping reported in meta.json
	keys    map[string]int // finding/case keys -> events
	realise map[string]int // concretisation counters (abstract distinction -> realisations)
	samples []any
	bytes   int64
}

// a driver whose trace grows beyond this is a bug in the driver's bounds (exit 2), not something to write to disk
const maxTraceBytes = 4 << 30

func NewRecorder(dir string, shards int) (*Recorder, error) {
	if err := os.MkdirAll(dir, 0o755); err != nil {
		return nil, err
	}
	r := &Recorder{dir: dir, keys: map[string]int{}, realise: map[string]int{}, samples: []any{}}
	for i := 0; i < shards; i++ {
		f, err := os.Create(filepath.Join(dir, fmt.Sprintf("trace-%02d.ndjson", i)))
		if err != nil {
			return nil, err
		}
		r.files = append(r.files, f)
		r.shards = append(r.shards, bufio.NewWriterSize(f, 1<<20))
		r.counts = append(r.counts, 0)
		r.written = append(r.written, 0)
		r.roll = append(r.roll, 0)
	}
	return r, nil
}

// a judge holds one shard in memory: shards are rolled over at this size
const maxShardBytes = 12 << 20

// SetPreamble sets an event that is written again at the start of a new shard file when the current
// case continues there (stateful trace specs need it to re-establish their state). Cleared by NewCase.
func (r *Recorder) SetPreamble(ev map[string]any) { r.preamble = ev }

func (r *Recorder) rollOver(lane int) {
	r.shards[lane].Flush()
	r.files[lane].Close()
	r.roll[lane]++
	f, err := os.Create(filepath.Join(r.dir, fmt.Sprintf("trace-%02d-%03d.ndjson", lane, r.roll[lane])))
	if err != nil {
		panic(err)
	}
	r.files[lane] = f
	r.shards[lane] = bufio.NewWriterSize(f, 1<<20)
	r.written[lane] = 0
	if r.preamble != nil {
		b, _ := json.Marshal(r.preamble)
		r.shards[lane].Write(b)
		r.shards[lane].WriteByte('\n')
		r.written[lane] += int64(len(b))
	}
}

// NewCase moves to the next shard (round robin); all events until the next
// NewCase go to the same shard.
func (r *Recorder) NewCase() {
	r.next = (r.next + 1) % len(r.shards)
	r.preamble = nil
	if r.written[r.next] > maxShardBytes {
		r.rollOver(r.next)
	}
}

// Emit writes one event. key is the case/finding key of the event.
func (r *Recorder) Emit(key string, ev map[string]any) {
	ev["key"] = key
	ev["seq"] = r.n
	b, err := json.Marshal(ev)
	if err != nil {
		panic(fmt.Sprintf("harness: cannot marshal event: %v", err))
	}
	r.bytes += int64(len(b))
	if r.bytes > maxTraceBytes {
		panic(fmt.Sprintf("harness: the trace exceeds %d bytes; refusing to fill the disk (bound the driver)", maxTraceBytes))
	}
	if r.written[r.next] > maxShardBytes && r.preamble != nil {
		r.rollOver(r.next) // a long case continues in a new shard file, re-introduced by its preamble
	}
	w := r.shards[r.next]
	w.Write(b)
	w.WriteByte('\n')
	r.written[r.next] += int64(len(b))
	r.counts[r.next]++
	r.n++
	r.keys[key]++
	if len(r.samples) < 3 {
		if len(b) < 4000 {
			r.samples = append(r.samples, json.RawMessage(b))
		} else if r.n%7 == 1 || r.n == 1 {
			r.samples = append(r.samples, map[string]any{"key": key, "op": ev["op"], "note": fmt.Sprintf("event of %d bytes, first 1500 shown", len(b)), "head": string(b[:1500])})
		}
	}
}

func (r *Recorder) Realised(what string) { r.realise[what]++ }

func (r *Recorder) Close(extra map[string]any) error {
	for i, w := range r.shards {
		if err := w.Flush(); err != nil {
			return err
		}
		if err := r.files[i].Close(); err != nil {
			return err
		}
	}
	keys := make([]string, 0, len(r.keys))
	for k := range r.keys {
		keys = append(keys, k)
	}
	sort.Strings(keys)
	meta := map[string]any{
		"events":        r.n,
		"shard_counts":  r.counts,
		"distinct_keys": len(keys),
		"realised":      r.realise,
		"samples":       r.samples,
	}
	if len(keys) <= 400 {
		meta["keys"] = keys
	}
	for k, v := range extra {
		meta[k] = v
	}
	b, _ := json.MarshalIndent(meta, "", " ")
	return os.WriteFile(filepath.Join(r.dir, "meta.json"), b, 0o644)
}
