package main

// Projection of Go values, Go types and schemas to the abstract JSON nodes the
// TLA+ specification judges (spec/GoModel.tla, spec/AvroWire.tla describe the
// shapes). This is the only harness code whose correctness is trusted: it uses
// reflect, math, encoding/binary and encoding/json and nothing from the
// library under test.

import (
	"encoding/binary"
	"encoding/json"
	"fmt"
	"math"
	"reflect"
	"runtime/debug"
	"sort"
	"strings"
	"time"
	"unsafe"

	"github.com/unravelin/null/v5"
)

type node = map[string]any

func byteList(b []byte) []int {
	out := make([]int, len(b))
	for i, x := range b {
		out[i] = int(x)
	}
	return out
}

func le64(v uint64) []int {
	var b [8]byte
	binary.LittleEndian.PutUint64(b[:], v)
	return byteList(b[:])
}

func le32(v uint32) []int {
	var b [4]byte
	binary.LittleEndian.PutUint32(b[:], v)
	return byteList(b[:])
}

var (
	timeT       = reflect.TypeOf(time.Time{})
	nullIntT    = reflect.TypeOf(null.Int{})
	nullBoolT   = reflect.TypeOf(null.Bool{})
	nullFloatT  = reflect.TypeOf(null.Float{})
	nullStringT = reflect.TypeOf(null.String{})
	nullTimeT   = reflect.TypeOf(null.Time{})
)

// avroName is the documented naming rule: exported, not bq:"-", json name or Go name.
func avroName(sf reflect.StructField) string {
	if !sf.IsExported() {
		return "-"
	}
	if sf.Tag.Get("bq") == "-" {
		return "-"
	}
	name, _, _ := strings.Cut(sf.Tag.Get("json"), ",")
	if name == "-" {
		return "-"
	}
	if name == "" {
		return sf.Name
	}
	return name
}

func jsonOpts(sf reflect.StructField) []string {
	_, opts, _ := strings.Cut(sf.Tag.Get("json"), ",")
	if opts == "" {
		return []string{}
	}
	return strings.Split(opts, ",")
}

func hasOmitEmpty(sf reflect.StructField) bool {
	for _, o := range jsonOpts(sf) {
		if o == "omitempty" {
			return true
		}
	}
	return false
}

func f64node(f float64) node {
	return node{"k": "f64", "b": le64(math.Float64bits(f)), "b32": le32(math.Float32bits(float32(f))), "nan": f != f}
}

func timeNode(t time.Time) node {
	_, off := t.Zone()
	b := append(le64(uint64(t.Unix())), le32(uint32(t.Nanosecond()))...)
	unix := t.Unix()
	days := unix / 86400
	if unix%86400 < 0 {
		days--
	}
	y, mo, d := t.Date()
	h, mi, s := t.Clock()
	return node{"k": "time", "b": b, "off": off, "zero": t.IsZero(),
		"y": y, "mo": int(mo), "d": d, "h": h, "mi": mi, "s": s, "ns": t.Nanosecond(),
		"days": int(days), "sod": int(unix - days*86400)}
}

// safeProject is projectValue for values that may have been damaged (dangling or overwritten memory):
// a panic or memory fault while reading the value is itself the observation.
func safeProject(v reflect.Value) (n node) {
	defer func() {
		if r := recover(); r != nil {
			n = node{"k": "unprojectable", "n": fmt.Sprint(r)}
		}
	}()
	old := debug.SetPanicOnFault(true)
	defer debug.SetPanicOnFault(old)
	return projectValue(v)
}

// projectValue turns a Go value into a value node.
func projectValue(v reflect.Value) node {
	t := v.Type()
	if name, ok := customNames[t]; ok {
		// a value of a harness-defined custom type: its underlying value, marked
		under := v
		switch t.Kind() {
		case reflect.String:
			under = reflect.ValueOf(v.String())
		case reflect.Slice:
			under = v.Convert(reflect.SliceOf(t.Elem()))
		case reflect.Float64:
			under = reflect.ValueOf(v.Float())
		case reflect.Int64:
			under = reflect.ValueOf(v.Int())
		case reflect.Bool:
			under = reflect.ValueOf(v.Bool())
		case reflect.Array:
			// an (unnamed) byte array type: its bytes
			b := make([]byte, v.Len())
			for i := range b {
				b[i] = byte(v.Index(i).Uint())
			}
			under = reflect.ValueOf(b)
		case reflect.Struct:
			// the fields, projected as an anonymous struct
			fs := make([]any, t.NumField())
			for i := range fs {
				fs[i] = node{"k": "field", "n": t.Field(i).Name, "omit": false, "c": []any{projectValue(v.Field(i))}}
			}
			return node{"k": "custom", "n": name, "c": []any{node{"k": "struct", "c": fs}}}
		}
		return node{"k": "custom", "n": name, "c": []any{projectValue(under)}}
	}
	if !v.CanAddr() && v.CanInterface() {
		// work on an addressable copy so that unexported fields below can be read
		c := reflect.New(t).Elem()
		c.Set(v)
		v = c
	}
	switch t {
	case timeT:
		return timeNode(fieldIface(v).(time.Time))
	case nullIntT:
		x := fieldIface(v).(null.Int)
		return node{"k": "nullint", "valid": x.Valid, "c": []any{node{"k": "int", "w": 8, "b": le64(uint64(x.Int64))}}}
	case nullBoolT:
		x := fieldIface(v).(null.Bool)
		return node{"k": "nullbool", "valid": x.Valid, "c": []any{boolNode(x.Bool)}}
	case nullFloatT:
		x := fieldIface(v).(null.Float)
		return node{"k": "nullfloat", "valid": x.Valid, "c": []any{f64node(x.Float64)}}
	case nullStringT:
		x := fieldIface(v).(null.String)
		return node{"k": "nullstring", "valid": x.Valid, "c": []any{node{"k": "string", "b": byteList([]byte(x.String))}}}
	case nullTimeT:
		x := fieldIface(v).(null.Time)
		return node{"k": "nulltime", "valid": x.Valid, "c": []any{timeNode(x.Time)}}
	}
	switch t.Kind() {
	case reflect.Bool:
		// the raw byte: a bool variable may have been given a byte that is neither 0 nor 1
		return node{"k": "bool", "b": []int{int(rawBytes(v)[0])}}
	case reflect.Int, reflect.Int8, reflect.Int16, reflect.Int32, reflect.Int64:
		return node{"k": "int", "w": int(t.Size()), "b": le64(uint64(v.Int()))}
	case reflect.Uint, reflect.Uint8, reflect.Uint16, reflect.Uint32, reflect.Uint64, reflect.Uintptr:
		return node{"k": "uint", "w": int(t.Size()), "b": le64(v.Uint())}
	case reflect.Float32:
		// read the raw bits: v.Float() converts through float64, which quiets signalling NaNs
		bits := binary.LittleEndian.Uint32(rawBytes(v))
		f := math.Float32frombits(bits)
		return node{"k": "f32", "b": le32(bits), "b2": le64(math.Float64bits(float64(f))), "nan": f != f}
	case reflect.Float64:
		bits := binary.LittleEndian.Uint64(rawBytes(v))
		n := f64node(math.Float64frombits(bits))
		n["b"] = le64(bits)
		return n
	case reflect.String:
		return node{"k": "string", "b": byteList([]byte(v.String()))}
	case reflect.Slice:
		if t.Elem().Kind() == reflect.Uint8 {
			return node{"k": "bytes", "b": byteList(v.Bytes()), "nil": v.IsNil()}
		}
		c := make([]any, v.Len())
		for i := range c {
			c[i] = projectValue(v.Index(i))
		}
		return node{"k": "slice", "c": c, "nil": v.IsNil()}
	case reflect.Array:
		if t.Elem().Kind() == reflect.Uint8 {
			b := make([]int, v.Len())
			for i := range b {
				b[i] = int(v.Index(i).Uint())
			}
			return node{"k": "bytearr", "b": b}
		}
		c := make([]any, v.Len())
		for i := range c {
			c[i] = projectValue(v.Index(i))
		}
		return node{"k": "array", "c": c}
	case reflect.Map:
		if t.Key().Kind() != reflect.String {
			return node{"k": "other", "n": t.String(), "zero": v.IsZero()}
		}
		// iterate (no lookups): a map whose key memory was overwritten must still be projectable
		type kv struct {
			k string
			v reflect.Value
		}
		var kvs []kv
		it := v.MapRange()
		for it.Next() {
			kvs = append(kvs, kv{strings.Clone(it.Key().String()), it.Value()})
		}
		sort.SliceStable(kvs, func(i, j int) bool { return kvs[i].k < kvs[j].k })
		c := make([]any, len(kvs))
		for i, e := range kvs {
			c[i] = node{"k": "entry", "b": byteList([]byte(e.k)), "c": []any{projectValue(e.v)}}
		}
		return node{"k": "map", "c": c, "nil": v.IsNil()}
	case reflect.Ptr:
		if v.IsNil() {
			return node{"k": "ptr", "c": []any{}}
		}
		return node{"k": "ptr", "c": []any{projectValue(v.Elem())}}
	case reflect.Struct:
		c := make([]any, t.NumField())
		for i := range c {
			sf := t.Field(i)
			c[i] = node{"k": "field", "n": avroName(sf), "omit": hasOmitEmpty(sf), "c": []any{projectValue(v.Field(i))}}
		}
		return node{"k": "struct", "c": c}
	}
	return node{"k": "other", "n": t.String(), "zero": v.IsZero()}
}

// rawBytes returns the memory image of a (non-pointer-containing) value.
func rawBytes(v reflect.Value) []byte {
	if !v.CanAddr() {
		c := reflect.New(v.Type()).Elem()
		if v.CanInterface() {
			c.Set(v)
		} else {
			// value read out of an unexported field of a non-addressable struct
			switch v.Kind() {
			case reflect.Bool:
				c.SetBool(v.Bool())
			default:
				c.SetFloat(v.Float())
			}
		}
		v = c
	}
	return append([]byte{}, unsafe.Slice((*byte)(v.Addr().UnsafePointer()), v.Type().Size())...)
}

func boolNode(b bool) node {
	if b {
		return node{"k": "bool", "b": []int{1}}
	}
	return node{"k": "bool", "b": []int{0}}
}

// fieldIface reads a value even when it came from an unexported field.
func fieldIface(v reflect.Value) any {
	if v.CanInterface() {
		return v.Interface()
	}
	c := reflect.New(v.Type()).Elem()
	if v.CanAddr() {
		c = reflect.NewAt(v.Type(), v.Addr().UnsafePointer()).Elem()
		return c.Interface()
	}
	panic("cannot read unexported non-addressable field")
}

// projectType turns a Go type into a type node [k, w, name, c] (+ field facts).
func projectType(t reflect.Type) node {
	return projectTypeRec(t, map[reflect.Type]bool{})
}

func tnode(k string, w int, name string, c ...any) node {
	if c == nil {
		c = []any{}
	}
	return node{"k": k, "w": w, "name": name, "c": c}
}

func projectTypeRec(t reflect.Type, open map[reflect.Type]bool) node {
	switch t {
	case timeT:
		return tnode("time", 0, "")
	case nullIntT:
		return tnode("nullint", 0, "")
	case nullBoolT:
		return tnode("nullbool", 0, "")
	case nullFloatT:
		return tnode("nullfloat", 0, "")
	case nullStringT:
		return tnode("nullstring", 0, "")
	case nullTimeT:
		return tnode("nulltime", 0, "")
	}
	switch t.Kind() {
	case reflect.Bool:
		return tnode("bool", 1, t.Name())
	case reflect.Int, reflect.Int8, reflect.Int16, reflect.Int32, reflect.Int64:
		return tnode("int", int(t.Size()), t.Name())
	case reflect.Uint, reflect.Uint8, reflect.Uint16, reflect.Uint32, reflect.Uint64, reflect.Uintptr:
		return tnode("uint", int(t.Size()), t.Name())
	case reflect.Float32:
		return tnode("f32", 4, t.Name())
	case reflect.Float64:
		return tnode("f64", 8, t.Name())
	case reflect.Complex64, reflect.Complex128:
		return tnode("complex", int(t.Size()), t.Name())
	case reflect.String:
		return tnode("string", 16, t.Name())
	case reflect.Slice:
		if t.Elem().Kind() == reflect.Uint8 {
			return tnode("bytes", 24, t.Name())
		}
		return tnode("slice", 24, t.Name(), projectTypeRec(t.Elem(), open))
	case reflect.Array:
		if t.Elem().Kind() == reflect.Uint8 {
			if cn, ok := customNames[t]; ok && t.Name() == "" {
				return tnode("bytearr", t.Len(), cn) // an unnamed type the harness registers under this name
			}
			return tnode("bytearr", t.Len(), t.Name())
		}
		return tnode("array", t.Len(), t.Name(), projectTypeRec(t.Elem(), open))
	case reflect.Map:
		return tnode("map", 8, t.Name(), projectTypeRec(t.Key(), open), projectTypeRec(t.Elem(), open))
	case reflect.Ptr:
		return tnode("ptr", 8, t.Name(), projectTypeRec(t.Elem(), open))
	case reflect.Struct:
		if open[t] {
			return tnode("recursion", 0, t.Name())
		}
		open[t] = true
		defer delete(open, t)
		c := make([]any, t.NumField())
		for i := range c {
			sf := t.Field(i)
			name, _, _ := strings.Cut(sf.Tag.Get("json"), ",")
			c[i] = node{
				"k": "field", "n": avroName(sf), "omit": hasOmitEmpty(sf),
				"goName": sf.Name, "exported": sf.IsExported(), "embedded": sf.Anonymous,
				"jsonName": name, "jsonOpts": jsonOpts(sf), "bq": sf.Tag.Get("bq"),
				"off": int(sf.Offset), "size": int(sf.Type.Size()),
				"c": []any{projectTypeRec(sf.Type, open)},
			}
		}
		n := tnode("struct", int(t.Size()), t.Name(), c...)
		n["pkg"] = t.PkgPath()
		// Avro namespace of the package path: '/' -> '.', '-' -> '_' (documented in schemaForStruct)
		n["ns"] = strings.NewReplacer("/", ".", "-", "_").Replace(t.PkgPath())
		return n
	case reflect.Interface:
		return tnode("iface", 16, t.Name())
	case reflect.Chan:
		return tnode("chan", 8, t.Name())
	case reflect.Func:
		return tnode("func", 8, t.Name())
	case reflect.UnsafePointer:
		return tnode("unsafeptr", 8, t.Name())
	}
	return tnode("other", int(t.Size()), t.String())
}

// ---------------------------------------------------------------------------
// schemas: from JSON text, parsed with encoding/json (independent of the
// library's own schema parser)

func snode(k, name, lt string, size int, syms []string, c []any) node {
	if syms == nil {
		syms = []string{}
	}
	if c == nil {
		c = []any{}
	}
	return node{"k": k, "name": name, "lt": lt, "size": size, "syms": syms, "c": c, "ns": ""}
}

func schemaNodeFromJSON(text []byte) (node, error) {
	dec := json.NewDecoder(strings.NewReader(string(text)))
	dec.UseNumber()
	var v any
	if err := dec.Decode(&v); err != nil {
		return nil, err
	}
	if dec.More() {
		return nil, fmt.Errorf("trailing data after schema")
	}
	return schemaNodeFromAny(v)
}

func schemaNodeFromAny(v any) (node, error) {
	switch x := v.(type) {
	case string:
		return snode(x, "", "", 0, nil, nil), nil
	case []any:
		c := make([]any, len(x))
		for i, b := range x {
			n, err := schemaNodeFromAny(b)
			if err != nil {
				return nil, err
			}
			c[i] = n
		}
		return snode("union", "", "", 0, nil, c), nil
	case map[string]any:
		typ, ok := x["type"]
		if !ok {
			return nil, fmt.Errorf("schema object without type")
		}
		ts, ok := typ.(string)
		if !ok {
			// {"type": {...}} or {"type": [...]}: the nested schema with no extra attributes
			return schemaNodeFromAny(typ)
		}
		str := func(key string) string {
			s, _ := x[key].(string)
			return s
		}
		n := snode(ts, str("name"), str("logicalType"), 0, nil, nil)
		n["ns"] = str("namespace")
		switch ts {
		case "record":
			fs, _ := x["fields"].([]any)
			c := make([]any, len(fs))
			for i, f := range fs {
				fm, ok := f.(map[string]any)
				if !ok {
					return nil, fmt.Errorf("field is not an object")
				}
				ft, err := schemaNodeFromAny(fm["type"])
				if err != nil {
					return nil, err
				}
				fname, _ := fm["name"].(string)
				c[i] = snode("field", fname, "", 0, nil, []any{ft})
			}
			n["c"] = c
		case "array":
			it, err := schemaNodeFromAny(x["items"])
			if err != nil {
				return nil, err
			}
			n["c"] = []any{it}
		case "map":
			it, err := schemaNodeFromAny(x["values"])
			if err != nil {
				return nil, err
			}
			n["c"] = []any{it}
		case "fixed":
			if num, ok := x["size"].(json.Number); ok {
				i, _ := num.Int64()
				n["size"] = int(i)
			}
		case "enum":
			sy, _ := x["symbols"].([]any)
			ss := make([]string, len(sy))
			for i, s := range sy {
				ss[i], _ = s.(string)
			}
			n["syms"] = ss
		}
		return n, nil
	}
	return nil, fmt.Errorf("unexpected JSON value %T in schema", v)
}
