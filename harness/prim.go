package main

// C17: the public primitive codecs and the varint routines.

import (
	"bytes"
	"fmt"
	"math"
	"reflect"
	"runtime"
	"unsafe"

	"github.com/philpearl/avro"
)

func init() {
	drivers["C17"] = driveC17
	drivers["C17W"] = driveC17Widths
}

// driveC17Widths: the same primitives reached the way users reach them -- through codecs built from a schema for a
// struct: every (schema primitive, Go width) pair the library supports, alone and as array items (short and long
// arrays), with boundary values of the narrower side. Events are cs_roundtrip (judged by Trace_Codec: the bytes are
// the Avro encoding of the value under the schema, and decoding returns the value).
func driveC17Widths(c *driverCtx) error {
	i64, i32, i16, i := reflect.TypeOf(int64(0)), reflect.TypeOf(int32(0)), reflect.TypeOf(int16(0)), reflect.TypeOf(int(0))
	f32, f64, b := reflect.TypeOf(float32(0)), reflect.TypeOf(float64(0)), reflect.TypeOf(false)
	type pair struct {
		schema string
		typ    reflect.Type
		bits   int // integer values are taken from this many bits (0: not an integer)
	}
	pairs := []pair{
		{`"int"`, i64, 32}, {`"int"`, i, 32}, {`"int"`, i32, 32}, {`"int"`, i16, 16},
		{`"long"`, i64, 64}, {`"long"`, i, 64}, {`"long"`, i32, 32}, {`"long"`, i16, 16},
		{`"float"`, f32, 0}, {`"double"`, f32, 0}, {`"double"`, f64, 0}, {`"boolean"`, b, 0},
	}
	set := func(v reflect.Value, bits, k int) {
		switch v.Kind() {
		case reflect.Int, reflect.Int16, reflect.Int32, reflect.Int64:
			bs := intBoundaries(bits)
			v.SetInt(bs[(k*7+3)%len(bs)])
		case reflect.Float32:
			ps := float32Patterns()
			v.SetFloat(float64(math.Float32frombits(ps[k%len(ps)])))
			if p := ps[k%len(ps)]; p&0x7f800000 == 0x7f800000 && p&0x007fffff != 0 {
				v.SetFloat(1.5) // NaN payloads are prim.go's business, not this driver's
			}
		case reflect.Float64:
			ps := float64Patterns()
			f := math.Float64frombits(ps[k%len(ps)])
			if f != f {
				f = -2.25
			}
			v.SetFloat(f)
		case reflect.Bool:
			v.SetBool(k%2 == 0)
		}
	}
	n := 0
	for _, p := range pairs {
		// alone
		t := reflect.StructOf([]reflect.StructField{{Name: "F", Type: p.typ, Tag: `json:"f"`}, {Name: "Z", Type: i64, Tag: `json:"z"`}})
		sj := fmt.Sprintf(`{"type":"record","name":"W%d","fields":[{"name":"f","type":%s},{"name":"z","type":"long"}]}`, n, p.schema)
		n++
		for k := 0; k < c.pick(40, 400); k++ {
			v := reflect.New(t).Elem()
			set(v.Field(0), p.bits, k)
			v.Field(1).SetInt(int64(k))
			emitCS(c, "C13", fmt.Sprintf("C17|width|%s|%s", p.schema, p.typ.Kind()), sj, t, v, true)
		}
		// as array items: short arrays and arrays long enough for any bulk path
		ta := reflect.StructOf([]reflect.StructField{{Name: "F", Type: reflect.SliceOf(p.typ), Tag: `json:"f"`}, {Name: "Z", Type: i64, Tag: `json:"z"`}})
		sa := fmt.Sprintf(`{"type":"record","name":"W%d","fields":[{"name":"f","type":{"type":"array","items":%s}},{"name":"z","type":"long"}]}`, n, p.schema)
		n++
		for _, ln := range []int{1, 2, 15, 16, 17, 33, 64, 100} {
			v := reflect.New(ta).Elem()
			sl := reflect.MakeSlice(ta.Field(0).Type, ln, ln)
			for j := 0; j < ln; j++ {
				set(sl.Index(j), p.bits, j+ln)
			}
			v.Field(0).Set(sl)
			v.Field(1).SetInt(int64(ln))
			emitCS(c, "C13", fmt.Sprintf("C17|width-array|%s|%s|len%d", p.schema, p.typ.Kind(), ln), sa, ta, v, true)
		}
	}
	driveOutOfWidth(c, "C17")
	return nil
}

// driveOutOfWidth: values that do not fit the destination's width (used by C17's width driver and by C03)
func driveOutOfWidth(c *driverCtx, prefix string) {
	type pair struct {
		schema string
		typ    reflect.Type
		bits   uint
	}
	i16, i32, i64 := reflect.TypeOf(int16(0)), reflect.TypeOf(int32(0)), reflect.TypeOf(int64(0))
	n := 0
	// values that do not fit the destination's width, alone and as array / map items (a value outside the width is an
	// error wherever it sits): judged like the vectors of C03 (rand_read: TLC decodes the bytes, `Fits` decides)
	for _, p := range []pair{{`"long"`, i32, 32}, {`"long"`, i16, 16}, {`"int"`, i16, 16}} {
		for wi, wrap := range []string{"", "array", "map"} {
			sch, ft := p.schema, p.typ
			switch wrap {
			case "array":
				sch, ft = `{"type":"array","items":`+p.schema+`}`, reflect.SliceOf(p.typ)
			case "map":
				sch, ft = `{"type":"map","values":`+p.schema+`}`, reflect.MapOf(reflect.TypeOf(""), p.typ)
			}
			t := reflect.StructOf([]reflect.StructField{{Name: "F", Type: ft, Tag: `json:"f"`}, {Name: "Z", Type: i64, Tag: `json:"z"`}})
			sj := fmt.Sprintf(`{"type":"record","name":"O%d","fields":[{"name":"f","type":%s},{"name":"z","type":"long"}]}`, n, sch)
			n++
			sn, err := schemaNodeFromJSON([]byte(sj))
			if err != nil {
				continue
			}
			lim := int64(1) << (p.bits - 1)
			for vi, v := range []int64{lim, -lim - 1, lim + 1, 70000, 1 << 32, 1<<32 + 1, math.MaxInt64, math.MinInt64, lim - 1, -lim, 5} {
				if p.schema == `"int"` && (v > math.MaxInt32 || v < math.MinInt32) {
					continue // not a legal int datum
				}
				var b []byte
				switch wrap {
				case "":
					b = appendVar(b, v)
				case "array":
					b = appendVar(b, 3)
					b = appendVar(b, 1)
					b = appendVar(b, v)
					b = appendVar(b, 2)
					b = appendVar(b, 0)
				case "map":
					b = appendVar(b, 2)
					b = append(appendVar(b, 1), 'a')
					b = appendVar(b, 1)
					b = append(appendVar(b, 1), 'b')
					b = appendVar(b, v)
					b = appendVar(b, 0)
				}
				b = appendVar(b, 9)
				file := buildContainer([]byte(sj), codecs3[(vi+wi)%3], true, []byte("0123456789abcdef"), [][2]any{{1, b}})
				r := readBack(t, file, readerKinds[(vi+wi)%len(readerKinds)], vi%2 == 0, -1, nil)
				c.rec.NewCase()
				c.rec.Emit(fmt.Sprintf(prefix+"|out-of-width|%s|%s|%s", p.schema, p.typ.Kind(), wrap), map[string]any{
					"op": "rand_read", "mode": "C03", "schema": sn, "records": []any{byteList(b)}, "target": projectType(t), "codec": codecs3[(vi+wi)%3],
					"delivered": orEmpty(r.delivered), "recheck": orEmpty(r.recheck), "err": errString(r.err), "panic": r.panicked})
			}
		}
	}
}

type primCodec struct {
	name  string
	codec avro.Codec
	typ   reflect.Type
}

var primCodecs = []primCodec{
	{"int64", avro.Int64Codec{}, reflect.TypeOf(int64(0))},
	{"int32", avro.Int32Codec{}, reflect.TypeOf(int32(0))},
	{"int16", avro.Int16Codec{}, reflect.TypeOf(int16(0))},
	{"float", avro.FloatCodec{}, reflect.TypeOf(float32(0))},
	{"double", avro.DoubleCodec{}, reflect.TypeOf(float64(0))},
	{"f32double", avro.Float32DoubleCodec{}, reflect.TypeOf(float32(0))},
	{"bool", avro.BoolCodec{}, reflect.TypeOf(false)},
}

// guarded destination: the value sits between two canaries
type guarded struct {
	pre  [16]byte
	val  [8]byte
	post [16]byte
}

func safeCall(f func() error) (outcome string, err error) {
	defer func() {
		if r := recover(); r != nil {
			outcome = "panic"
			err = fmt.Errorf("%v", r)
		}
	}()
	if e := f(); e != nil {
		return "err", e
	}
	return "ok", nil
}

// primWrite encodes v with the codec and returns the bytes.
func primWrite(pc primCodec, v reflect.Value) ([]byte, string) {
	w := avro.NewWriteBuf(nil)
	p := reflect.New(pc.typ)
	p.Elem().Set(v)
	outcome, _ := safeCall(func() error { pc.codec.Write(w, p.UnsafePointer()); return nil })
	return append([]byte{}, w.Bytes()...), outcome
}

// primRead decodes b with the codec into a guarded destination.
func primRead(pc primCodec, b []byte) (val reflect.Value, outcome string, left int, canary bool, skipOutcome string, skipLeft int) {
	var g guarded
	for i := range g.pre {
		g.pre[i], g.post[i] = 0xA5, 0x5A
	}
	r := avro.NewReadBuf(b)
	outcome, _ = safeCall(func() error { return pc.codec.Read(r, unsafe.Pointer(&g.val)) })
	left = r.Len()
	canary = true
	for i := range g.pre {
		if g.pre[i] != 0xA5 || g.post[i] != 0x5A {
			canary = false
		}
	}
	for i := int(pc.typ.Size()); i < len(g.val); i++ {
		if g.val[i] != 0 {
			canary = false
		}
	}
	val = reflect.NewAt(pc.typ, unsafe.Pointer(&g.val)).Elem()
	r2 := avro.NewReadBuf(b)
	skipOutcome, _ = safeCall(func() error { return pc.codec.Skip(r2) })
	skipLeft = r2.Len()
	return
}

func emitPrimRoundTrip(c *driverCtx, pc primCodec, v reflect.Value, class string) {
	b, wout := primWrite(pc, v)
	rv, rout, left, canary, sout, sleft := primRead(pc, b)
	c.rec.NewCase()
	c.rec.Emit("C17|"+pc.name+"|"+class, map[string]any{
		"op": "prim", "codec": pc.name, "v": projectValue(v), "bytes": byteList(b), "wout": wout,
		"rv": projectValue(rv), "rout": rout, "left": left, "canary": canary, "sout": sout, "sleft": sleft,
	})
}

func emitPrimRead(c *driverCtx, pc primCodec, b []byte, class string) {
	rv, rout, left, canary, sout, sleft := primRead(pc, b)
	c.rec.NewCase()
	c.rec.Emit("C17|"+pc.name+"|"+class, map[string]any{
		"op": "primr", "codec": pc.name, "w": int(pc.typ.Size()), "bytes": byteList(b),
		"rv": projectValue(rv), "rout": rout, "left": left, "canary": canary, "sout": sout, "sleft": sleft,
	})
}

// emitPrimNew decodes a run of values into slots the codec allocates itself
// (Codec.New from the ReadBuf's bank), and looks at all slots only after the
// last one has been filled.
func emitPrimNew(c *driverCtx, pc primCodec, vs []reflect.Value, class string) {
	w := avro.NewWriteBuf(nil)
	in := make([]any, len(vs))
	for i, v := range vs {
		p := reflect.New(pc.typ)
		p.Elem().Set(v)
		pc.codec.Write(w, p.UnsafePointer())
		in[i] = projectValue(v)
	}
	r := avro.NewReadBuf(append([]byte{}, w.Bytes()...))
	ptrs := make([]unsafe.Pointer, 0, len(vs))
	rout, _ := safeCall(func() error {
		for range vs {
			p := pc.codec.New(r)
			ptrs = append(ptrs, p)
			if err := pc.codec.Read(r, p); err != nil {
				return err
			}
		}
		return nil
	})
	out := make([]any, len(ptrs))
	for i, p := range ptrs {
		out[i] = projectValue(reflect.NewAt(pc.typ, p).Elem())
	}
	c.rec.NewCase()
	c.rec.Emit("C17|"+pc.name+"|"+class, map[string]any{"op": "primnew", "codec": pc.name, "vs": in, "rvs": out, "rout": rout, "left": r.Len()})
	runtime.KeepAlive(r)
}

// zig-zag boundary values: every v whose encoding length changes nearby
func intBoundaries(bits int) []int64 {
	var out []int64
	add := func(v int64) {
		lo, hi := int64(math.MinInt64), int64(math.MaxInt64)
		if bits < 64 {
			lo, hi = -(int64(1) << (bits - 1)), int64(1)<<(bits-1)-1
		}
		if v >= lo && v <= hi {
			out = append(out, v)
		}
	}
	for k := 0; k <= 63; k++ {
		for d := int64(-2); d <= 2; d++ {
			p := int64(1) << k
			add(p + d)
			add(-p + d)
		}
	}
	for d := int64(0); d <= 2; d++ {
		add(math.MaxInt64 - d)
		add(math.MinInt64 + d)
		add(math.MaxInt32 - d)
		add(math.MinInt32 + d)
		add(math.MaxInt16 - d)
		add(math.MinInt16 + d)
	}
	return out
}

func float32Patterns() []uint32 {
	return []uint32{
		0, 0x80000000, 1, 0x80000001, 0x007fffff, 0x00800000, 0x7f7fffff, 0xff7fffff,
		0x7f800000, 0xff800000, 0x7fc00000, 0xffc00000, 0x7f800001, 0x7fbfffff, 0x7fffffff, 0xff800001,
		0x3f800000, 0xbf800000, 0x3f800001, 0x00400000, 0x33800000, 0x4b000000, 0x3eaaaaab,
	}
}

func float64Patterns() []uint64 {
	return []uint64{
		0, 0x8000000000000000, 1, 0x8000000000000001, 0x000fffffffffffff, 0x0010000000000000,
		0x7fefffffffffffff, 0xffefffffffffffff, 0x7ff0000000000000, 0xfff0000000000000,
		0x7ff8000000000000, 0xfff8000000000000, 0x7ff0000000000001, 0x7ff7ffffffffffff, 0x7fffffffffffffff,
		0x3ff0000000000000, 0xbff0000000000000, 0x3ff0000000000001, 0x3fd5555555555555, 0x4340000000000000,
	}
}

func driveC17(c *driverCtx) error {
	byName := map[string]primCodec{}
	for _, pc := range primCodecs {
		byName[pc.name] = pc
	}
	// int16: every value in the thorough tier, a seeded stride-sample plus all boundaries in quick
	{
		pc := byName["int16"]
		step := c.pick(37, 1)
		start := 0
		if step > 1 {
			start = c.rng.Intn(step)
		}
		n := 0
		for v := math.MinInt16 + start; v <= math.MaxInt16; v += step {
			emitPrimRoundTrip(c, pc, reflect.ValueOf(int16(v)), "sweep")
			n++
		}
		for _, v := range intBoundaries(16) {
			emitPrimRoundTrip(c, pc, reflect.ValueOf(int16(v)), "boundary")
		}
		c.extra["int16_values"] = n
		c.extra["int16_exhaustive"] = step == 1
	}
	for _, v := range intBoundaries(32) {
		emitPrimRoundTrip(c, byName["int32"], reflect.ValueOf(int32(v)), "boundary")
	}
	for _, v := range intBoundaries(64) {
		emitPrimRoundTrip(c, byName["int64"], reflect.ValueOf(v), "boundary")
	}
	nr := c.pick(3000, 1000000)
	for i := 0; i < nr; i++ {
		// random magnitudes: uniform over bit lengths so every varint length is realised
		sh := uint(c.rng.Intn(64))
		v := int64(c.rng.Uint64() >> sh)
		if c.rng.Intn(2) == 0 {
			v = -v
		}
		emitPrimRoundTrip(c, byName["int64"], reflect.ValueOf(v), fmt.Sprintf("random-len%d", varintLen(v)))
		v32 := int32(c.rng.Uint32() >> (sh % 32))
		if c.rng.Intn(2) == 0 {
			v32 = -v32
		}
		emitPrimRoundTrip(c, byName["int32"], reflect.ValueOf(v32), fmt.Sprintf("random-len%d", varintLen(int64(v32))))
	}
	// floats
	for _, p := range float32Patterns() {
		f := math.Float32frombits(p)
		emitPrimRoundTrip(c, byName["float"], reflect.ValueOf(f), "pattern")
		emitPrimRoundTrip(c, byName["f32double"], reflect.ValueOf(f), "pattern")
	}
	for _, p := range float64Patterns() {
		emitPrimRoundTrip(c, byName["double"], reflect.ValueOf(math.Float64frombits(p)), "pattern")
	}
	nf := c.pick(2000, 600000)
	for i := 0; i < nf; i++ {
		f := math.Float32frombits(c.rng.Uint32())
		emitPrimRoundTrip(c, byName["float"], reflect.ValueOf(f), "random")
		emitPrimRoundTrip(c, byName["f32double"], reflect.ValueOf(f), "random")
		emitPrimRoundTrip(c, byName["double"], reflect.ValueOf(math.Float64frombits(c.rng.Uint64())), "random")
	}
	emitPrimRoundTrip(c, byName["bool"], reflect.ValueOf(true), "true")
	emitPrimRoundTrip(c, byName["bool"], reflect.ValueOf(false), "false")

	// candidate varints decoded into each width
	alphabet := []byte{0x00, 0x01, 0x02, 0x7f, 0x80, 0xff, 0x81, 0xfe}
	ints := []primCodec{byName["int64"], byName["int32"], byName["int16"]}
	// every one- and two-byte string (thorough), a seeded sample in quick
	stride := c.pick(23, 1)
	off := 0
	if stride > 1 {
		off = c.rng.Intn(stride)
	}
	for i := off; i < 256+65536; i += stride {
		var b []byte
		if i < 256 {
			b = []byte{byte(i)}
		} else {
			b = []byte{byte((i - 256) >> 8), byte(i - 256)}
		}
		emitPrimRead(c, ints[i%3], b, fmt.Sprintf("bytes-len%d", len(b)))
	}
	c.extra["short_strings_exhaustive"] = stride == 1
	// strings up to length 11 over the alphabet: structured (continuation runs) plus random
	for n := 0; n <= 12; n++ {
		for _, last := range alphabet {
			for _, fill := range []byte{0x80, 0xff, 0x81} {
				b := make([]byte, 0, n+1)
				for j := 0; j < n; j++ {
					b = append(b, fill)
				}
				b = append(b, last)
				for _, pc := range ints {
					emitPrimRead(c, pc, b, fmt.Sprintf("run-len%d", len(b)))
				}
			}
		}
	}
	nb := c.pick(3000, 1000000)
	for i := 0; i < nb; i++ {
		n := c.rng.Intn(12)
		b := make([]byte, n)
		for j := range b {
			if c.rng.Intn(4) == 0 {
				b[j] = byte(c.rng.Intn(256))
			} else {
				b[j] = alphabet[c.rng.Intn(len(alphabet))]
			}
		}
		emitPrimRead(c, ints[i%3], b, fmt.Sprintf("random-len%d", n))
	}
	// truncated floats
	for n := 0; n <= 9; n++ {
		b := make([]byte, n)
		for j := range b {
			b[j] = byte(c.rng.Intn(256))
		}
		emitPrimRead(c, byName["float"], b, fmt.Sprintf("float-len%d", n))
		emitPrimRead(c, byName["double"], b, fmt.Sprintf("double-len%d", n))
	}
	// ReadBuf.Varint / WriteBuf.Varint directly
	for _, v := range intBoundaries(64) {
		w := avro.NewWriteBuf(nil)
		w.Varint(v)
		r := avro.NewReadBuf(w.Bytes())
		back, err := r.Varint()
		c.rec.NewCase()
		c.rec.Emit("C17|bufvarint", map[string]any{
			"op": "bufvarint", "v": projectValue(reflect.ValueOf(v)), "bytes": byteList(w.Bytes()),
			"rv": projectValue(reflect.ValueOf(back)), "rout": errOutcome(err), "left": r.Len(),
		})
	}
	// over-long and overflowing varints that are NOT at the end of the buffer (1..14 bytes follow)
	for _, head := range [][]byte{
		{0xFF, 0xFF, 0xFF, 0xFF, 0xFF, 0xFF, 0xFF, 0xFF, 0xFF, 0x02}, {0xFF, 0xFF, 0xFF, 0xFF, 0xFF, 0xFF, 0xFF, 0xFF, 0xFF, 0x7F},
		{0x80, 0x80, 0x80, 0x80, 0x80, 0x80, 0x80, 0x80, 0x80, 0x02}, {0xFF, 0xFF, 0xFF, 0xFF, 0xFF, 0xFF, 0xFF, 0xFF, 0xFF, 0x01},
		{0xFF, 0xFF, 0xFF, 0xFF, 0xFF, 0xFF, 0xFF, 0xFF, 0xFF, 0x80, 0x00}, {0x80, 0x80, 0x80, 0x80, 0x80, 0x80, 0x80, 0x80, 0x80, 0x80, 0x80, 0x01},
		{0xFF, 0xFF, 0xFF, 0xFF, 0x1F}, {0xFF, 0xFF, 0xFF, 0xFF, 0x0F}, {0x80, 0x80, 0x04}, {0xFF, 0xFF, 0x03},
	} {
		for _, pad := range []int{0, 1, 2, 5, 10, 11, 14} {
			b := append(append([]byte{}, head...), bytes.Repeat([]byte{0x2A}, pad)...)
			for _, name := range []string{"int64", "int32", "int16"} {
				emitPrimRead(c, byName[name], b, fmt.Sprintf("overflow-then-%d-bytes", pad))
			}
		}
	}
	// slots allocated by the codecs themselves: runs of boundary / random values per codec
	for _, pc := range primCodecs {
		pool := primPool(c, pc)
		for i := 0; i < c.pick(40, 4000); i++ {
			k := 2 + c.rng.Intn(7)
			vs := make([]reflect.Value, k)
			for j := range vs {
				vs[j] = pool[c.rng.Intn(len(pool))]
			}
			emitPrimNew(c, pc, vs, "new-slots")
		}
	}
	return nil
}

func errOutcome(err error) string {
	if err != nil {
		return "err"
	}
	return "ok"
}

func varintLen(v int64) int {
	u := uint64(v<<1) ^ uint64(v>>63)
	n := 1
	for u >= 0x80 {
		u >>= 7
		n++
	}
	return n
}

// primPool: boundary values of the codec's Go type
func primPool(c *driverCtx, pc primCodec) []reflect.Value {
	var out []reflect.Value
	switch pc.name {
	case "int64":
		for _, v := range intBoundaries(64) {
			out = append(out, reflect.ValueOf(v))
		}
	case "int32":
		for _, v := range intBoundaries(32) {
			out = append(out, reflect.ValueOf(int32(v)))
		}
	case "int16":
		for _, v := range intBoundaries(16) {
			out = append(out, reflect.ValueOf(int16(v)))
		}
	case "float", "f32double":
		for _, p := range float32Patterns() {
			out = append(out, reflect.ValueOf(math.Float32frombits(p)))
		}
	case "double":
		for _, p := range float64Patterns() {
			out = append(out, reflect.ValueOf(math.Float64frombits(p)))
		}
	case "bool":
		out = append(out, reflect.ValueOf(true), reflect.ValueOf(false))
	}
	return out
}
