package main

// ReadBuf / WriteBuf call sequences (growth beyond the listed properties, run with C17).
// Judged by spec/Trace_Buffers.tla.

import (
	"fmt"
	"reflect"

	"github.com/philpearl/avro"
)

func init() { drivers["BUF"] = driveBuffers }

func driveBuffers(c *driverCtx) error {
	for run := 0; run < c.pick(40, 1500); run++ {
		key := fmt.Sprintf("BUF|run%d", run%50)
		c.rec.NewCase()
		c.rec.Emit(key, map[string]any{"op": "buf_case"})
		// ---- ReadBuf ----
		mk := func() []byte {
			n := c.rng.Intn(40)
			b := make([]byte, n)
			for i := range b {
				switch c.rng.Intn(4) {
				case 0:
					b[i] = byte(c.rng.Intn(256))
				case 1:
					b[i] = []byte{0x80, 0xff, 0x81}[c.rng.Intn(3)]
				default:
					b[i] = byte(c.rng.Intn(128))
				}
			}
			return b
		}
		data := mk()
		// the buffer the ReadBuf was made over is as good as any it is reset to later: every other ReadBuf starts its
		// life over a long buffer (and is then used on shorter ones)
		first := []byte(nil)
		if c.rng.Intn(2) == 0 {
			first = make([]byte, 100+c.rng.Intn(300))
			for i := range first {
				first[i] = byte(c.rng.Intn(256)) | 0x80
			}
		}
		r := avro.NewReadBuf(first)
		c.rec.Emit(key, map[string]any{"op": "rb_reset", "data": byteList(first), "len": r.Len()})
		r.Reset(data)
		c.rec.Emit(key, map[string]any{"op": "rb_reset", "data": byteList(data), "len": r.Len()})
		for k := 0; k < 12+c.rng.Intn(20); k++ {
			switch c.rng.Intn(6) {
			case 0, 1:
				l := c.rng.Intn(12) - 2
				if c.rng.Intn(8) == 0 {
					l = []int{-1 << 62, 1 << 62, 1<<63 - 1, -1 << 63, 1 << 31}[c.rng.Intn(5)]
				}
				var res []byte
				var err error
				op := "rb_next"
				p := catch(func() {
					if c.rng.Intn(2) == 0 {
						res, err = r.Next(l)
					} else {
						op = "rb_nextstring"
						var s string
						s, err = r.NextAsString(l)
						res = []byte(s)
					}
				})
				out := errOutcome(err)
				if p != "" {
					out = "panic"
				}
				arg := l
				if l > 1<<30 {
					arg = 1 << 30
				} else if l < -(1 << 30) {
					arg = -(1 << 30)
				}
				c.rec.Emit(key, map[string]any{"op": op, "arg": arg, "out": out, "res": byteList(res), "len": r.Len()})
			case 2:
				var b byte
				var err error
				out := "panic"
				if catch(func() { b, err = r.ReadByte() }) == "" {
					out = errOutcome(err)
				}
				c.rec.Emit(key, map[string]any{"op": "rb_byte", "out": out, "res": []int{int(b)}, "len": r.Len()})
			case 3, 4:
				var v int64
				var err error
				out := "panic"
				if catch(func() { v, err = r.Varint() }) == "" {
					out = errOutcome(err)
				} else {
					err = fmt.Errorf("panic")
				}
				c.rec.Emit(key, map[string]any{"op": "rb_varint", "out": out, "res": projectValue(reflect.ValueOf(v))["b"], "len": r.Len()})
				if err != nil {
					data = mk()
					r.Reset(data)
					c.rec.Emit(key, map[string]any{"op": "rb_reset", "data": byteList(data), "len": r.Len()})
				}
			default:
				data = mk()
				r.Reset(data)
				c.rec.Emit(key, map[string]any{"op": "rb_reset", "data": byteList(data), "len": r.Len()})
			}
		}
		r.ExtractResourceBank().Close()
		// ---- WriteBuf ----
		var initial []byte
		if c.rng.Intn(2) == 0 {
			initial = make([]byte, 0, c.rng.Intn(8))
		}
		w := avro.NewWriteBuf(initial)
		for k := 0; k < 10+c.rng.Intn(15); k++ {
			switch c.rng.Intn(5) {
			case 0, 1:
				v := genInt(c.rng, 64)
				w.Varint(v)
				c.rec.Emit(key, map[string]any{"op": "wb_varint", "v": projectValue(reflect.ValueOf(v))["b"], "bytes": byteList(w.Bytes()), "len": w.Len()})
			case 2:
				b := byte(c.rng.Intn(256))
				w.Byte(b)
				c.rec.Emit(key, map[string]any{"op": "wb_byte", "arg": int(b), "bytes": byteList(w.Bytes()), "len": w.Len()})
			case 3:
				d := payload(c.rng, c.rng.Intn(20))
				w.Write(d)
				c.rec.Emit(key, map[string]any{"op": "wb_write", "data": byteList(d), "bytes": byteList(w.Bytes()), "len": w.Len()})
			default:
				w.Reset()
				c.rec.Emit(key, map[string]any{"op": "wb_reset", "bytes": byteList(w.Bytes()), "len": w.Len()})
			}
		}
	}
	return nil
}
