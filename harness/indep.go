package main

// Environment oracles and test doubles that share no code with the library:
// an independent object-container-file splitter, independent decompression
// (compress/flate, golang/snappy, hash/crc32 are the library's dependencies,
// not the code under test), readers that deliver short reads and writers that
// record and inject faults.

import (
	"bytes"
	"compress/flate"
	"encoding/binary"
	"errors"
	"fmt"
	"hash/crc32"
	"io"
	"os"

	"github.com/golang/snappy"
)

type indepBlock struct {
	Count   int64
	Payload []byte
	Sync    []byte
	Start   int // offset of the count varint
	LenAt   int // offset of the length varint
	DataAt  int // offset of the payload
	SyncAt  int // offset of the sync marker
	End     int // offset after the sync marker
}

type indepFile struct {
	Meta      map[string][]byte
	MetaOrder []string
	Sync      []byte
	HeaderEnd int
	Blocks    []indepBlock
}

func readVar(b []byte, pos int) (int64, int, error) {
	v, n := binary.Varint(b[pos:])
	if n <= 0 {
		return 0, 0, fmt.Errorf("bad varint at %d", pos)
	}
	return v, pos + n, nil
}

// splitContainer parses the container layout of Avro 1.8 (magic, metadata
// map, sync, blocks). It fails on any trailing partial block.
func splitContainer(b []byte) (*indepFile, error) {
	f := &indepFile{Meta: map[string][]byte{}}
	if len(b) < 4 || !bytes.Equal(b[:4], []byte{'O', 'b', 'j', 1}) {
		return nil, errors.New("bad magic")
	}
	pos := 4
	for {
		count, p, err := readVar(b, pos)
		if err != nil {
			return nil, err
		}
		pos = p
		if count == 0 {
			break
		}
		if count < 0 {
			count = -count
			if _, p, err = readVar(b, pos); err != nil {
				return nil, err
			}
			pos = p
		}
		for ; count > 0; count-- {
			var kv [2][]byte
			for i := 0; i < 2; i++ {
				l, p, err := readVar(b, pos)
				if err != nil {
					return nil, err
				}
				if l < 0 || l > int64(len(b)-p) {
					return nil, errors.New("metadata string out of range")
				}
				kv[i] = b[p : p+int(l)]
				pos = p + int(l)
			}
			f.Meta[string(kv[0])] = kv[1]
			f.MetaOrder = append(f.MetaOrder, string(kv[0]))
		}
	}
	if pos+16 > len(b) {
		return nil, errors.New("header sync truncated")
	}
	f.Sync = b[pos : pos+16]
	pos += 16
	f.HeaderEnd = pos
	for pos < len(b) {
		var blk indepBlock
		blk.Start = pos
		c, p, err := readVar(b, pos)
		if err != nil {
			return nil, err
		}
		blk.Count = c
		blk.LenAt = p
		l, p, err := readVar(b, p)
		if err != nil {
			return nil, err
		}
		if l < 0 || l > int64(len(b)-p-16) {
			return nil, errors.New("block out of range")
		}
		blk.DataAt = p
		blk.Payload = b[p : p+int(l)]
		blk.SyncAt = p + int(l)
		blk.Sync = b[p+int(l) : p+int(l)+16]
		pos = p + int(l) + 16
		blk.End = pos
		f.Blocks = append(f.Blocks, blk)
	}
	return f, nil
}

// indepDecompress: ok=false when the independent decompressor (or the snappy
// CRC) rejects the payload.
func indepDecompress(codec string, payload []byte) (raw []byte, ok bool, crcOK bool) {
	switch codec {
	case "null", "":
		return payload, true, true
	case "deflate":
		r := flate.NewReader(bytes.NewReader(payload))
		out, err := io.ReadAll(r)
		if err != nil {
			return out, false, true
		}
		return out, true, true
	case "snappy":
		if len(payload) < 4 {
			return nil, false, false
		}
		out, err := snappy.Decode(nil, payload[:len(payload)-4])
		if err != nil {
			return nil, false, false
		}
		crc := binary.BigEndian.Uint32(payload[len(payload)-4:])
		return out, true, crc32.ChecksumIEEE(out) == crc
	}
	return nil, false, false
}

func indepCompress(codec string, raw []byte) []byte {
	switch codec {
	case "deflate":
		var buf bytes.Buffer
		w, _ := flate.NewWriter(&buf, flate.DefaultCompression)
		w.Write(raw)
		w.Close()
		return buf.Bytes()
	case "snappy":
		out := snappy.Encode(nil, raw)
		return binary.BigEndian.AppendUint32(out, crc32.ChecksumIEEE(raw))
	}
	return raw
}

// buildContainer writes a container with the harness's own writer (used to
// feed the reader encodings the library's writer never produces).
// metaLayout selects how buildContainer lays out the header's metadata map (see there); 0 is what the library writes
var metaLayout int

func buildContainer(schemaJSON []byte, codec string, withCodecEntry bool, sync []byte, blocks [][2]any) []byte {
	var b []byte
	b = append(b, 'O', 'b', 'j', 1)
	// the metadata is an Avro map<bytes>: any split into blocks, with or without byte sizes, is legal, and so are
	// entries a reader does not know
	var entries [][]byte
	if withCodecEntry {
		entries = append(entries, appendStr(appendStr(nil, []byte("avro.codec")), []byte(codec)))
	}
	entries = append(entries, appendStr(appendStr(nil, []byte("avro.schema")), schemaJSON))
	if metaLayout >= 3 {
		entries = append([][]byte{appendStr(appendStr(nil, []byte("user.note")), []byte("written by the harness"))}, entries...)
	}
	switch metaLayout % 3 {
	case 0: // one block
		b = binary.AppendVarint(b, int64(len(entries)))
		for _, e := range entries {
			b = append(b, e...)
		}
	case 1: // one block per entry
		for _, e := range entries {
			b = binary.AppendVarint(b, 1)
			b = append(b, e...)
		}
	case 2: // one block with its byte size (negative count)
		var body []byte
		for _, e := range entries {
			body = append(body, e...)
		}
		b = binary.AppendVarint(b, -int64(len(entries)))
		b = binary.AppendVarint(b, int64(len(body)))
		b = append(b, body...)
	}
	b = binary.AppendVarint(b, 0)
	b = append(b, sync...)
	for _, blk := range blocks {
		count := blk[0].(int)
		raw := blk[1].([]byte)
		comp := indepCompress(codec, raw)
		b = binary.AppendVarint(b, int64(count))
		b = binary.AppendVarint(b, int64(len(comp)))
		b = append(b, comp...)
		b = append(b, sync...)
	}
	return b
}

func appendStr(b, s []byte) []byte {
	b = binary.AppendVarint(b, int64(len(s)))
	return append(b, s...)
}

// ---------------------------------------------------------------------------
// readers

// chunkReader serves at most max bytes per Read (1 => one byte at a time).
type chunkReader struct {
	b   []byte
	pos int
	max int
}

func (r *chunkReader) Read(p []byte) (int, error) {
	if r.pos >= len(r.b) {
		return 0, io.EOF
	}
	n := len(p)
	if n > r.max {
		n = r.max
	}
	if n > len(r.b)-r.pos {
		n = len(r.b) - r.pos
	}
	copy(p, r.b[r.pos:r.pos+n])
	r.pos += n
	return n, nil
}

func (r *chunkReader) ReadByte() (byte, error) {
	if r.pos >= len(r.b) {
		return 0, io.EOF
	}
	r.pos++
	return r.b[r.pos-1], nil
}

// ---------------------------------------------------------------------------
// writers

var errInjected = errors.New("injected write failure")

// recWriter records every Write call; the failAt-th call (1-based) accepts
// only `accept` bytes and returns errInjected (io.Writer contract honoured).
// accept -1: everything taken, error still reported, later writes fail too;
// accept -2: the same but the fault is transient (later writes succeed);
// accept -3: nothing taken, transient.
type recWriter struct {
	calls      [][]byte
	failAt     int
	accept     int
	failed     bool
	out        []byte
	temp       bool // the injected error says Temporary() / Timeout() (net.Error style)
	closedKind bool // the injected error is an os.ErrClosed / io.ErrClosedPipe
}

// errInjectedTemp is the injected failure dressed as a temporary network error.
type errInjectedTemp struct{}

func (errInjectedTemp) Error() string        { return "injected write failure (temporary)" }
func (errInjectedTemp) Temporary() bool      { return true }
func (errInjectedTemp) Timeout() bool        { return true }
func (errInjectedTemp) Is(target error) bool { return target == errInjected }

// errInjectedClosed is the injected failure as it looks when the destination has been closed
type errInjectedClosed struct{}

func (errInjectedClosed) Error() string { return "injected write failure: " + os.ErrClosed.Error() }
func (errInjectedClosed) Is(target error) bool {
	return target == errInjected || target == os.ErrClosed || target == io.ErrClosedPipe
}

func (w *recWriter) fault() error {
	if w.closedKind {
		return errInjectedClosed{}
	}
	if w.temp {
		return errInjectedTemp{}
	}
	return errInjected
}

// recByteWriter is the same writer for code that looks for io.ByteWriter / io.StringWriter: every WriteByte /
// WriteString is one write (it can be the failing one).
type recByteWriter struct{ *recWriter }

func (w recByteWriter) WriteByte(b byte) error {
	_, err := w.recWriter.Write([]byte{b})
	return err
}

func (w recByteWriter) WriteString(s string) (int, error) { return w.recWriter.Write([]byte(s)) }

// faultWriter returns the recording writer and the io.Writer to hand to the library. mode bit 0: also an
// io.ByteWriter / io.StringWriter; bit 1: the error is a temporary one.
func faultWriter(failAt, accept, mode int) (*recWriter, io.Writer) {
	w := &recWriter{failAt: failAt, accept: accept, temp: mode&2 != 0, closedKind: mode&4 != 0}
	if mode&1 != 0 {
		return w, recByteWriter{w}
	}
	return w, w
}

func (w *recWriter) Write(p []byte) (int, error) {
	if w.failed && w.accept > -2 {
		return 0, w.fault()
	}
	cp := append([]byte{}, p...)
	w.calls = append(w.calls, cp)
	if w.failAt > 0 && len(w.calls) == w.failAt {
		if w.accept == -3 {
			w.failed = true
			return 0, w.fault()
		}
		if w.accept < 0 {
			// a writer that took everything and still reports an error (allowed by the io.Writer contract)
			w.out = append(w.out, p...)
			w.failed = true
			return len(p), w.fault()
		}
		n := w.accept
		if n > len(p) {
			n = len(p)
		}
		if n == len(p) && n > 0 {
			n = len(p) - 1
		}
		w.out = append(w.out, p[:n]...)
		w.failed = true
		return n, w.fault()
	}
	w.out = append(w.out, p...)
	return len(p), nil
}
