package main

// From a schema node (as emitted by TLC or parsed from JSON) to schema JSON
// text and to Go target types, with controllable variations (pointer
// indirection, integer and float width, null.* wrappers). Used to replay
// TLC-generated vectors into the real reader.

import (
	"encoding/json"
	"fmt"
	"reflect"
	"strings"
)

func nodeStr(n node, k string) string {
	s, _ := n[k].(string)
	return s
}

func nodeInt(n node, k string) int {
	switch v := n[k].(type) {
	case float64:
		return int(v)
	case int:
		return v
	case json.Number:
		i, _ := v.Int64()
		return int(i)
	}
	return 0
}

func nodeKids(n node) []node {
	c, _ := n["c"].([]any)
	out := make([]node, len(c))
	for i, x := range c {
		out[i], _ = x.(map[string]any)
	}
	return out
}

func nodeBytes(n node, k string) []byte {
	c, _ := n[k].([]any)
	out := make([]byte, len(c))
	for i, x := range c {
		switch v := x.(type) {
		case float64:
			out[i] = byte(v)
		case int:
			out[i] = byte(v)
		}
	}
	return out
}

// schemaJSONOf renders a schema node as Avro schema JSON (a trivial printer).
func schemaJSONOf(s node) string {
	k := nodeStr(s, "k")
	kids := nodeKids(s)
	lt := ""
	if v := nodeStr(s, "lt"); v != "" {
		lt = fmt.Sprintf(`,"logicalType":%q`, v)
	}
	switch k {
	case "null", "boolean", "int", "long", "float", "double", "bytes", "string":
		if lt != "" {
			return fmt.Sprintf(`{"type":%q%s}`, k, lt)
		}
		return fmt.Sprintf("%q", k)
	case "fixed":
		return fmt.Sprintf(`{"type":"fixed","name":%q,"size":%d%s}`, nodeStr(s, "name"), nodeInt(s, "size"), lt)
	case "enum":
		syms, _ := s["syms"].([]any)
		parts := make([]string, len(syms))
		for i, x := range syms {
			parts[i] = fmt.Sprintf("%q", x)
		}
		return fmt.Sprintf(`{"type":"enum","name":%q,"symbols":[%s]}`, nodeStr(s, "name"), strings.Join(parts, ","))
	case "array":
		return fmt.Sprintf(`{"type":"array","items":%s}`, schemaJSONOf(kids[0]))
	case "map":
		return fmt.Sprintf(`{"type":"map","values":%s}`, schemaJSONOf(kids[0]))
	case "union":
		parts := make([]string, len(kids))
		for i, b := range kids {
			parts[i] = schemaJSONOf(b)
		}
		return "[" + strings.Join(parts, ",") + "]"
	case "record":
		parts := make([]string, len(kids))
		for i, f := range kids {
			parts[i] = fmt.Sprintf(`{"name":%q,"type":%s}`, nodeStr(f, "name"), schemaJSONOf(nodeKids(f)[0]))
		}
		return fmt.Sprintf(`{"type":"record","name":%q,"fields":[%s]}`, nodeStr(s, "name"), strings.Join(parts, ","))
	}
	return `"null"`
}

// wrapRecord puts a schema into a one-field record named v (Schema.Codec
// needs a struct target); the encoding of the record is the encoding of v.
func wrapRecord(s node) node {
	return snode("record", "Top", "", 0, nil, []any{snode("field", "v", "", 0, nil, []any{s})})
}

// target-type variation
type goVariant struct {
	IntW      int  // 0 = natural (int32 for int, int64 for long), else 16/32/64 or -1 for Go int
	Float32   bool // float32 target for double
	PtrLevel  int  // extra pointer indirections on scalars
	NullWrap  bool // null.* wrappers for nullable scalars
	PtrStruct bool // pointers to nested records
	PtrColl   bool // pointers to slices and maps (*[]T, *map[string]T)
}

var errNoTarget = fmt.Errorf("no Go target for this schema")

func isNullNode(s node) bool { return nodeStr(s, "k") == "null" }

// goTypeFor returns a Go type that is compatible with the schema.
func goTypeFor(s node, v goVariant, depth int) (reflect.Type, error) {
	k := nodeStr(s, "k")
	kids := nodeKids(s)
	wrapPtr := func(t reflect.Type) reflect.Type {
		for i := 0; i < v.PtrLevel; i++ {
			t = reflect.PointerTo(t)
		}
		return t
	}
	switch k {
	case "null":
		return reflect.TypeOf(int64(0)), nil
	case "boolean":
		return wrapPtr(reflect.TypeOf(false)), nil
	case "int", "long":
		switch v.IntW {
		case 16:
			return wrapPtr(reflect.TypeOf(int16(0))), nil
		case 32:
			return wrapPtr(reflect.TypeOf(int32(0))), nil
		case 64:
			return wrapPtr(reflect.TypeOf(int64(0))), nil
		case -1:
			return wrapPtr(reflect.TypeOf(int(0))), nil
		}
		if k == "int" {
			return wrapPtr(reflect.TypeOf(int32(0))), nil
		}
		return wrapPtr(reflect.TypeOf(int64(0))), nil
	case "float":
		return wrapPtr(reflect.TypeOf(float32(0))), nil
	case "double":
		if v.Float32 {
			return wrapPtr(reflect.TypeOf(float32(0))), nil
		}
		return wrapPtr(reflect.TypeOf(float64(0))), nil
	case "bytes":
		return reflect.TypeOf([]byte(nil)), nil
	case "string":
		return wrapPtr(reflect.TypeOf("")), nil
	case "fixed":
		if n := nodeInt(s, "size"); n < 0 || n > 1<<20 {
			return nil, errNoTarget
		}
		return reflect.ArrayOf(nodeInt(s, "size"), reflect.TypeOf(byte(0))), nil
	case "enum":
		return nil, errNoTarget
	case "array":
		if len(kids) == 0 {
			return nil, errNoTarget
		}
		e, err := goTypeFor(kids[0], v, depth+1)
		if err != nil {
			return nil, err
		}
		if v.PtrColl && depth > 0 {
			return reflect.PointerTo(reflect.SliceOf(e)), nil
		}
		return reflect.SliceOf(e), nil
	case "map":
		if len(kids) == 0 {
			return nil, errNoTarget
		}
		e, err := goTypeFor(kids[0], v, depth+1)
		if err != nil {
			return nil, err
		}
		if v.PtrColl && depth > 0 {
			return reflect.PointerTo(reflect.MapOf(reflect.TypeOf(""), e)), nil
		}
		return reflect.MapOf(reflect.TypeOf(""), e), nil
	case "union":
		if len(kids) == 1 {
			return goTypeFor(kids[0], v, depth)
		}
		if len(kids) == 2 && (isNullNode(kids[0]) || isNullNode(kids[1])) {
			nn := kids[0]
			if isNullNode(nn) {
				nn = kids[1]
			}
			nk := nodeStr(nn, "k")
			if v.NullWrap {
				switch nk {
				case "int", "long":
					return nullIntT, nil
				case "boolean":
					return nullBoolT, nil
				case "double":
					return nullFloatT, nil
				case "string":
					return nullStringT, nil
				}
			}
			inner := v
			inner.PtrLevel = 0
			t, err := goTypeFor(nn, inner, depth)
			if err != nil {
				return nil, err
			}
			if nk == "array" || nk == "map" || nk == "bytes" {
				return t, nil // nil slice / map stands for null
			}
			return reflect.PointerTo(t), nil
		}
		// a multi-branch union all of whose non-null branches are integers is type-compatible with one Go integer
		allInt := len(kids) > 0
		for _, b := range kids {
			if bk := nodeStr(b, "k"); bk != "int" && bk != "long" && bk != "null" {
				allInt = false
			}
		}
		if allInt {
			return reflect.TypeOf(int64(0)), nil
		}
		return nil, errNoTarget
	case "record":
		fields := make([]reflect.StructField, len(kids))
		for i, f := range kids {
			if len(nodeKids(f)) == 0 {
				return nil, errNoTarget
			}
			ft, err := goTypeFor(nodeKids(f)[0], v, depth+1)
			if err != nil {
				return nil, err
			}
			fields[i] = reflect.StructField{Name: fmt.Sprintf("F%d", i), Type: ft, Tag: reflect.StructTag(fmt.Sprintf(`json:"%s"`, nodeStr(f, "name")))}
		}
		t := reflect.StructOf(fields)
		if v.PtrStruct && depth > 0 {
			return reflect.PointerTo(t), nil
		}
		return t, nil
	}
	return nil, errNoTarget
}

// zeroSizeSchema: can a datum of this schema encode to zero bytes?
func zeroSizeSchema(s node) bool {
	switch nodeStr(s, "k") {
	case "null":
		return true
	case "fixed":
		return nodeInt(s, "size") == 0
	case "record":
		for _, f := range nodeKids(s) {
			k := nodeKids(f)
			if len(k) == 0 || !zeroSizeSchema(k[0]) {
				return false
			}
		}
		return true
	}
	return false
}

// hasZeroSizeItems: does the schema contain an array whose items can be zero bytes long
// (the declared count of such an array is not bounded by the input size)?
func hasZeroSizeItems(s node) bool {
	kids := nodeKids(s)
	if nodeStr(s, "k") == "array" && len(kids) == 1 && zeroSizeSchema(kids[0]) {
		return true
	}
	for _, k := range kids {
		if hasZeroSizeItems(k) {
			return true
		}
	}
	return false
}
