package main

// C09 / C16: call histories of Encoder[T] (and FileWriter directly) against a
// recording writer, optionally failing on its k-th Write. After every call the
// bytes the writer accepted during that call are recorded. Judged by
// spec/Trace_Encoder.tla.

import (
	"bytes"
	"errors"
	"fmt"
	"strings"

	"github.com/philpearl/avro"
)

func init() {
	drivers["C09"] = func(c *driverCtx) error { return driveEncoder(c, "C09") }
	drivers["C16"] = func(c *driverCtx) error { return driveEncoder(c, "C16") }
}

// EncRec is the record type of the encoder histories: its encoding is a
// length-prefixed byte string, so the encoded size is controlled exactly.
type EncRec struct {
	P []byte
}

type encOp struct {
	flush bool
	p     []byte
}

func errClass(err error) string {
	switch {
	case err == nil:
		return ""
	case errors.Is(err, errInjected):
		return "injected"
	}
	return "other: " + err.Error()
}

// blocksCompletedIn returns the independent decompression of the blocks that
// lie completely inside out[from:] (block boundaries found by the independent
// splitter on the whole output).
func rawsOfDelta(out []byte, from int, codec string) (raws []any, oks []any) {
	raws, oks = []any{}, []any{}
	f, err := splitPrefix(out)
	if err != nil || f == nil {
		return
	}
	for _, b := range f.Blocks {
		if b.Start >= from {
			raw, ok, crc := indepDecompress(codec, b.Payload)
			raws = append(raws, byteList(raw))
			oks = append(oks, ok && crc)
		}
	}
	return
}

// splitPrefix is splitContainer that tolerates a trailing partial block.
func splitPrefix(b []byte) (*indepFile, error) {
	f, err := splitContainer(b)
	if err == nil {
		return f, nil
	}
	// retry on shorter prefixes ending at a block boundary: parse header, then blocks greedily
	for cut := len(b); cut >= 0; cut-- {
		if f, err := splitContainer(b[:cut]); err == nil {
			return f, nil
		}
		if len(b)-cut > 1<<16 {
			break
		}
	}
	return nil, err
}

// EncEmpty is a record type whose encoding is zero bytes.
type EncEmpty struct {
	X int `json:"-"`
}

// writerMode is the kind of writer / error the fault sweeps currently use (see faultWriter)
var writerMode int

// EncWide: a record whose schema is longer than a kilobyte (a header that does not fit small buffers)
type EncWide struct {
	P                                                                                                  []byte
	F01, F02, F03, F04, F05, F06, F07, F08, F09, F10, F11, F12, F13, F14, F15, F16, F17, F18, F19, F20 int64
	G01, G02, G03, G04, G05, G06, G07, G08, G09, G10, G11, G12, G13, G14, G15, G16, G17, G18, G19      int64
}

func runEncoderHistory(c *driverCtx, prop, key, codec string, block int, hist []encOp, failAt, accept int, ref []byte) (writes int, out []byte) {
	if strings.Contains(key, "|wide|") {
		return runEncoderHistoryT(c, prop, key, codec, block, hist, failAt, accept, ref, "wide", func(p []byte) *EncWide { return &EncWide{P: p} })
	}
	if strings.Contains(key, "|empty|") {
		return runEncoderHistoryT(c, prop, key, codec, block, hist, failAt, accept, ref, "empty", func(p []byte) *EncEmpty { return &EncEmpty{X: len(p)} })
	}
	return runEncoderHistoryT(c, prop, key, codec, block, hist, failAt, accept, ref, "bytes", func(p []byte) *EncRec { return &EncRec{P: p} })
}

func runEncoderHistoryT[T any](c *driverCtx, prop, key, codec string, block int, hist []encOp, failAt, accept int, ref []byte, kind string, mk func(p []byte) *T) (writes int, out []byte) {
	w, wr := faultWriter(failAt, accept, writerMode)
	seen := false
	before := 0
	emit := func(op string, extra map[string]any, err error, panicked string) {
		delta := w.out[before:]
		raws, oks := rawsOfDelta(w.out, before, codec)
		ev := map[string]any{
			"op": op, "codec": codec, "codecBytes": byteList([]byte(codec)), "block": block,
			"delta": byteList(delta), "raws": raws, "rawok": oks, "err": errClass(err), "panic": panicked,
			"faulted": w.failed && !seen,
		}
		for k, v := range extra {
			ev[k] = v
		}
		c.rec.Emit(key, ev)
		before = len(w.out)
		if w.failed {
			seen = true
		}
	}
	c.rec.NewCase()
	var enc *avro.Encoder[T]
	var err error
	p := catch(func() { enc, err = avro.NewEncoderFor[T](wr, avro.Compression(codec), block) })
	refNode := []int{}
	if ref != nil {
		refNode = byteList(ref)
	}
	emit("enc_new", map[string]any{"ref": refNode, "hasref": ref != nil, "failAt": failAt, "accept": accept}, err, p)
	if err != nil || p != "" || enc == nil {
		return len(w.calls), w.out
	}
	for _, op := range hist {
		if seen {
			break // nothing is judged after the first failure
		}
		if op.flush {
			p := catch(func() { err = enc.Flush() })
			emit("enc_flush", nil, err, p)
		} else {
			rec := mk(op.p)
			p := catch(func() { err = enc.Encode(rec) })
			emit("enc_encode", map[string]any{"p": byteList(op.p), "kind": kind}, err, p)
		}
	}
	return len(w.calls), w.out
}

// interleavedEncoders: two encoders of the same codec alive in one process; the second one encodes and flushes a
// whole block from inside the first one's io.Writer, between two writes of the first one's block (what happens with
// a writer that drives another pipeline, and, by chance, with two goroutines). Each encoder's output is judged as
// its own history: independent encoders do not share state.
type hookWriter struct {
	w  *recWriter
	n  int
	at int
	f  func()
}

func (h *hookWriter) Write(p []byte) (int, error) {
	h.n++
	if h.n == h.at && h.f != nil {
		f := h.f
		h.f = nil
		f()
	}
	return h.w.Write(p)
}

func interleavedEncoders(c *driverCtx, prop, codec string, k int, bigB bool) {
	const block = 1 << 20
	wa, wb := &recWriter{}, &recWriter{}
	ha := &hookWriter{w: wa}
	var evA, evB []map[string]any
	beforeA, beforeB := 0, 0
	record := func(evs *[]map[string]any, w *recWriter, before *int, op string, extra map[string]any, f func() error) {
		var err error
		p := catch(func() { err = f() })
		raws, oks := rawsOfDelta(w.out, *before, codec)
		ev := map[string]any{"op": op, "codec": codec, "codecBytes": byteList([]byte(codec)), "block": block,
			"delta": byteList(w.out[*before:]), "raws": raws, "rawok": oks, "err": errClass(err), "panic": p, "faulted": false}
		for kk, v := range extra {
			ev[kk] = v
		}
		*evs = append(*evs, ev)
		*before = len(w.out)
	}
	newExtra := map[string]any{"ref": []int{}, "hasref": false, "failAt": 0, "accept": 0}
	var a, b *avro.Encoder[EncRec]
	record(&evA, wa, &beforeA, "enc_new", newExtra, func() (err error) {
		a, err = avro.NewEncoderFor[EncRec](ha, avro.Compression(codec), block)
		return
	})
	record(&evB, wb, &beforeB, "enc_new", newExtra, func() (err error) {
		b, err = avro.NewEncoderFor[EncRec](wb, avro.Compression(codec), block)
		return
	})
	if a == nil || b == nil {
		return
	}
	enc := func(evs *[]map[string]any, w *recWriter, before *int, e *avro.Encoder[EncRec], n int) {
		p := payload(c.rng, n)
		record(evs, w, before, "enc_encode", map[string]any{"p": byteList(p), "kind": "bytes"}, func() error { return e.Encode(&EncRec{P: p}) })
	}
	flush := func(evs *[]map[string]any, w *recWriter, before *int, e *avro.Encoder[EncRec]) {
		record(evs, w, before, "enc_flush", nil, func() error { return e.Flush() })
	}
	na, nb := 300, 120
	if bigB {
		na, nb = 120, 300
	}
	enc(&evA, wa, &beforeA, a, na)
	enc(&evA, wa, &beforeA, a, na/2)
	// B's whole block is produced while A is in the middle of writing its block (before A's k-th write of the block)
	ha.at, ha.f = ha.n+k, func() {
		enc(&evB, wb, &beforeB, b, nb)
		flush(&evB, wb, &beforeB, b)
	}
	flush(&evA, wa, &beforeA, a)
	enc(&evB, wb, &beforeB, b, 10)
	flush(&evB, wb, &beforeB, b)
	enc(&evA, wa, &beforeA, a, 20)
	flush(&evA, wa, &beforeA, a)
	for i, evs := range [][]map[string]any{evA, evB} {
		c.rec.NewCase()
		for _, ev := range evs {
			c.rec.Emit(fmt.Sprintf("%s|interleaved|%s|k%d|%s", prop, codec, k, []string{"outer", "inner"}[i]), ev)
		}
	}
}

func catch(f func()) (panicked string) {
	defer func() {
		if r := recover(); r != nil {
			panicked = fmt.Sprint(r)
		}
	}()
	f()
	return ""
}

// FileWriter used directly: header then blocks of arbitrary already-encoded rows.
// fwMirror: the application writes the same container to a second destination as well (one FileWriter, two headers,
// every block to both); the events are those of the first destination
var fwMirror bool

func runFileWriterHistory(c *driverCtx, key, codec string, blocks [][2]any, failAt, accept int, ref []byte) (writes int, out []byte) {
	w, wr := faultWriter(failAt, accept, writerMode)
	seen := false
	before := 0
	emit := func(op string, extra map[string]any, err error, panicked string) {
		delta := w.out[before:]
		raws, oks := rawsOfDelta(w.out, before, codec)
		ev := map[string]any{
			"op": op, "codec": codec, "codecBytes": byteList([]byte(codec)), "block": 0,
			"delta": byteList(delta), "raws": raws, "rawok": oks, "err": errClass(err), "panic": panicked,
			"faulted": w.failed && !seen,
		}
		for k, v := range extra {
			ev[k] = v
		}
		c.rec.Emit(key, ev)
		before = len(w.out)
		if w.failed {
			seen = true
		}
	}
	c.rec.NewCase()
	schema := []byte(`{"type":"record","name":"R","fields":[{"name":"P","type":"bytes"}]}`)
	fw, err := avro.NewFileWriter(schema, avro.Compression(codec))
	if err != nil {
		return 0, nil
	}
	refNode := []int{}
	if ref != nil {
		refNode = byteList(ref)
	}
	p := catch(func() { err = fw.WriteHeader(wr) })
	emit("enc_new", map[string]any{"ref": refNode, "hasref": ref != nil, "failAt": failAt, "accept": accept}, err, p)
	var side bytes.Buffer
	if fwMirror {
		catch(func() { fw.WriteHeader(&side) })
	}
	// the payloads are sub-slices of one backing array (a caller that batches encodings); what each block was meant
	// to hold is recorded before any call is made
	var backing []byte
	offs := []int{0}
	for _, b := range blocks {
		backing = append(backing, b[1].([]byte)...)
		offs = append(offs, len(backing))
	}
	wanted := make([][]int, len(blocks))
	for i := range blocks {
		wanted[i] = byteList(backing[offs[i]:offs[i+1]])
	}
	for i, b := range blocks {
		if seen || err != nil {
			break
		}
		count, raw := b[0].(int), backing[offs[i]:offs[i+1]]
		if fwMirror {
			catch(func() { fw.WriteBlock(&side, count, raw) })
		}
		p := catch(func() { err = fw.WriteBlock(wr, count, raw) })
		emit("fw_block", map[string]any{"count": count, "raw": wanted[i]}, err, p)
	}
	return len(w.calls), w.out
}

func payload(rng interface{ Intn(int) int }, n int) []byte {
	b := make([]byte, n)
	for i := range b {
		b[i] = byte(rng.Intn(256))
	}
	return b
}

// record payload lengths chosen around the block size so that "exactly full",
// "one short" and "over" all occur; 63 and 64 give one- and two-byte length prefixes
func sizeChoices(block int) []int {
	s := []int{0, 1, 2, 63, 64}
	for _, d := range []int{-3, -2, -1, 0, 1} {
		if v := block + d; v >= 0 && v < 300 {
			s = append(s, v)
		}
	}
	return s
}

func genHistory(c *driverCtx, block, n int) []encOp {
	sizes := sizeChoices(block)
	h := make([]encOp, n)
	for i := range h {
		if c.rng.Intn(4) == 0 {
			h[i] = encOp{flush: true}
		} else {
			h[i] = encOp{p: payload(c.rng, sizes[c.rng.Intn(len(sizes))])}
		}
	}
	return h
}

// allHistories enumerates every history of length n over {flush, encode(size)} for the given sizes.
func allHistories(c *driverCtx, sizes []int, n int) [][]encOp {
	if n == 0 {
		return [][]encOp{{}}
	}
	var out [][]encOp
	for _, h := range allHistories(c, sizes, n-1) {
		out = append(out, append(append([]encOp{}, h...), encOp{flush: true}))
		for _, s := range sizes {
			out = append(out, append(append([]encOp{}, h...), encOp{p: payload(c.rng, s)}))
		}
	}
	return out
}

func histKey(h []encOp) string {
	s := ""
	for _, o := range h {
		if o.flush {
			s += "F"
		} else {
			s += fmt.Sprintf("e%d.", len(o.p))
		}
	}
	return s
}

func driveEncoder(c *driverCtx, prop string) error {
	blockSizes := []int{0, 1, 2, 3, 5, 10, 64, 100}
	type hcase struct {
		codec string
		block int
		hist  []encOp
	}
	var cases []hcase
	// exhaustive short histories (encoded record sizes 1, 2, 3 against small block sizes)
	maxLen := c.pick(3, 5)
	if prop == "C16" {
		maxLen = c.pick(2, 3)
	}
	for _, b := range []int{0, 1, 2, 3, 5} {
		for n := 0; n <= maxLen; n++ {
			for _, h := range allHistories(c, []int{0, 1, 2}, n) {
				cases = append(cases, hcase{codecs3[len(cases)%3], b, h})
			}
		}
	}
	c.extra["exhaustive_histories_upto"] = maxLen
	// random longer histories
	nr := c.pick(60, 1500)
	if prop == "C16" {
		nr = c.pick(25, 400)
	}
	for i := 0; i < nr; i++ {
		b := blockSizes[c.rng.Intn(len(blockSizes))]
		n := 1 + c.rng.Intn(c.pick(12, 40))
		cases = append(cases, hcase{codecs3[c.rng.Intn(3)], b, genHistory(c, b, n)})
	}
	// one block with a two-byte record count and a three-byte length
	big := make([]encOp, 70)
	for i := range big {
		big[i] = encOp{p: payload(c.rng, 120)}
	}
	cases = append(cases, hcase{"null", 1 << 20, append(big, encOp{flush: true})})
	cases = append(cases, hcase{"snappy", 8000, append(big, encOp{flush: true})})

	// one record far larger than the block size (and than any buffer-retention threshold) in the middle of small ones
	if prop == "C09" {
		cases = append(cases, hcase{"null", 1000, []encOp{{p: payload(c.rng, 10)}, {p: payload(c.rng, 1600000)}, {p: payload(c.rng, 10)}, {p: payload(c.rng, 12)}, {flush: true}, {flush: true}, {p: payload(c.rng, 5)}, {flush: true}}})
	}
	// a block size above any internal cap: nothing is emitted before the configured size is reached or flush is called
	if prop == "C09" {
		cases = append(cases, hcase{"null", 4 << 20, []encOp{{p: payload(c.rng, 600000)}, {p: payload(c.rng, 600000)}, {p: payload(c.rng, 10)}, {flush: true}, {p: payload(c.rng, 3)}, {flush: true}}})
	}
	// several blocks of 64 KiB and more through one writer, under the compressing codecs, compressible and not (whatever
	// a writer keeps for large blocks is kept from one large block to the next); a record larger than the block size
	// among ordinary ones
	if prop == "C09" {
		rep := func(n int, seed byte) []byte {
			b := make([]byte, n)
			for i := range b {
				b[i] = seed + byte(i%7)
			}
			return b
		}
		for _, codec := range []string{"deflate", "snappy"} {
			cases = append(cases, hcase{codec, 70000, []encOp{{p: rep(40000, 'a')}, {p: rep(40000, 'h')}, {p: payload(c.rng, 40000)}, {p: rep(40000, 'p')}, {p: rep(30000, 'A')}, {p: rep(50000, 'H')}, {flush: true}}})
			cases = append(cases, hcase{codec, 3000, []encOp{{p: rep(100, 'a')}, {p: rep(9000, 'b')}, {p: rep(100, 'c')}, {p: rep(20000, 'd')}, {p: payload(c.rng, 9000)}, {p: rep(9000, 'e')}, {flush: true}, {p: rep(5, 'f')}, {flush: true}}})
		}
	}
	// many records that compress to almost nothing: 64 and more rows in a block of a few bytes
	for _, n := range []int{63, 64, 65, 100, 200} {
		for _, codec := range []string{"deflate", "snappy"} {
			recs := make([]encOp, n)
			for i := range recs {
				recs[i] = encOp{p: []byte{}}
			}
			cases = append(cases, hcase{codec, 1 << 20, append(recs, encOp{flush: true})})
			cases = append(cases, hcase{codec + "|empty", 1 << 20, append(append([]encOp{}, recs...), encOp{flush: true})})
		}
	}
	// blocks of several KiB that compress well, followed by more of the same: the threshold is about the buffered
	// encodings, whatever they compress to
	for _, codec := range []string{"deflate", "snappy", "null"} {
		recs := make([]encOp, 0, 70)
		for i := 0; i < 60; i++ {
			recs = append(recs, encOp{p: bytes.Repeat([]byte{byte('a' + i%3)}, 300)})
		}
		cases = append(cases, hcase{codec, 5000, append(recs, encOp{flush: true})})
	}
	// counts and payload lengths around the one- / two-byte varint boundary of the block framing (63, 64, 65)
	for _, n := range []int{63, 64, 65} {
		recs := make([]encOp, n)
		for i := range recs {
			recs[i] = encOp{p: payload(c.rng, 1)}
		}
		cases = append(cases, hcase{codecs3[n%3], 1 << 20, append(recs, encOp{flush: true})})
		// one record whose encoding is exactly n bytes (n-1 payload bytes + one length byte), block size 0
		cases = append(cases, hcase{"null", 0, []encOp{{p: payload(c.rng, n-1)}, {flush: true}}})
	}
	// histories of a record type whose encoding is zero bytes (count and buffered bytes diverge)
	for _, b := range []int{0, 1, 3} {
		for n := 1; n <= c.pick(3, 4); n++ {
			for _, h := range allHistories(c, []int{0}, n) {
				cases = append(cases, hcase{codecs3[len(cases)%3] + "|empty", b, h})
			}
		}
	}
	// a record type whose schema (and so the file header) is longer than a kilobyte
	for _, b := range []int{0, 100} {
		for _, h := range allHistories(c, []int{1, 2}, 2) {
			cases = append(cases, hcase{codecs3[len(cases)%3] + "|wide", b, h})
		}
	}
	for i, hc := range cases {
		wide := strings.HasSuffix(hc.codec, "|wide")
		hc.codec = strings.TrimSuffix(hc.codec, "|wide")
		empty := strings.HasSuffix(hc.codec, "|empty")
		hc.codec = strings.TrimSuffix(hc.codec, "|empty")
		key := fmt.Sprintf("%s|%s|B%d|%s", prop, hc.codec, hc.block, histKey(hc.hist))
		if empty {
			key = fmt.Sprintf("%s|%s|empty|B%d|%s", prop, hc.codec, hc.block, histKey(hc.hist))
		}
		if wide {
			key = fmt.Sprintf("%s|%s|wide|B%d|%s", prop, hc.codec, hc.block, histKey(hc.hist))
		}
		if len(key) > 120 {
			key = fmt.Sprintf("%s|%s|B%d|long#%d", prop, hc.codec, hc.block, i)
		}
		writes, ref := runEncoderHistory(c, prop, key, hc.codec, hc.block, hc.hist, 0, 0, nil)
		if prop == "C09" {
			continue
		}
		// the fault-free output per writer kind (same sync marker is not needed: the judge compares modulo the marker)
		refs := [6][]byte{ref}
		for m := 1; m < 6; m++ {
			writerMode = m
			_, refs[m] = runEncoderHistory(c, prop, key+fmt.Sprintf("|w%d", m), hc.codec, hc.block, hc.hist, 0, 0, nil)
		}
		writerMode = 0
		// C16: the same history with the k-th write failing, for every k (sampled when there are many)
		ks := make([]int, 0, writes)
		for k := 1; k <= writes; k++ {
			ks = append(ks, k)
		}
		limit := c.pick(6, 40)
		if len(ks) > limit {
			c.rng.Shuffle(len(ks), func(a, b int) { ks[a], ks[b] = ks[b], ks[a] })
			ks = append([]int{1}, ks[:limit-1]...)
		}
		for _, k := range ks {
			for ai, acc := range []int{0, 1, 1 << 30, -1, -2, -3} {
				// writer kind (plain / also io.ByteWriter+io.StringWriter) x error kind (plain / temporary), spread over the sweep
				writerMode = (k + ai + i) % 6 // 4, 5: plain / byte writer with a closed-destination error
				runEncoderHistory(c, prop, key+fmt.Sprintf("|k%d.a%d.w%d", k, min(acc, 2), writerMode), hc.codec, hc.block, hc.hist, k, acc, refs[writerMode])
				writerMode = 0
			}
		}
		c.rec.Realised(fmt.Sprintf("writes>=%d", min(writes/4*4, 12)))
	}
	// two encoders interleaved (C09: each one's output is still an exact sequence of its own blocks)
	if prop == "C09" {
		for _, codec := range codecs3 {
			for k := 1; k <= 4; k++ {
				interleavedEncoders(c, prop, codec, k, k%2 == 0)
			}
		}
	}
	// FileWriter directly: every payload length up to the limit (null codec; every 7th length for the others), with
	// one- and two-byte record counts: boundaries of any size-dependent path show up as a mis-framed block
	if prop == "C09" {
		limit := c.pick(1300, 5000)
		counts := []int{1, 63, 64, 200, 8192}
		for n := 0; n <= limit; n += 3 {
			for ci, codec := range codecs3 {
				if codec != "null" && n%21 != 0 && n > 720 {
					continue // the compressing codecs: every length up to 720 (payloads that do not compress grow a little), then every 21st
				}
				blocks := make([][2]any, 3)
				for j := range blocks {
					blocks[j] = [2]any{counts[(n/3+j+ci)%len(counts)], payload(c.rng, n+j)}
				}
				runFileWriterHistory(c, fmt.Sprintf("%s|filewriter|%s|sweep", prop, codec), codec, blocks, 0, 0, nil)
			}
		}
		c.rec.Realised("payload-length-sweep")
	}
	// FileWriter directly
	nfw := c.pick(10, 120)
	for i := 0; i < nfw; i++ {
		codec := codecs3[i%3]
		nb := c.rng.Intn(4)
		blocks := make([][2]any, nb)
		for j := range blocks {
			blocks[j] = [2]any{1 + c.rng.Intn(100), payload(c.rng, c.rng.Intn(200)*min(c.rng.Intn(4), 1))} // one in four payloads is empty
		}
		key := fmt.Sprintf("%s|filewriter|%s|blocks%d", prop, codec, nb)
		fwMirror = i%3 == 1
		if fwMirror {
			key += "|mirrored"
		}
		writes, ref := runFileWriterHistory(c, key, codec, blocks, 0, 0, nil)
		fwMirror = false
		if prop == "C16" {
			for k := 1; k <= writes; k++ {
				writerMode = (k + i) % 6
				runFileWriterHistory(c, key+fmt.Sprintf("|k%d.w%d", k, writerMode), codec, blocks, k, []int{0, 1, 1 << 30, -1, -2, -3}[(k+i)%6], ref)
				writerMode = 0
			}
		}
	}
	return nil
}
