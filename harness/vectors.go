package main

// C03 / C04: TLC-generated (schema, datum, legal encoding) vectors replayed
// into the real reader. The bytes come from the specification (MC_Wire), the
// container around them from the harness's own writer, the target Go types
// from schema2go with variations. Judged by spec/Trace_Codec.tla (vec_read).

import (
	"bytes"
	"fmt"
	"os"
	"reflect"
	"sort"
	"strings"
	"unsafe"

	"github.com/philpearl/avro"
	"github.com/unravelin/null/v5"
)

func init() {
	drivers["C03"] = func(c *driverCtx) error { return driveVectors(c, "C03") }
	drivers["C04"] = func(c *driverCtx) error { return driveVectors(c, "C04") }
}

type vector struct {
	s node
	d node
	e []byte
}

// projection of a record target: which schema fields are kept, in which order, plus extra fields
type projection struct {
	name string
	keep func(path string, i, n int) bool
	perm bool
	add  bool
	ptr  bool // records inside the outer record are held by pointer
}

// goTypeProjected is goTypeFor for records with fields dropped / permuted / added at every depth.
func goTypeProjected(s node, v goVariant, pr projection, path string, rngPerm func(n int) []int) (reflect.Type, error) {
	k := nodeStr(s, "k")
	kids := nodeKids(s)
	switch k {
	case "record":
		var fields []reflect.StructField
		order := make([]int, len(kids))
		for i := range order {
			order[i] = i
		}
		if pr.perm {
			order = rngPerm(len(kids))
		}
		var private []reflect.StructField
		for _, i := range order {
			f := kids[i]
			p := fmt.Sprintf("%s/%d", path, i)
			if path != "" && !pr.keep(path, i, len(kids)) { // the top-level wrapper field is always kept
				if pr.add && len(private) < 2 {
					// an unexported field that carries the dropped field's name in its json tag: still not a target
					if ft, err := goTypeFor(nodeKids(f)[0], v, 1); err == nil {
						private = append(private, reflect.StructField{Name: fmt.Sprintf("priv%d", i), PkgPath: "main", Type: ft, Tag: reflect.StructTag(fmt.Sprintf(`json:"%s"`, nodeStr(f, "name")))})
					}
				}
				continue
			}
			ft, err := goTypeProjected(nodeKids(f)[0], v, pr, p, rngPerm)
			if err != nil {
				return nil, err
			}
			fields = append(fields, reflect.StructField{Name: fmt.Sprintf("F%d", i), Type: ft, Tag: reflect.StructTag(fmt.Sprintf(`json:"%s"`, nodeStr(f, "name")))})
		}
		if pr.add {
			// fields the file does not contain, declared ahead of and after the real ones
			fields = append([]reflect.StructField{{Name: "Extra0", Type: reflect.TypeOf(int64(0)), Tag: `json:"not_in_file0"`},
				{Name: "Extra1", Type: reflect.TypeOf(""), Tag: `json:"not_in_file"`}}, fields...)
			fields = append(fields, reflect.StructField{Name: "Extra2", Type: reflect.TypeOf([]int64(nil)), Tag: `json:"not_in_file2"`})
			if len(fields) > 3 && path != "" {
				// a private twin of a kept field, declared after it, with the same json name
				kept := fields[2]
				private = append(private, reflect.StructField{Name: "twin", PkgPath: "main", Type: kept.Type, Tag: kept.Tag})
			}
			fields = append(fields, private...)
		}
		if pr.ptr && strings.Count(path, "/") > 1 {
			return reflect.PointerTo(reflect.StructOf(fields)), nil
		}
		return reflect.StructOf(fields), nil
	case "array":
		e, err := goTypeProjected(kids[0], v, pr, path+"/i", rngPerm)
		if err != nil {
			return nil, err
		}
		return reflect.SliceOf(e), nil
	case "map":
		e, err := goTypeProjected(kids[0], v, pr, path+"/v", rngPerm)
		if err != nil {
			return nil, err
		}
		return reflect.MapOf(reflect.TypeOf(""), e), nil
	case "union":
		if len(kids) == 2 && (isNullNode(kids[0]) || isNullNode(kids[1])) {
			nn := kids[0]
			if isNullNode(nn) {
				nn = kids[1]
			}
			if nodeStr(nn, "k") == "record" {
				t, err := goTypeProjected(nn, v, pr, path+"/u", rngPerm)
				if err != nil {
					return nil, err
				}
				if t.Kind() == reflect.Pointer {
					return t, nil
				}
				return reflect.PointerTo(t), nil
			}
		}
	}
	return goTypeFor(s, v, 1)
}

func loadVectors(path string) (map[string][]vector, []string, error) {
	tl, err := loadTLCcases(path)
	if err != nil {
		return nil, nil, err
	}
	bySchema := map[string][]vector{}
	var order []string
	for _, m := range tl {
		s := node(m["s"].(map[string]any))
		key := schemaJSONOf(s)
		if _, ok := bySchema[key]; !ok {
			order = append(order, key)
		}
		bySchema[key] = append(bySchema[key], vector{s: s, d: node(m["d"].(map[string]any)), e: nodeBytes(m, "e")})
	}
	sort.Strings(order)
	return bySchema, order, nil
}

// corpus: the two checked-in files written by BigQuery (an implementation that shares no code with the
// library or with this harness), read into the target types the repository's tests use and into variations
type corpusObj struct {
	Typ  string  `json:"typ,omitempty"`
	Size float64 `json:"size,omitempty"`
}
type corpusEntry struct {
	Name   string      `json:"name,omitempty"`
	Number int64       `json:"number"`
	Owns   []corpusObj `json:"owns,omitempty"`
}
type corpusEntryPtr struct {
	Name   *string `json:"name"`
	Number *int32  `json:"number"`
	Owns   []*struct {
		Size *float64    `json:"size"`
		Typ  null.String `json:"typ"`
	} `json:"owns"`
}
type corpusNull struct {
	String null.String `json:"string,omitempty"`
	Int    null.Int    `json:"int,omitempty"`
	Bool   null.Bool   `json:"bool,omitempty"`
	Float  null.Float  `json:"float,omitempty"`
}
type corpusNullPlain struct {
	Float  *float64 `json:"float"`
	String string   `json:"string"`
	Int    int64    `json:"int"`
	Bool   *bool    `json:"bool"`
}

func driveCorpus(c *driverCtx, prop string) {
	repo := os.Getenv("VERIF_REPO")
	if repo == "" {
		repo = "/repo"
	}
	files := []struct {
		path    string
		targets []reflect.Type
	}{
		{repo + "/testdata/avro1", []reflect.Type{reflect.TypeOf(corpusEntry{}), reflect.TypeOf(corpusEntryPtr{}), reflect.TypeOf(struct{}{})}},
		{repo + "/null/testdata/nullavro", []reflect.Type{reflect.TypeOf(corpusNull{}), reflect.TypeOf(corpusNullPlain{}), reflect.TypeOf(struct{}{})}},
	}
	for _, f := range files {
		b, err := os.ReadFile(f.path)
		if err != nil {
			continue
		}
		facts := fileFacts(b, "null")
		for ti, t := range f.targets {
			r := readBack(t, b, readerKinds[(ti)%len(readerKinds)], ti%2 == 0, -1, nil)
			ev := map[string]any{"op": "corpus_read", "mode": prop, "file": byteList(b), "target": projectType(t), "targetName": t.String(),
				"delivered": orEmpty(r.delivered), "recheck": orEmpty(r.recheck), "err": errString(r.err), "panic": r.panicked}
			for k, v := range facts {
				ev[k] = v
			}
			c.rec.NewCase()
			c.rec.Emit(fmt.Sprintf("%s|corpus|%s|%s", prop, f.path[len(repo):], t.String()), ev)
			c.rec.Realised("corpus-file")
		}
	}
}

// driveRandomLegal: deep seeded types; their generated schema (read back from JSON independently) is
// encoded by the harness's own random writer (random block splits and size prefixes at every level,
// null in the position the schema gives it) and read by ReadFile into the same type. TLC first checks
// that the bytes are a legal encoding (Dec accepts them completely; otherwise exit 2) and then that the
// delivered values are what they denote.
func driveRandomLegal(c *driverCtx, prop string) {
	feat := featuresFromKnown("C01")
	feat.Time = false // a random string is not a timestamp
	feat.MaxDepth = 4
	n := c.pick(150, 40000)
	done := 0
	fixed := []reflect.Type{reflect.TypeOf(WManyPtrTypesNoTime{}), reflect.TypeOf(WMapWide{}), reflect.TypeOf(WOddSizePtr{})}
	for i := 0; done < n && i < 4*n; i++ {
		t, tags := genType(c.rng, feat)
		if i < 4*len(fixed) {
			// a few compile-time types too: many distinct pointer types in one record, wide map values, odd sizes
			t, tags = fixed[i%len(fixed)], []string{"static", fixed[i%len(fixed)].Name()}
		} else if i < 4*len(fixed)+c.pick(40, 400) {
			// pointers to one common type interleaved with pointers to struct types no resource bank has seen yet (a
			// bank's table of types has to grow in the middle of the record)
			var fs []reflect.StructField
			for k := 0; k < 13; k++ {
				fs = append(fs, reflect.StructField{Name: fmt.Sprintf("X%d", k), Type: reflect.TypeOf((*int64)(nil))})
				u := reflect.StructOf([]reflect.StructField{{Name: fmt.Sprintf("U%d_%d", i, k), Type: reflect.TypeOf(int64(0))}, {Name: "S", Type: reflect.TypeOf("")}})
				fs = append(fs, reflect.StructField{Name: fmt.Sprintf("N%d", k), Type: reflect.PointerTo(u)})
			}
			t, tags = reflect.StructOf(fs), []string{"new-pointer-types-interleaved"}
		}
		if typeContains(t, nullTimeT) {
			continue // a random string is not a timestamp
		}
		zero := reflect.New(t).Elem().Interface()
		s, err := avro.SchemaForType(zero)
		if err != nil {
			continue
		}
		sj, err := s.Marshal()
		if err != nil {
			continue
		}
		sn, err := schemaNodeFromJSON(sj)
		if err != nil || containsKind(sn, "enum") {
			continue
		}
		encSmallInts = c.rng.Intn(5) != 0
		nrec := 1 + c.rng.Intn(4)
		recs := make([]any, nrec)
		var blocks [][2]any
		var cur []byte
		cnt := 0
		for k := 0; k < nrec; k++ {
			b := randomEncoding(c.rng, sn, 0)
			recs[k] = byteList(b)
			cur = append(cur, b...)
			cnt++
			if c.rng.Intn(2) == 0 || k == nrec-1 {
				blocks = append(blocks, [2]any{cnt, cur})
				cur, cnt = nil, 0
			}
		}
		encSmallInts = false
		codec := codecs3[i%3]
		metaLayout = []int{0, 1, 3, 4}[i%4] // (a byte-sized metadata block is refused by the library with an explicit error: not used)
		file := buildContainer(sj, codec, true, []byte("0123456789abcdef"), blocks)
		metaLayout = 0
		r := readBack(t, file, readerKinds[(i)%len(readerKinds)], i%2 == 0, -1, nil)
		c.rec.NewCase()
		c.rec.Emit(fmt.Sprintf("%s|random-legal|%s", prop, strings.Join(tags, "+")), map[string]any{
			"op": "rand_read", "mode": prop, "schema": sn, "records": recs, "target": projectType(t), "codec": codec,
			"delivered": orEmpty(r.delivered), "recheck": orEmpty(r.recheck), "err": errString(r.err), "panic": r.panicked})
		done++
	}
	c.extra["random_legal_files"] = done
	// one file whose single block is larger than 1 MiB (any partition of the records into file blocks is legal)
	type bigRec struct {
		B []byte `json:"b"`
		S string `json:"s"`
	}
	bt := reflect.TypeOf(bigRec{})
	bs, _ := avro.SchemaForType(bigRec{})
	bsj, _ := bs.Marshal()
	bsn, _ := schemaNodeFromJSON(bsj)
	for ci, codec := range codecs3 {
		if ci > 0 && !c.thorough() {
			break
		}
		var recs []any
		var raw []byte
		for k := 0; k < 2; k++ {
			var b []byte
			p := payload(c.rng, 650000)
			b = appendVar(b, int64(len(p)))
			b = append(b, p...)
			b = appendVar(b, 3)
			b = append(b, 'e', 'n', 'd')
			recs = append(recs, byteList(b))
			raw = append(raw, b...)
		}
		file := buildContainer(bsj, codec, true, []byte("0123456789abcdef"), [][2]any{{2, raw}})
		r := readBack(bt, file, "bytes", false, -1, nil)
		c.rec.NewCase()
		c.rec.Emit(fmt.Sprintf("%s|random-legal|block-over-1MiB|%s", prop, codec), map[string]any{
			"op": "rand_read", "mode": prop, "schema": bsn, "records": recs, "target": projectType(bt), "codec": codec,
			"delivered": orEmpty(r.delivered), "recheck": []any{}, "err": errString(r.err), "panic": r.panicked})
		c.rec.Realised("block-over-1MiB")
	}
}

// driveLongValues: strings, byte strings and map keys whose length prefixes take two and three bytes (TLC's
// vectors are short), decoded into the full target and into targets that lack some of the fields (so the long
// values are skipped). Same judgement as the random legal files: TLC decodes the bytes itself.
type lvFull struct {
	S string           `json:"s"`
	B []byte           `json:"b"`
	M map[string]int64 `json:"m"`
	A int64            `json:"a"`
	T *string          `json:"t"`
	Z int64            `json:"z"`
}

// LVShadow: embedded into a target of driveLongValues
type LVShadow struct {
	A int64 `json:"a"`
	Q int64 `json:"q"`
}

func driveLongValues(c *driverCtx, prop string) {
	if prop == "C03" {
		driveOutOfWidth(c, "C03") // a stored value outside the destination's width is an error wherever it sits
	}
	const sj = `{"type":"record","name":"LV","fields":[{"name":"s","type":"string"},{"name":"b","type":"bytes"},{"name":"m","type":{"type":"map","values":"long"}},{"name":"a","type":"long"},{"name":"t","type":["null","string"]},{"name":"z","type":"long"}]}`
	sn, err := schemaNodeFromJSON([]byte(sj))
	if err != nil {
		return
	}
	targets := []reflect.Type{
		reflect.TypeOf(lvFull{}),
		reflect.TypeOf(struct {
			A int64 `json:"a"`
			Z int64 `json:"z"`
		}{}),
		reflect.TypeOf(struct {
			B []byte `json:"b"`
			Z int64  `json:"z"`
		}{}),
		reflect.TypeOf(struct {
			S string  `json:"s"`
			T *string `json:"t"`
			Z int64   `json:"z"`
		}{}),
		reflect.TypeOf(struct {
			M map[string]int64 `json:"m"`
			Z int64            `json:"z"`
		}{}),
		reflect.TypeOf(struct{}{}),
		// an embedded struct added after the fields, one of its fields carrying a kept field's name: embedded structs are
		// not promoted, the field declared in the target itself keeps its value
		reflect.TypeOf(struct {
			A int64 `json:"a"`
			Z int64 `json:"z"`
			LVShadow
		}{}),
		// tags with several options select by the name before the first comma
		reflect.TypeOf(struct {
			A int64  `json:"a,omitempty,string"`
			S string `json:"s,string,omitempty"`
			Z int64  `json:"z,omitempty,omitzero"`
		}{}),
	}
	text := func(n int) []byte {
		b := make([]byte, n)
		for i := range b {
			b[i] = byte('a' + c.rng.Intn(26))
		}
		return b
	}
	lengths := []int{63, 64, 127, 128, 8191, 8192, 8193, 16383, 16384}
	if c.thorough() {
		lengths = append(lengths, 65, 1000, 8190, 8194, 16385, 70000)
	}
	for _, L := range lengths {
		for which := 0; which < 4; which++ { // which of s, b, map key, t carries the long value
			recs := make([]any, 2)
			var raw []byte
			for k := range recs {
				ln := [4]int{k, k + 1, 1, 2}
				ln[which] = L + k
				var b []byte
				b = appendVar(b, int64(ln[0]))
				b = append(b, text(ln[0])...)
				b = appendVar(b, int64(ln[1]))
				b = append(b, payload(c.rng, ln[1])...)
				b = appendVar(b, 1)
				b = appendVar(b, int64(ln[2]))
				b = append(b, text(ln[2])...)
				b = appendVar(b, int64(-5-k))
				b = appendVar(b, 0)
				b = appendVar(b, int64(1000+k))
				b = appendVar(b, 1)
				b = appendVar(b, int64(ln[3]))
				b = append(b, text(ln[3])...)
				b = appendVar(b, int64(77+k))
				recs[k] = byteList(b)
				raw = append(raw, b...)
			}
			for ti, t := range targets {
				codec := codecs3[(ti+which)%3]
				file := buildContainer([]byte(sj), codec, true, []byte("0123456789abcdef"), [][2]any{{2, raw}})
				r := readBack(t, file, readerKinds[(ti+which)%len(readerKinds)], ti%2 == 0, -1, nil)
				c.rec.NewCase()
				c.rec.Emit(fmt.Sprintf("%s|long-values|len%d|field%d|target%d", prop, L, which, ti), map[string]any{
					"op": "rand_read", "mode": prop, "schema": sn, "records": recs, "target": projectType(t), "codec": codec,
					"delivered": orEmpty(r.delivered), "recheck": orEmpty(r.recheck), "err": errString(r.err), "panic": r.panicked})
			}
		}
	}
	c.rec.Realised("len-3-bytes-values")
	if prop == "C03" {
		// maps whose values are unions of null and several integer types (no writer of this library produces them),
		// null entries after non-null ones, within a record and from one record to the next
		const uj = `{"type":"record","name":"MU","fields":[{"name":"m","type":{"type":"map","values":["null","int","long"]}},{"name":"z","type":"long"}]}`
		if un, err := schemaNodeFromJSON([]byte(uj)); err == nil {
			entry := func(b []byte, key string, branch int, v int64) []byte {
				b = append(appendVar(b, int64(len(key))), key...)
				b = appendVar(b, int64(branch))
				if branch != 0 {
					b = appendVar(b, v)
				}
				return b
			}
			var raw []byte
			var recs []any
			for k, ents := range [][][3]int64{{{1, 1, 5}, {2, 0, 0}, {3, 2, -7}, {4, 0, 0}}, {{5, 0, 0}, {6, 2, 1 << 40}}, {{7, 0, 0}}, {}} {
				var b []byte
				if len(ents) > 0 {
					b = appendVar(b, int64(len(ents)))
					for _, e := range ents {
						b = entry(b, fmt.Sprint("k", e[0]), int(e[1]), e[2])
					}
				}
				b = appendVar(b, 0)
				b = appendVar(b, int64(100+k))
				recs = append(recs, byteList(b))
				raw = append(raw, b...)
			}
			t := reflect.TypeOf(struct {
				M map[string]int64 `json:"m"`
				Z int64            `json:"z"`
			}{})
			for ci, codec := range codecs3 {
				file := buildContainer([]byte(uj), codec, true, []byte("0123456789abcdef"), [][2]any{{len(recs), raw}})
				r := readBack(t, file, readerKinds[ci%len(readerKinds)], ci%2 == 0, -1, nil)
				c.rec.NewCase()
				c.rec.Emit(fmt.Sprintf("%s|map-of-integer-unions|%s", prop, codec), map[string]any{
					"op": "rand_read", "mode": prop, "schema": un, "records": recs, "target": projectType(t), "codec": codec,
					"delivered": orEmpty(r.delivered), "recheck": orEmpty(r.recheck), "err": errString(r.err), "panic": r.panicked})
			}
		}
	}
	{
		// attributes a reader may ignore -- aliases among them -- do not decide which target field a file field goes to:
		// a file field the target has no field for (by its own name) is skipped
		const aj = `{"type":"record","name":"AL","aliases":["Old"],"fields":[{"name":"customer_id","type":"long","aliases":["id"],"doc":"renamed"},{"name":"id","type":"long"},{"name":"name","type":"string","aliases":["label","z"],"default":""},{"name":"z","type":"long","order":"descending"}]}`
		if an, err := schemaNodeFromJSON([]byte(aj)); err == nil {
			var raw []byte
			recs := make([]any, 3)
			for k := range recs {
				var b []byte
				b = appendVar(b, int64(1000+k))
				b = appendVar(b, int64(-7-k))
				nm := text(3 + k)
				b = appendVar(b, int64(len(nm)))
				b = append(b, nm...)
				b = appendVar(b, int64(50+k))
				recs[k] = byteList(b)
				raw = append(raw, b...)
			}
			for ti, t := range []reflect.Type{
				reflect.TypeOf(struct {
					ID int64 `json:"id"`
					Z  int64 `json:"z"`
				}{}),
				reflect.TypeOf(struct {
					Label string `json:"label"`
					ID    int64  `json:"id"`
				}{}),
				reflect.TypeOf(struct {
					Z     int64  `json:"z"`
					Label string `json:"label"`
				}{}),
				reflect.TypeOf(struct {
					CID  int64  `json:"customer_id"`
					ID   int64  `json:"id"`
					Name string `json:"name"`
					Z    int64  `json:"z"`
				}{}),
			} {
				codec := codecs3[ti%3]
				file := buildContainer([]byte(aj), codec, true, []byte("0123456789abcdef"), [][2]any{{3, raw}})
				r := readBack(t, file, readerKinds[ti%len(readerKinds)], ti%2 == 0, -1, nil)
				c.rec.NewCase()
				c.rec.Emit(fmt.Sprintf("%s|ignorable-attributes|target%d", prop, ti), map[string]any{
					"op": "rand_read", "mode": prop, "schema": an, "records": recs, "target": projectType(t), "codec": codec,
					"delivered": orEmpty(r.delivered), "recheck": orEmpty(r.recheck), "err": errString(r.err), "panic": r.panicked})
			}
		}
	}
	if prop == "C03" {
		// one block that inflates to several MiB from a few KiB (any compression ratio is legal)
		n := 4<<20 + 4096
		var b []byte
		b = appendVar(b, int64(n))
		b = append(b, bytes.Repeat([]byte{'a'}, n)...)
		b = appendVar(b, 0) // b: empty bytes
		b = appendVar(b, 0) // m: empty map
		b = appendVar(b, 1)
		b = appendVar(b, 0) // t: null
		b = appendVar(b, 2)
		t := reflect.TypeOf(struct {
			A int64 `json:"a"`
			Z int64 `json:"z"`
		}{})
		for _, codec := range []string{"deflate", "snappy"} {
			file := buildContainer([]byte(sj), codec, true, []byte("0123456789abcdef"), [][2]any{{1, b}})
			r := readBack(t, file, "bytes", false, -1, nil)
			c.rec.NewCase()
			c.rec.Emit(fmt.Sprintf("%s|long-values|highly-compressible-block|%s", prop, codec), map[string]any{
				"op": "rand_read", "mode": prop, "schema": sn, "records": []any{byteList(b)}, "target": projectType(t), "codec": codec,
				"delivered": orEmpty(r.delivered), "recheck": orEmpty(r.recheck), "err": errString(r.err), "panic": r.panicked})
		}
	}
	// items that take no bytes at all (null, records without fields): the item count says nothing about the
	// bytes that follow
	const zj = `{"type":"record","name":"ZW","fields":[{"name":"n","type":{"type":"array","items":"null"}},{"name":"e","type":{"type":"array","items":{"type":"record","name":"E","fields":[]}}},{"name":"mn","type":{"type":"map","values":"null"}},{"name":"z","type":"long"}]}`
	zn, err := schemaNodeFromJSON([]byte(zj))
	if err != nil {
		return
	}
	ztargets := []reflect.Type{
		reflect.TypeOf(struct {
			Z int64 `json:"z"`
		}{}),
		reflect.TypeOf(struct {
			E []struct{} `json:"e"`
			Z int64      `json:"z"`
		}{}),
		reflect.TypeOf(struct{}{}),
		// null values are read into whatever the target offers (they leave it zero)
		reflect.TypeOf(struct {
			MN map[string]int64 `json:"mn"`
			N  []bool           `json:"n"`
			Z  int64            `json:"z"`
		}{}),
	}
	// the same record name with other field types in a later file of the same process (whatever is remembered per
	// record name must not leak), the record being skipped by the target in all of them
	{
		mk := func(xt string) string {
			return `{"type":"record","name":"Outer","fields":[{"name":"inner","type":{"type":"record","name":"In","fields":[{"name":"x","type":` + xt + `},{"name":"y","type":"string"}]}},{"name":"z","type":"long"}]}`
		}
		type evoT struct {
			Z int64 `json:"z"`
		}
		type evoFull struct {
			Inner struct {
				X int64  `json:"x"`
				Y string `json:"y"`
			} `json:"inner"`
			Z int64 `json:"z"`
		}
		for round, xt := range []string{`"long"`, `"string"`, `"long"`, `{"type":"array","items":"long"}`, `"string"`} {
			sj := mk(xt)
			sn, err := schemaNodeFromJSON([]byte(sj))
			if err != nil {
				continue
			}
			var b []byte
			switch xt {
			case `"long"`:
				b = appendVar(b, int64(1000+round))
			case `"string"`:
				b = appendVar(b, 5)
				b = append(b, "hello"...)
			default:
				b = appendVar(b, 2)
				b = appendVar(b, 7)
				b = appendVar(b, 8)
				b = appendVar(b, 0)
			}
			b = appendVar(b, 2)
			b = append(b, "yy"...)
			b = appendVar(b, int64(50+round))
			targets := []reflect.Type{reflect.TypeOf(evoT{}), reflect.TypeOf(struct{}{})}
			if xt == `"long"` {
				targets = append(targets, reflect.TypeOf(evoFull{}))
			}
			for ti, t := range targets {
				file := buildContainer([]byte(sj), codecs3[round%3], true, []byte("0123456789abcdef"), [][2]any{{2, append(append([]byte{}, b...), b...)}})
				r := readBack(t, file, readerKinds[(round+ti)%len(readerKinds)], ti%2 == 0, -1, nil)
				c.rec.NewCase()
				c.rec.Emit(fmt.Sprintf("%s|same-record-name-other-types|round%d|target%d", prop, round, ti), map[string]any{
					"op": "rand_read", "mode": prop, "schema": sn, "records": []any{byteList(b), byteList(b)}, "target": projectType(t), "codec": codecs3[round%3],
					"delivered": orEmpty(r.delivered), "recheck": orEmpty(r.recheck), "err": errString(r.err), "panic": r.panicked})
			}
		}
	}
	// a union with more than 64 branches: selectors of one and of two bytes, decoded and skipped
	{
		var branches []string
		for i := 0; i < 70; i++ {
			branches = append(branches, fmt.Sprintf(`{"type":"record","name":"E%d","fields":[{"name":"a","type":"long"}]}`, i))
		}
		sj := `{"type":"record","name":"U70","fields":[{"name":"u","type":[` + strings.Join(branches, ",") + `]},{"name":"seq","type":"long"}]}`
		if sn, err := schemaNodeFromJSON([]byte(sj)); err == nil {
			type u70T struct {
				Seq int64 `json:"seq"`
			}
			var recs []any
			var raw []byte
			for _, br := range []int{3, 63, 64, 65, 69, 0} {
				var b []byte
				b = appendVar(b, int64(br))
				b = appendVar(b, int64(7+br))
				b = appendVar(b, int64(42+br))
				recs = append(recs, byteList(b))
				raw = append(raw, b...)
			}
			for ti, t := range []reflect.Type{reflect.TypeOf(u70T{}), reflect.TypeOf(struct{}{})} {
				file := buildContainer([]byte(sj), codecs3[ti], true, []byte("0123456789abcdef"), [][2]any{{len(recs), raw}})
				r := readBack(t, file, readerKinds[ti], false, -1, nil)
				c.rec.NewCase()
				c.rec.Emit(fmt.Sprintf("%s|union-of-70|target%d", prop, ti), map[string]any{
					"op": "rand_read", "mode": prop, "schema": sn, "records": recs, "target": projectType(t), "codec": codecs3[ti],
					"delivered": orEmpty(r.delivered), "recheck": orEmpty(r.recheck), "err": errString(r.err), "panic": r.panicked})
			}
		}
	}
	// empty values right after non-empty ones of the same kind (whatever a decoder reuses between items must be reset)
	{
		const ej = `{"type":"record","name":"EV","fields":[{"name":"mb","type":{"type":"map","values":"bytes"}},{"name":"ab","type":{"type":"array","items":"bytes"}},{"name":"as","type":{"type":"array","items":"string"}},{"name":"ml","type":{"type":"map","values":{"type":"array","items":"long"}}},{"name":"z","type":"long"}]}`
		en, err := schemaNodeFromJSON([]byte(ej))
		if err == nil {
			type evT struct {
				MB map[string][]byte  `json:"mb"`
				AB [][]byte           `json:"ab"`
				AS []string           `json:"as"`
				ML map[string][]int64 `json:"ml"`
				Z  int64              `json:"z"`
			}
			for split := 0; split < 2; split++ {
				var b []byte
				pat := [][]byte{{1, 2, 3}, {}, {4}, {}, {}, {5, 6}}
				// map<bytes>
				b = appendVar(b, int64(len(pat)))
				for i, v := range pat {
					b = appendVar(b, 2)
					b = append(b, 'k', byte('a'+i))
					b = appendVar(b, int64(len(v)))
					b = append(b, v...)
					if split == 1 && i == 2 { // end the block here and start another one
						b[0] = byte(2 * 3)
						b = appendVar(b, int64(len(pat)-3))
					}
				}
				b = appendVar(b, 0)
				for rep := 0; rep < 2; rep++ { // array<bytes>, array<string>
					b = appendVar(b, int64(len(pat)))
					for _, v := range pat {
						b = appendVar(b, int64(len(v)))
						b = append(b, v...)
					}
					b = appendVar(b, 0)
				}
				// map<array<long>>: a non-empty array, then empty ones
				b = appendVar(b, 3)
				for i, n := range []int{3, 0, 0} {
					b = appendVar(b, 2)
					b = append(b, 'm', byte('a'+i))
					if n > 0 {
						b = appendVar(b, int64(n))
						for k := 0; k < n; k++ {
							b = appendVar(b, int64(k+1))
						}
					}
					b = appendVar(b, 0)
				}
				b = appendVar(b, 0)
				b = appendVar(b, 99)
				t := reflect.TypeOf(evT{})
				for ci, codec := range codecs3 {
					file := buildContainer([]byte(ej), codec, true, []byte("0123456789abcdef"), [][2]any{{1, b}})
					r := readBack(t, file, readerKinds[ci], ci%2 == 0, -1, nil)
					c.rec.NewCase()
					c.rec.Emit(fmt.Sprintf("%s|empty-after-nonempty|split%d", prop, split), map[string]any{
						"op": "rand_read", "mode": prop, "schema": en, "records": []any{byteList(b)}, "target": projectType(t), "codec": codec,
						"delivered": orEmpty(r.delivered), "recheck": orEmpty(r.recheck), "err": errString(r.err), "panic": r.panicked})
				}
			}
		}
	}
	for _, cnt := range []int{1, 2, 5, 64, 300} {
		for sized := 0; sized < 2; sized++ {
			recs := make([]any, 2)
			var raw []byte
			for k := range recs {
				var b []byte
				arr := func(n int) {
					if n > 0 && sized == 1 {
						b = appendVar(b, int64(-n))
						b = appendVar(b, 0) // byte size of n zero-width items
					} else if n > 0 {
						b = appendVar(b, int64(n))
					}
					b = appendVar(b, 0)
				}
				arr(cnt + k)
				arr(cnt)
				b = appendVar(b, 1) // one map entry "k" -> null
				b = appendVar(b, 1)
				b = append(b, 'k')
				b = appendVar(b, 0)
				b = appendVar(b, int64(40+k))
				recs[k] = byteList(b)
				raw = append(raw, b...)
			}
			for ti, t := range ztargets {
				codec := codecs3[(ti+sized)%3]
				file := buildContainer([]byte(zj), codec, true, []byte("0123456789abcdef"), [][2]any{{1, raw[:len(raw)/2]}, {1, raw[len(raw)/2:]}})
				r := readBack(t, file, readerKinds[(ti+cnt)%len(readerKinds)], ti%2 == 0, -1, nil)
				c.rec.NewCase()
				c.rec.Emit(fmt.Sprintf("%s|zero-width-items|count%d|sized%d|target%d", prop, cnt, sized, ti), map[string]any{
					"op": "rand_read", "mode": prop, "schema": zn, "records": recs, "target": projectType(t), "codec": codec,
					"delivered": orEmpty(r.delivered), "recheck": orEmpty(r.recheck), "err": errString(r.err), "panic": r.panicked})
			}
		}
	}
}

func driveVectors(c *driverCtx, prop string) error {
	if prop == "C03" {
		driveCorpus(c, prop)
		driveRandomLegal(c, prop)
	}
	driveLongValues(c, prop)
	if c.cases == "" {
		return fmt.Errorf("%s needs TLC-generated vectors (-cases)", prop)
	}
	bySchema, order, err := loadVectors(c.cases)
	if err != nil {
		return err
	}
	nvec, skipped := 0, 0
	sync := []byte("0123456789abcdef")
	for si, key := range order {
		vs := bySchema[key]
		nvec += len(vs)
		inner := vs[0].s
		if containsKind(inner, "enum") {
			// enum is outside the supported subset the property quantifies over (the library refuses to build a codec)
			skipped++
			continue
		}
		top := wrapRecord(inner)
		topJSON := schemaJSONOf(top)

		// target types
		type tgt struct {
			name string
			t    reflect.Type
		}
		var targets []tgt
		if prop == "C03" {
			for vi, v := range variants {
				t, err := goTypeFor(top, v, 0)
				if err != nil {
					continue
				}
				targets = append(targets, tgt{fmt.Sprintf("variant%d", vi), t})
			}
			// the whole record skipped (multi-branch and null-second unions are legal to skip too)
			targets = append(targets, tgt{"skip-all", reflect.TypeOf(struct{}{})})
			// compatible targets may also lack fields (the details are C04's business; here: every other field)
			for _, pr := range []projection{
				{name: "even-fields", keep: func(_ string, i, _ int) bool { return i%2 == 0 }},
				{name: "odd-fields", keep: func(_ string, i, _ int) bool { return i%2 == 1 }},
				{name: "inner-odd-fields", keep: func(p string, i, _ int) bool { return strings.Count(p, "/") <= 1 || i%2 == 1 }},
			} {
				if t, err := goTypeProjected(top, goVariant{}, pr, "", func(n int) []int { return c.rng.Perm(n) }); err == nil {
					targets = append(targets, tgt{pr.name, t})
				}
			}
		} else {
			perm := func(n int) []int { return c.rng.Perm(n) }
			projs := []projection{
				{name: "full", keep: func(string, int, int) bool { return true }},
				{name: "none", keep: func(string, int, int) bool { return false }},
				{name: "permuted+extra", keep: func(string, int, int) bool { return true }, perm: true, add: true},
				{name: "even", keep: func(_ string, i, _ int) bool { return i%2 == 0 }},
				{name: "odd", keep: func(_ string, i, _ int) bool { return i%2 == 1 }, add: true},
				{name: "last", keep: func(_ string, i, n int) bool { return i == n-1 }},
				{name: "first", keep: func(_ string, i, _ int) bool { return i == 0 }},
				// the outer record complete, the records inside it cut down: to nothing, to nothing but fields the file
				// lacks, to every other field behind leading extras (so nothing nested sits at offset 0)
				{name: "outer-only", keep: func(p string, _, _ int) bool { return strings.Count(p, "/") <= 1 }},
				{name: "outer-only+extra", keep: func(p string, _, _ int) bool { return strings.Count(p, "/") <= 1 }, add: true},
				{name: "inner-even+extra", keep: func(p string, i, _ int) bool { return strings.Count(p, "/") <= 1 || i%2 == 0 }, add: true},
				{name: "inner-odd+extra", keep: func(p string, i, _ int) bool { return strings.Count(p, "/") <= 1 || i%2 == 1 }, add: true},
				{name: "outer-only/ptr", keep: func(p string, _, _ int) bool { return strings.Count(p, "/") <= 1 }, ptr: true},
				{name: "outer-only+extra/ptr", keep: func(p string, _, _ int) bool { return strings.Count(p, "/") <= 1 }, add: true, ptr: true},
				{name: "inner-even/ptr", keep: func(p string, i, _ int) bool { return strings.Count(p, "/") <= 1 || i%2 == 0 }, ptr: true},
			}
			for k := 0; k < c.pick(2, 30); k++ {
				mask := c.rng.Uint64()
				projs = append(projs, projection{name: fmt.Sprintf("random%d", k), perm: k%2 == 0,
					keep: func(p string, i, _ int) bool { return (mask>>(uint(len(p)*3+i)%63))&1 == 1 }})
			}
			for _, pr := range projs {
				t, err := goTypeProjected(top, goVariant{}, pr, "", perm)
				if err != nil {
					continue
				}
				targets = append(targets, tgt{pr.name, t})
			}
			targets = append(targets, tgt{"empty-struct", reflect.TypeOf(struct{}{})})
		}
		if len(targets) == 0 {
			targets = append(targets, tgt{"empty-struct", reflect.TypeOf(struct{}{})})
		}

		// the vectors of this schema as a record sequence, in chunks (one container per chunk)
		chunk := 12
		for from := 0; from < len(vs); from += chunk {
			to := min(from+chunk, len(vs))
			part := vs[from:to]
			datums := make([]any, len(part))
			for i, v := range part {
				datums[i] = map[string]any{"k": "record", "b": []int{}, "c": []any{v.d}}
			}
			// partitions of the records into file blocks
			partitions := [][]int{{len(part)}}
			if len(part) >= 2 {
				partitions = append(partitions, []int{1, len(part) - 1})
			}
			if len(part) >= 3 {
				ones := make([]int, len(part))
				for i := range ones {
					ones[i] = 1
				}
				partitions = append(partitions, ones)
			}
			for ti, tg := range targets {
				pi := (ti + from + si) % len(partitions)
				codec := codecs3[(ti+from/chunk+si)%3]
				var blocks [][2]any
				idx := 0
				for _, n := range partitions[pi] {
					var raw []byte
					for j := 0; j < n; j++ {
						raw = append(raw, part[idx].e...)
						idx++
					}
					blocks = append(blocks, [2]any{n, raw})
				}
				metaLayout = []int{0, 1, 3, 4}[(ti+si+from)%4]
				file := buildContainer([]byte(topJSON), codec, true, sync, blocks)
				metaLayout = 0
				r := readBack(tg.t, file, readerKinds[(ti+si)%len(readerKinds)], ti%2 == 0, -1, nil)
				ev := map[string]any{
					"op": "vec_read", "mode": prop, "schema": top, "datums": datums, "target": projectType(tg.t), "targetName": tg.name,
					"codec": codec, "delivered": orEmpty(r.delivered), "recheck": orEmpty(r.recheck), "err": errString(r.err), "panic": r.panicked,
				}
				// Codec.Read vs Codec.Skip on each record's bytes: both must consume exactly the encoding
				if prop == "C04" {
					lefts := make([]any, len(part))
					for i, v := range part {
						lefts[i] = readSkipLeft(topJSON, tg.t, append(append([]byte{}, v.e...), 0xEE, 0xEE, 0xEE))
					}
					ev["lefts"] = lefts
				}
				c.rec.NewCase()
				c.rec.Emit(fmt.Sprintf("%s|%s|%s|%s", prop, nodeStr(inner, "k"), tg.name, codec), ev)
			}
		}
	}
	c.extra["tlc_vectors"] = nvec
	c.extra["schemas"] = len(order)
	c.extra["schemas_skipped_enum"] = skipped
	return nil
}

// readSkipLeft decodes and skips one record (followed by three guard bytes) with the codec built for
// the target; returns [readOutcome, readLeft, skipOutcome, skipLeft].
func readSkipLeft(schemaJSON string, t reflect.Type, b []byte) []any {
	res := []any{"err", -1, "err", -1}
	s, err := avro.SchemaFromString(schemaJSON)
	if err != nil {
		return res
	}
	out := reflect.New(t)
	codec, err := s.Codec(out.Interface())
	if err != nil {
		return res
	}
	r := avro.NewReadBuf(b)
	o, _ := safeCall(func() error { return codec.Read(r, unsafe.Pointer(out.Pointer())) })
	res[0], res[1] = o, r.Len()
	r.ExtractResourceBank().Close()
	r2 := avro.NewReadBuf(b)
	o2, _ := safeCall(func() error { return codec.Skip(r2) })
	res[2], res[3] = o2, r2.Len()
	r2.ExtractResourceBank().Close()
	return res
}

func containsKind(s node, k string) bool {
	if nodeStr(s, "k") == k {
		return true
	}
	for _, c := range nodeKids(s) {
		if containsKind(c, k) {
			return true
		}
	}
	return false
}

func typeContains(t, what reflect.Type) bool {
	if t == what {
		return true
	}
	switch t.Kind() {
	case reflect.Ptr, reflect.Slice, reflect.Array, reflect.Map:
		return typeContains(t.Elem(), what)
	case reflect.Struct:
		if isNullableRegistered(t) {
			return false
		}
		for i := 0; i < t.NumField(); i++ {
			if typeContains(t.Field(i).Type, what) {
				return true
			}
		}
	}
	return false
}
