package main

// Compile-time struct types: needed because Encoder[T] is generic, and for
// shapes reflect.StructOf cannot build (named, embedded, types used twice).

import (
	"encoding/json"
	"fmt"
	"os"
	"reflect"
	"strings"
	"time"

	"github.com/unravelin/null/v5"
)

type SInner struct {
	A int64  `json:"a"`
	B string `json:"b"`
}

type SInner2 struct {
	X float64
	Y []int64 `json:"y,omitempty"`
}

type SBasic struct {
	I   int
	I32 int32
	I64 int64
	F32 float32
	F64 float64
	B   bool
	S   string
	Bs  []byte
}

type SOmit struct {
	I   int               `json:"i,omitempty"`
	I32 int32             `json:",omitempty"`
	I64 int64             `json:"i64,omitempty"`
	F32 float32           `json:"f32,omitempty"`
	F64 float64           `json:"f64,omitempty"`
	B   bool              `json:"b,omitempty"`
	Bs  []byte            `json:"bs,omitempty"`
	L   []int64           `json:"l,omitempty"`
	M   map[string]string `json:"m,omitempty"`
	In  SInner            `json:"in,omitempty"`
	P   *int64            `json:"p,omitempty"`
}

type SPtr struct {
	PI  *int64
	PI3 *int32
	PS  *string
	PF  *float64
	PF3 *float32
	PB  *bool
	PBs *[]byte
	PIn *SInner
	PT  *time.Time
	// several pointers of each narrow type: allocations of one type from one bank must not overlap
	PI3b  *int32
	PI3c  *int32
	PI16  *int16
	PI16b *int16
	PF3b  *float32
	PBb   *bool
	PBc   *bool
}

type SColl struct {
	L   []int64
	LS  []string
	LB  [][]byte
	LIn []SInner
	LP  []*int64
	LPS []*SInner
	M   map[string]int64
	MS  map[string]string
	MIn map[string]SInner
	LL  [][]int32
	ML  map[string][]string
	LM  []map[string]float64
	LT  []time.Time
}

type STime struct {
	T  time.Time
	OT time.Time `json:"ot,omitempty"`
	NI null.Int
	NB null.Bool
	NF null.Float
	NS null.String
	NT null.Time
	LN []null.Int
}

type STags struct {
	hidden  int
	Skip    int `json:"-"`
	BQ      int `bq:"-"`
	Named   int `json:"named"`
	Both    int `json:"both,omitempty" bq:"other"`
	Plain   string
	hidden2 string
	Last    bool `json:"last"`
}

type SEmbedded struct {
	SInner
	X int
	SInner2
}

type SNested struct {
	In   SInner
	Deep struct {
		In2 SInner2
		Z   map[string][]SInner2
	}
	PDeep *struct {
		Q int32
		R *string
	}
}

// adjacent narrow fields: an omitempty test or a store of the wrong width shows up in the neighbour
type SPacked struct {
	A float32 `json:"a,omitempty"`
	B float32 `json:"b"`
	C int32   `json:"c,omitempty"`
	D int32   `json:"d"`
	E int16   `json:"e,omitempty"`
	F int16   `json:"f"`
	G bool    `json:"g,omitempty"`
	H bool    `json:"h"`
	I int16   `json:"i,omitempty"`
	J float32 `json:"j,omitempty"`
	K bool    `json:"k,omitempty"`
	L int32   `json:"l,omitempty"`
}

// ---- witnesses: one feature each ----
type WInt16 struct {
	A int16
	B int16
	C int64
}
type WPtrSlice struct {
	P *[]int64
	Q int64
}
type WPtrMap struct {
	P *map[string]int64
	Q int64
}
type WMapPtr struct {
	M map[string]*int64
}
type WMapTime struct {
	M map[string]time.Time
}
type WMapNull struct {
	M map[string]null.Int
}
type WPtrPtr struct {
	P **int64
	Q int64
}
type WPtrNull struct {
	P *null.Int
	Q int64
}
type WOmitString struct {
	S string `json:"s,omitempty"`
	Q int64
}
type WMapMap struct {
	M map[string]map[string]int64
}
type WTwice struct {
	A SInner
	B SInner
}

// collections of round-number sizes (a writer that splits into blocks, a reader that grows in steps)
type WBigColl struct {
	L []int64
	M map[string]int32
	Z string
}

// payloads larger than any small-buffer threshold, one record per file block
type WBlob struct {
	B []byte
	S string
	N int64
}

// byte-string map values, empty ones among non-empty ones
type WMapBytes struct {
	M map[string][]byte
	L [][]byte
}

// records that end in something that takes no bytes
type WTrailEmpty struct {
	A int64
	E struct{}
}
type WTrailEmptySlice struct {
	A string
	E []struct{}
	F struct {
		X int `json:"-"`
	}
}

// map values wider than 128 bytes (Go maps store such values indirectly)
type wide17 struct {
	A, B, C, D, E, F, G, H, I, J, K, L, M, N, O, P, Q int64
}
type WMapWide struct {
	M map[string]wide17
	Z int64
}

// pointer-free records whose size is not a multiple of the word size, with optional tails
type WOddSize struct {
	A, B int32
	C    int32 `json:"c,omitempty"`
}
type WOddSizePtr struct {
	P *WOddSize
	Q *struct {
		X int16 `json:"x,omitempty"`
		Y bool  `json:"y,omitempty"`
		Z int16 `json:"z,omitempty"`
	}
}

// omitempty on a collection says nothing about its elements: zero (but valid / non-nil) elements are values
type WOmitColl struct {
	L  []null.Int             `json:"l,omitempty"`
	M  map[string]null.String `json:"m,omitempty"`
	LP []*int64               `json:"lp,omitempty"`
	LS []string               `json:"ls,omitempty"`
	Q  int64
}

// records that start with the string an earlier record ended with (a recycled bank must not remember its past life)
type WShareStr struct {
	S string
	P *string
	L []string
}

// a non-nil pointer to a zero value is not null
type WPtrZero struct {
	T *time.Time
	S *string
	I *int64
	F *float64
	Q int64
}

// more distinct allocation types in one record than any small table holds, two pointers of each
type mpA struct{ X int64 }
type mpB struct {
	Y string
	Z int32
}
type WManyPtrTypes struct {
	A1 *int64
	B1 *int32
	C1 *int16
	D1 *float32
	E1 *float64
	F1 *bool
	G1 *string
	H1 *time.Time
	I1 *mpA
	J1 *mpB
	K1 *null.Int
	L1 *[]int64
	M1 *map[string]int64
	A2 *int64
	B2 *int32
	C2 *int16
	D2 *float32
	E2 *float64
	F2 *bool
	G2 *string
	H2 *time.Time
	I2 *mpA
	J2 *mpB
	K2 *null.Int
	L2 *[]int64
	M2 *map[string]int64
}

// the same without times and wrappers (for drivers that feed random bytes: a random string is not a timestamp)
type WManyPtrTypesNoTime struct {
	A1 *int64
	B1 *int32
	C1 *int16
	D1 *float32
	E1 *float64
	F1 *bool
	G1 *string
	I1 *mpA
	J1 *mpB
	L1 *[]int64
	M1 *map[string]int64
	N1 *[]byte
	A2 *int64
	B2 *int32
	C2 *int16
	D2 *float32
	E2 *float64
	F2 *bool
	G2 *string
	I2 *mpA
	J2 *mpB
	L2 *[]int64
	M2 *map[string]int64
	N2 *[]byte
}

// several pointers to wrapper / time types in one record (their slots come from the same bank)
type WPtrTimes struct {
	A *time.Time
	B *time.Time
	C *null.Time
	D *null.Time
	E *null.String
	F *time.Time
}

// an embedded struct with a field of the same Avro name as an outer field declared before it (the embedded struct is a
// field of its own, named after its type; nothing is promoted)
type EmbClashInner struct {
	X int64  `json:"x"`
	Y string `json:"y"`
}
type WEmbedClash struct {
	X int64 `json:"x"`
	EmbClashInner
	Y string `json:"y"`
}

// Avro names are case-sensitive: fields whose names differ only in case are different fields
type WCase struct {
	Id   int64  `json:"Id"`
	ID   string `json:"ID"`
	URL  int64
	Url  *int64
	Name string `json:"name"`
	NAME string `json:"NAME,omitempty"`
}

// no Avro-visible field at all: every record encodes to zero bytes
type WNoFields struct {
	hidden int
	Skip   int64  `json:"-"`
	BQ     string `bq:"-"`
}

// WChain0..9: ten record types chained through slices of pointers (the schema the encoder writes for them nests
// several JSON levels per record level; whatever bound the reader puts on nesting is far above this)
type WChain9 struct {
	V int64 `json:"v"`
}
type WChain8 struct {
	N []*WChain9 `json:"n"`
	V int64      `json:"v"`
}
type WChain7 struct {
	N []*WChain8 `json:"n"`
	V int64      `json:"v"`
}
type WChain6 struct {
	N []*WChain7 `json:"n"`
	V int64      `json:"v"`
}
type WChain5 struct {
	N []*WChain6 `json:"n"`
	V int64      `json:"v"`
}
type WChain4 struct {
	N []*WChain5 `json:"n"`
	V int64      `json:"v"`
}
type WChain3 struct {
	N []*WChain4 `json:"n"`
	V int64      `json:"v"`
}
type WChain2 struct {
	N []*WChain3 `json:"n"`
	V int64      `json:"v"`
}
type WChain1 struct {
	N []*WChain2 `json:"n"`
	V int64      `json:"v"`
}
type WChain0 struct {
	N []*WChain1 `json:"n"`
	V int64      `json:"v"`
}

// WMany: small records, a few thousand of them in one file (whatever a reader recycles per so-many records)
type WMany struct {
	P *int64           `json:"p"`
	L []int64          `json:"l"`
	S string           `json:"s"`
	M map[string]int64 `json:"m"`
	Q int64            `json:"q"`
}

// WFixedWidth: every field has a constant encoded width
type WFixedInner struct {
	X float64 `json:"x"`
	Y bool    `json:"y"`
}
type WFixedWidth struct {
	A float64     `json:"a"`
	B float32     `json:"b"`
	C bool        `json:"c"`
	N WFixedInner `json:"n"`
}

func staticOf[T any](name string) rtCase {
	return rtCase{name: name, typ: reflect.TypeFor[T](), mk: encodeGeneric[T], path: "encoder"}
}

func staticCases() []rtCase {
	return []rtCase{
		staticOf[SBasic]("SBasic"), staticOf[SOmit]("SOmit"), staticOf[SPtr]("SPtr"), staticOf[SColl]("SColl"),
		staticOf[STime]("STime"), staticOf[STags]("STags"), staticOf[SEmbedded]("SEmbedded"), staticOf[SNested]("SNested"), staticOf[SPacked]("SPacked"),
	}
}

type witness struct {
	rtCase
	values func(c *driverCtx) []reflect.Value
}

func vals[T any](xs ...T) func(c *driverCtx) []reflect.Value {
	return func(c *driverCtx) []reflect.Value {
		out := make([]reflect.Value, len(xs))
		for i := range xs {
			p := reflect.New(reflect.TypeFor[T]())
			p.Elem().Set(reflect.ValueOf(xs[i]))
			out[i] = p.Elem()
		}
		return out
	}
}

func ptr[T any](v T) *T { return &v }

func witnessCases() []witness {
	i7 := int64(7)
	pi7 := &i7
	var nilp *int64
	return []witness{
		{staticOf[WInt16]("int16"), vals(WInt16{1, 2, 3}, WInt16{-1, 32767, -5}, WInt16{-32768, 0, 9})},
		{staticOf[WPtrSlice]("ptr-slice-nil"), vals(WPtrSlice{nil, 5}, WPtrSlice{nil, 6})},
		{staticOf[WPtrSlice]("ptr-slice"), vals(WPtrSlice{&[]int64{1, 2}, 5}, WPtrSlice{&[]int64{}, 6})},
		{staticOf[WPtrMap]("ptr-map-nil"), vals(WPtrMap{nil, 5})},
		{staticOf[WPtrMap]("ptr-map"), vals(WPtrMap{&map[string]int64{"a": 1}, 5}, WPtrMap{&map[string]int64{"b": 2, "c": 3}, 6})},
		{staticOf[WMapPtr]("map-ptr"), vals(WMapPtr{map[string]*int64{"a": pi7, "n": nil}})},
		{staticOf[WMapTime]("map-time"), vals(WMapTime{map[string]time.Time{"a": time.Date(2020, 1, 2, 3, 4, 5, 6, time.UTC)}})},
		{staticOf[WMapNull]("map-null"), vals(WMapNull{map[string]null.Int{"a": null.IntFrom(3), "b": {}}})},
		{staticOf[WPtrPtr]("ptr-ptr"), vals(WPtrPtr{&pi7, 1}, WPtrPtr{nil, 2})},
		{staticOf[WPtrPtr]("ptr-ptr-inner-nil"), vals(WPtrPtr{&nilp, 1})},
		{staticOf[WPtrNull]("ptr-null"), vals(WPtrNull{ptr(null.IntFrom(4)), 1}, WPtrNull{nil, 2})},
		{staticOf[WPtrNull]("ptr-null-invalid"), vals(WPtrNull{&null.Int{}, 1})},
		{staticOf[WOmitString]("omit-string-empty"), vals(WOmitString{"", 1}, WOmitString{"x", 2}, WOmitString{"", 3})},
		{staticOf[WMapMap]("map-map"), vals(WMapMap{map[string]map[string]int64{"a": {"x": 1}, "b": {}}})},
		{staticOf[WCase]("case-variant-names"), vals(WCase{1, "two", 3, pi7, "five", "six"}, WCase{0, "", 9, nil, "", ""}, WCase{-1, "x", 0, pi7, "y", ""})},
		{staticOf[WNoFields]("no-visible-fields"), vals(WNoFields{1, 2, "a"}, WNoFields{}, WNoFields{3, 4, "b"})},
		{staticOf[WBigColl]("round-number-collections"), func(c *driverCtx) []reflect.Value {
			var out []WBigColl
			for _, n := range []int{1024, 4096, 4097, 8192} {
				l := make([]int64, n)
				for i := range l {
					l[i] = int64(i%251 - 100)
				}
				m := map[string]int32{}
				if n == 1024 || n == 4096 {
					for i := 0; i < n; i++ {
						m[fmt.Sprintf("k%d", i)] = int32(i)
					}
				}
				out = append(out, WBigColl{L: l, M: m, Z: fmt.Sprintf("after-%d", n)})
			}
			return vals(out...)(c)
		}},
		{staticOf[WBlob]("large-payloads"), func(c *driverCtx) []reflect.Value {
			var out []WBlob
			for i, n := range []int{40000, 32768, 100, 33000} {
				out = append(out, WBlob{B: payload(c.rng, n), S: strings.Repeat(string(rune('a'+i)), n+1), N: int64(i)})
			}
			return vals(out...)(c)
		}},
		{staticOf[WMapBytes]("map-bytes-empty-among-nonempty"), vals(
			WMapBytes{M: map[string][]byte{"a": {1, 2, 3}, "b": {}, "c": {4}, "d": {}, "e": {5, 6}, "f": {}, "g": {7}, "h": {}}, L: [][]byte{{1}, {}, {2, 3}, {}}},
			WMapBytes{M: map[string][]byte{"x": {}, "y": {9, 9}}, L: [][]byte{{}, {}}})},
		{staticOf[WTrailEmpty]("trailing-empty-record"), vals(WTrailEmpty{A: 1}, WTrailEmpty{A: 2}, WTrailEmpty{A: 3})},
		{staticOf[WTrailEmptySlice]("trailing-empty-items"), vals(WTrailEmptySlice{A: "x", E: make([]struct{}, 3)}, WTrailEmptySlice{A: "y"}, WTrailEmptySlice{A: "z", E: make([]struct{}, 70)})},
		{staticOf[WMapWide]("map-values-wider-than-128-bytes"), vals(
			WMapWide{M: map[string]wide17{"a": {A: 1, Q: 17}, "b": {B: 2, P: 16}, "c": {}}, Z: 5},
			WMapWide{M: map[string]wide17{"k": {1, 2, 3, 4, 5, 6, 7, 8, 9, 10, 11, 12, 13, 14, 15, 16, 17}}, Z: 6})},
		{staticOf[WOddSize]("odd-size-optional-tail"), vals(WOddSize{1, 10, 7}, WOddSize{2, 20, 0}, WOddSize{3, 30, 9}, WOddSize{4, 40, 0})},
		{staticOf[WOddSizePtr]("odd-size-optional-tail-in-bank"), func(c *driverCtx) []reflect.Value {
			type q = struct {
				X int16 `json:"x,omitempty"`
				Y bool  `json:"y,omitempty"`
				Z int16 `json:"z,omitempty"`
			}
			var out []WOddSizePtr
			for i := 0; i < 12; i++ {
				v := WOddSizePtr{P: &WOddSize{int32(i), int32(i * 10), 0}, Q: &q{}}
				if i%2 == 0 {
					v.P.C, v.Q.X, v.Q.Y, v.Q.Z = int32(100+i), int16(i+1), true, int16(-i-1)
				}
				out = append(out, v)
			}
			return vals(out...)(c)
		}},
		{staticOf[WPtrTimes]("several-time-pointers"), func(c *driverCtx) []reflect.Value {
			t1 := time.Date(2021, 3, 4, 5, 6, 7, 8000, time.FixedZone("", 3600))
			t2 := time.Date(1999, 12, 31, 23, 59, 59, 0, time.UTC)
			t3 := time.Date(2038, 1, 19, 3, 14, 8, 999999000, time.FixedZone("", -5*3600))
			n1, n2, ns := null.TimeFrom(t2), null.TimeFrom(t3), null.StringFrom("str")
			return vals(WPtrTimes{&t1, &t2, &n1, &n2, &ns, &t3}, WPtrTimes{A: &t3, C: &n2}, WPtrTimes{&t2, &t1, &n2, &n1, &ns, &t1})(c)
		}},
		{staticOf[WOmitColl]("omitempty-collections-with-zero-elements"), func(c *driverCtx) []reflect.Value {
			z := int64(0)
			return vals(WOmitColl{L: []null.Int{null.IntFrom(0), null.IntFrom(5), {}}, M: map[string]null.String{"a": null.StringFrom(""), "b": null.StringFrom("x"), "c": {}}, LP: []*int64{&z, nil, &z}, LS: []string{"", "x", ""}, Q: 1},
				WOmitColl{Q: 2}, WOmitColl{L: []null.Int{null.IntFrom(0)}, LS: []string{""}, Q: 3})(c)
		}},
		{staticOf[WMany]("thousands-of-small-records"), func(c *driverCtx) []reflect.Value {
			out := make([]WMany, 2100)
			for i := range out {
				out[i].Q = int64(i)
				if i%3 == 0 { // (a period that does not divide any power of two: record i and record i+1024 differ in kind)
					v := int64(i * 7)
					out[i] = WMany{P: &v, L: []int64{int64(i), int64(i + 1)}, S: fmt.Sprint("s", i), M: map[string]int64{fmt.Sprint("k", i): int64(i)}, Q: int64(i)}
				}
			}
			return vals(out...)(c)
		}},
		{staticOf[WChain0]("ten-record-types-chained"), func(c *driverCtx) []reflect.Value {
			mk := func(k int64) WChain0 {
				l9 := &WChain9{k}
				l8 := &WChain8{[]*WChain9{l9, l9}, k + 1}
				l7 := &WChain7{[]*WChain8{l8}, k + 2}
				l6 := &WChain6{[]*WChain7{l7, nil}, k + 3}
				l5 := &WChain5{[]*WChain6{l6}, k + 4}
				l4 := &WChain4{[]*WChain5{l5}, k + 5}
				l3 := &WChain3{[]*WChain4{l4}, k + 6}
				l2 := &WChain2{[]*WChain3{l3}, k + 7}
				l1 := &WChain1{[]*WChain2{l2}, k + 8}
				return WChain0{[]*WChain1{l1}, k + 9}
			}
			return vals(mk(1), WChain0{}, mk(100))(c)
		}},
		{staticOf[WShareStr]("strings-shared-across-records"), func(c *driverCtx) []reflect.Value {
			x, y, z := "a long string that several records share with each other", strings.Repeat("y", 45), strings.Repeat("z", 33)
			var out []WShareStr
			for i := 0; i < 12; i++ {
				if i%3 == 0 {
					sh := "ab"
					out = append(out, WShareStr{S: "", P: &sh, L: []string{"c", x}})
				} else {
					yy := y
					out = append(out, WShareStr{S: x, P: &yy, L: []string{z, fmt.Sprint("tail", i), x}})
				}
			}
			return vals(out...)(c)
		}},
		{staticOf[WPtrZero]("pointers-to-zero-values"), func(c *driverCtx) []reflect.Value {
			zs, zi, zf := "", int64(0), 0.0
			return vals(WPtrZero{&time.Time{}, &zs, &zi, &zf, 1}, WPtrZero{Q: 2}, WPtrZero{&time.Time{}, nil, &zi, nil, 3})(c)
		}},
		{staticOf[WManyPtrTypes]("many-pointer-types"), func(c *driverCtx) []reflect.Value {
			mk := func(k int) WManyPtrTypes {
				i64, i32, i16, f32, f64, b, s := int64(1000+k), int32(2000+k), int16(300+k), float32(k)+0.5, float64(k)+0.25, k%2 == 0, fmt.Sprint("s", k)
				t := time.Date(2000+k, 1, 2, 3, 4, 5, 0, time.UTC)
				a, bb, n, l, m := mpA{int64(k)}, mpB{fmt.Sprint("y", k), int32(k)}, null.IntFrom(int64(k)), []int64{int64(k)}, map[string]int64{"k": int64(k)}
				i64b, i32b, i16b, f32b, f64b, b2, s2 := i64+1, i32+1, i16+1, f32+1, f64+1, !b, s+"'"
				t2 := t.Add(time.Hour)
				a2, bb2, n2, l2, m2 := mpA{int64(k + 1)}, mpB{fmt.Sprint("y'", k), int32(k + 1)}, null.IntFrom(int64(k+1)), []int64{int64(k + 1), 7}, map[string]int64{"k2": int64(k + 1)}
				return WManyPtrTypes{&i64, &i32, &i16, &f32, &f64, &b, &s, &t, &a, &bb, &n, &l, &m, &i64b, &i32b, &i16b, &f32b, &f64b, &b2, &s2, &t2, &a2, &bb2, &n2, &l2, &m2}
			}
			return vals(mk(1), mk(2), mk(3))(c)
		}},
		{staticOf[WEmbedClash]("embedded-struct-same-field-names"), vals(WEmbedClash{1, EmbClashInner{2, "in"}, "out"}, WEmbedClash{-1, EmbClashInner{0, ""}, ""}, WEmbedClash{0, EmbClashInner{7, "z"}, "q"})},
		{staticOf[WTwice]("struct-twice"), vals(WTwice{SInner{1, "a"}, SInner{2, "b"}})},
	}
}

// ---------------------------------------------------------------------------
// known findings: features to keep out of composite cases

type knownFinding struct {
	Property string   `json:"property"`
	Key      string   `json:"key"`
	What     string   `json:"what"`
	Excludes []string `json:"excludes"`
}

func loadKnown() []knownFinding {
	path := os.Getenv("VERIF_KNOWN")
	if path == "" {
		path = "/verif/known_findings.json"
	}
	b, err := os.ReadFile(path)
	if err != nil {
		return nil
	}
	var f struct {
		Known []knownFinding `json:"known"`
	}
	if json.Unmarshal(b, &f) != nil {
		return nil
	}
	return f.Known
}

// featuresFromKnown disables generator features that a known finding of this
// property names, so a listed defect cannot mask a new one in composite cases.
func featuresFromKnown(prop string) features {
	f := defaultFeatures()
	for _, k := range loadKnown() {
		if k.Property != prop {
			continue
		}
		for _, e := range k.Excludes {
			switch e {
			case "int16":
				f.Int16 = false
			case "ptr-collection":
				f.PtrSlice = false
			case "map-nullable-value":
				f.MapNullableVal = false
			case "ptr-ptr":
				f.PtrPtr = false
			case "ptr-null":
				f.PtrNullWrapper = false
			case "omit-string":
				f.OmitString = false
			case "map-of-map":
				f.MapOfMap = false
			}
		}
	}
	return f
}
