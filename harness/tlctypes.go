package main

// Go types enumerated by TLC (spec/MC_SchemaGen.tla: every leaf kind under up to two wrappers, struct
// fields with every tag combination) built with reflect, so that the type space of C15 / C01 / C02 is
// covered systematically and not only by the seeded random generator.

import (
	"fmt"
	"reflect"
	"strings"
)

var errNoGoType = fmt.Errorf("type node has no reflect counterpart")

func typeFromNode(n node) (reflect.Type, error) {
	k := nodeStr(n, "k")
	w := nodeInt(n, "w")
	kids := nodeKids(n)
	switch k {
	case "bool":
		return reflect.TypeOf(false), nil
	case "int":
		switch w {
		case 1:
			return reflect.TypeOf(int8(0)), nil
		case 2:
			return reflect.TypeOf(int16(0)), nil
		case 4:
			return reflect.TypeOf(int32(0)), nil
		}
		return reflect.TypeOf(int64(0)), nil
	case "uint":
		if w == 4 {
			return reflect.TypeOf(uint32(0)), nil
		}
		return reflect.TypeOf(uint64(0)), nil
	case "f32":
		return reflect.TypeOf(float32(0)), nil
	case "f64":
		return reflect.TypeOf(float64(0)), nil
	case "string":
		return reflect.TypeOf(""), nil
	case "bytes":
		return reflect.TypeOf([]byte(nil)), nil
	case "bytearr":
		return reflect.ArrayOf(w, reflect.TypeOf(byte(0))), nil
	case "time":
		return timeT, nil
	case "nullint":
		return nullIntT, nil
	case "nullstring":
		return nullStringT, nil
	case "iface":
		return reflect.TypeOf((*any)(nil)).Elem(), nil
	case "chan":
		return reflect.TypeOf((chan int)(nil)), nil
	case "func":
		return reflect.TypeOf((func())(nil)), nil
	case "complex":
		return reflect.TypeOf(complex128(0)), nil
	case "ptr", "slice":
		e, err := typeFromNode(kids[0])
		if err != nil {
			return nil, err
		}
		if k == "ptr" {
			return reflect.PointerTo(e), nil
		}
		return reflect.SliceOf(e), nil
	case "map":
		kt, err := typeFromNode(kids[0])
		if err != nil {
			return nil, err
		}
		e, err := typeFromNode(kids[1])
		if err != nil {
			return nil, err
		}
		return reflect.MapOf(kt, e), nil
	case "struct":
		fs := make([]reflect.StructField, len(kids))
		for i, f := range kids {
			ft, err := typeFromNode(nodeKids(f)[0])
			if err != nil {
				return nil, err
			}
			name := nodeStr(f, "goName")
			sf := reflect.StructField{Name: fmt.Sprintf("%s%d", name, i), Type: ft}
			exported, _ := f["exported"].(bool)
			if !exported {
				sf.PkgPath = "main"
			} else {
				sf.Name = strings.ToUpper(sf.Name[:1]) + sf.Name[1:]
			}
			var tags []string
			jn := nodeStr(f, "jsonName")
			opts, _ := f["jsonOpts"].([]any)
			if jn != "" || len(opts) > 0 {
				parts := []string{jn}
				for _, o := range opts {
					parts = append(parts, fmt.Sprint(o))
				}
				tags = append(tags, fmt.Sprintf(`json:"%s"`, strings.Join(parts, ",")))
			}
			if bq := nodeStr(f, "bq"); bq != "" {
				tags = append(tags, fmt.Sprintf(`bq:"%s"`, bq))
			}
			sf.Tag = reflect.StructTag(strings.Join(tags, " "))
			fs[i] = sf
		}
		return reflect.StructOf(fs), nil
	}
	return nil, errNoGoType
}

// tlcTypes loads the enumerated types; every one is wrapped into a top-level struct when it is not a struct
// itself (SchemaForType and Encoder need a struct).
func tlcTypes(path string) ([]reflect.Type, error) {
	cases, err := loadTLCcases(path)
	if err != nil {
		return nil, err
	}
	var out []reflect.Type
	seen := map[string]bool{}
	for _, m := range cases {
		tn, ok := m["t"].(map[string]any)
		if !ok {
			continue
		}
		t, err := typeFromNode(node(tn))
		if err != nil {
			continue
		}
		if t.Kind() != reflect.Struct {
			t = reflect.StructOf([]reflect.StructField{{Name: "V", Type: t, Tag: `json:"v"`}, {Name: "Z", Type: reflect.TypeOf(int64(0)), Tag: `json:"z"`}})
		}
		if !seen[t.String()] {
			seen[t.String()] = true
			out = append(out, t)
		}
	}
	return out, nil
}
