package main

// C07 / C08: the container reader on truncated and damaged files and with a
// failing callback. Judged by spec/Trace_Reader.tla.

import (
	"errors"
	"fmt"
	"io"
	"reflect"
)

func init() {
	drivers["C08"] = driveC08
	drivers["C07"] = driveC07
}

// RRec is the record type of the reader files.
type RRec struct {
	ID   int64    `json:"id"`
	Name string   `json:"name"`
	Tags []string `json:"tags,omitempty"`
	F    float64  `json:"f"`
	Opt  *int64   `json:"opt"`
}

type readerFile struct {
	name   string
	codec  string
	bytes  []byte
	inputs []reflect.Value
	typ    reflect.Type // nil: RRec
}

func (rf readerFile) targetType() reflect.Type {
	if rf.typ != nil {
		return rf.typ
	}
	return reflect.TypeFor[RRec]()
}

func mkRRec(c *driverCtx, i int, big bool) RRec {
	r := RRec{ID: int64(i), Name: fmt.Sprintf("name-%d-%s", i, string(genBytes(c.rng))), F: float64(i) * 1.5}
	for j := 0; j < c.rng.Intn(3); j++ {
		r.Tags = append(r.Tags, fmt.Sprintf("t%d", j))
	}
	if i%3 == 0 {
		v := int64(i * 1000)
		r.Opt = &v
	}
	if big {
		b := make([]byte, 9000)
		for k := range b {
			b[k] = byte('a' + c.rng.Intn(26))
		}
		r.Name = string(b)
	}
	return r
}

// readerFiles builds valid files with the library's own writer (their
// validity is C02's business and is re-checked by the judge's ParseFile).
func readerFiles(c *driverCtx, withLarge bool) []readerFile {
	var out []readerFile
	layouts := []struct {
		name  string
		n     int
		block int
		flush []int
		big   bool
	}{
		{"empty", 0, 100, nil, false},
		{"one", 1, 100, nil, false},
		{"three-blocks", 7, 60, nil, false},
		{"rec-per-block", 4, 0, nil, false},
		{"flushes", 6, 1 << 20, []int{1, 2, 5}, false},
	}
	if withLarge {
		// a block whose payload is larger than 1 MiB (the reader fetches payloads in 1 MiB chunks)
		layouts = append(layouts, struct {
			name  string
			n     int
			block int
			flush []int
			big   bool
		}{"over1MiB", 3, 1 << 30, []int{0}, false})
		layouts = append(layouts,
			struct {
				name  string
				n     int
				block int
				flush []int
				big   bool
			}{"count64", 70, 1 << 20, nil, false},
			struct {
				name  string
				n     int
				block int
				flush []int
				big   bool
			}{"len3bytes", 2, 1 << 20, []int{0}, true})
	}
	st := staticOf[RRec]("RRec")
	for _, codec := range codecs3 {
		for _, l := range layouts {
			if l.name == "over1MiB" && codec != "null" && !c.thorough() {
				continue
			}
			vals := make([]reflect.Value, l.n)
			for i := range vals {
				p := reflect.New(st.typ)
				r := mkRRec(c, i, l.big)
				if l.name == "over1MiB" && i > 0 {
					r.Name = string(payload(c.rng, 600000)) // incompressible, two of them make the second block > 1 MiB
				}
				p.Elem().Set(reflect.ValueOf(r))
				vals[i] = p.Elem()
			}
			cfg := rtConfig{Codec: codec, Block: l.block, Flush: map[int]bool{}}
			for _, f := range l.flush {
				cfg.Flush[f] = true
			}
			w := &recWriter{}
			if err, p := safeMake(st.mk, w, cfg, vals); err != nil || p != "" {
				continue
			}
			out = append(out, readerFile{name: l.name, codec: codec, bytes: w.out, inputs: vals})
		}
	}
	// records that take no bytes at all (a type without Avro-visible fields): the declared count is all there is
	{
		zt := staticOf[WNoFields]("WNoFields")
		for _, codec := range codecs3 {
			vals := make([]reflect.Value, 5)
			for i := range vals {
				p := reflect.New(zt.typ)
				vals[i] = p.Elem()
			}
			w := &recWriter{}
			cfg := rtConfig{Codec: codec, Block: 1 << 20, Flush: map[int]bool{1: true, 4: true}}
			if err, p := safeMake(zt.mk, w, cfg, vals); err == nil && p == "" {
				out = append(out, readerFile{name: "zero-width-records", codec: codec, bytes: w.out, inputs: vals, typ: zt.typ})
			}
		}
	}
	// records of constant width (floats, booleans, fixed only) in blocks well over 64 KiB: a reader that works
	// through such a block in slices must still not deliver any of it before all of it is there
	{
		ft := staticOf[WFixedWidth]("WFixedWidth")
		vals := make([]reflect.Value, 3510)
		for i := range vals {
			p := reflect.New(ft.typ)
			p.Elem().Set(reflect.ValueOf(WFixedWidth{A: float64(i) / 3, B: float32(i), C: i%3 == 0, N: WFixedInner{X: float64(-i), Y: i%2 == 0}}))
			vals[i] = p.Elem()
		}
		w := &recWriter{}
		cfg := rtConfig{Codec: "null", Block: 1 << 30, Flush: map[int]bool{9: true}}
		if err, p := safeMake(ft.mk, w, cfg, vals); err != nil || p != "" {
			panic(fmt.Sprintf("harness: cannot write the fixed-width file: %v %s", err, p))
		} else {
			out = append(out, readerFile{name: "fixed-width-records", codec: "null", bytes: w.out, inputs: vals, typ: ft.typ})
		}
	}
	// files no writer of this library would produce but any conformant writer may: blocks declaring zero records
	// (empty payload) between ordinary blocks, at the start and at the end
	for _, codec := range codecs3 {
		vals := make([]reflect.Value, 3)
		raws := make([][]byte, 3)
		ok := true
		for i := range vals {
			p := reflect.New(st.typ)
			p.Elem().Set(reflect.ValueOf(mkRRec(c, i, false)))
			vals[i] = p.Elem()
			raw, err := primWriteRecord(st.typ, vals[i])
			if err != nil {
				ok = false
			}
			raws[i] = raw
		}
		if !ok {
			continue
		}
		two := append(append([]byte{}, raws[0]...), raws[1]...)
		blocks := [][2]any{{0, []byte{}}, {2, two}, {0, []byte{}}, {0, []byte{}}, {1, raws[2]}, {0, []byte{}}}
		out = append(out, readerFile{name: "zero-count-blocks", codec: codec, bytes: buildContainer([]byte(rrecSchemaJSON), codec, true, []byte("0123456789abcdef"), blocks), inputs: vals})
	}
	return out
}

const rrecSchemaJSON = `{"type":"record","name":"RRec","fields":[{"name":"id","type":"long"},{"name":"name","type":"string"},{"name":"tags","type":["null",{"type":"array","items":"string"}]},{"name":"f","type":"double"},{"name":"opt","type":["null","long"]}]}`

var errSentinel = errors.New("callback sentinel")

func readerOutcome(r readResult, sentinel error) map[string]any {
	cls := "none"
	switch {
	case r.err == nil:
	case r.err == sentinel:
		cls = "sentinel"
	default:
		cls = "other"
	}
	return map[string]any{"delivered": orEmpty(r.delivered), "recheck": orEmpty(r.recheck), "err": cls, "errText": errString(r.err), "panic": r.panicked, "calls": r.calls}
}

func emitOpen(c *driverCtx, prop string, rf readerFile) string {
	key := fmt.Sprintf("%s|%s|%s", prop, rf.codec, rf.name)
	inputs := make([]any, len(rf.inputs))
	for i, v := range rf.inputs {
		inputs[i] = projectValue(v)
	}
	blocks := []any{}
	if f, err := splitContainer(rf.bytes); err == nil {
		for _, b := range f.Blocks {
			raw, ok, crc := indepDecompress(rf.codec, b.Payload)
			blocks = append(blocks, map[string]any{"raw": byteList(raw), "ok": ok, "crc": crc})
			if b.Count >= 64 {
				c.rec.Realised("count-2-bytes")
			}
			if len(b.Payload) >= 64 {
				c.rec.Realised("len-2-bytes")
			}
			if len(b.Payload) >= 8192 {
				c.rec.Realised("len-3-bytes")
			}
		}
		c.rec.Realised(fmt.Sprintf("blocks=%d", min(len(f.Blocks), 3)))
	}
	c.rec.NewCase()
	open := map[string]any{"op": "rd_open", "file": byteList(rf.bytes), "codec": rf.codec, "inputs": inputs, "blocks": blocks}
	c.rec.Emit(key, open)
	c.rec.SetPreamble(open)
	return key
}

// reader kinds: what is handed to ReadFile (any io.Reader + io.ByteReader) and, after a "+", what the callback does
// with the banks it is given: nothing until the end (default), close every bank as soon as the record has been looked
// at ("+close"), or close every other one at once and keep the rest ("+closesome")
var readerKinds = []string{"bytes", "bufio", "onebyte", "chunk", "buffer", "strings", "bytes+close", "bufio+closesome", "buffer+closesome", "chunk+close", "strings+closesome", "bytes+nested", "bufio+nested", "eagereof", "eagereof+close"}

func driveC08(c *driverCtx) error {
	files := readerFiles(c, true)
	for fi, rf := range files {
		key := emitOpen(c, "C08", rf)
		n := len(rf.bytes)
		step := 1
		if n > 700 {
			step = c.pick(n/200, n/1500+1)
		}
		if n > 1<<20 || rf.name == "fixed-width-records" {
			step = n // only the cuts near field and chunk boundaries
		}
		// every cut for ordinary files; for the large ones every cut near a field boundary plus a stride
		important := map[int]bool{0: true, n: true}
		if f, err := splitContainer(rf.bytes); err == nil {
			for _, b := range f.Blocks {
				for _, p := range []int{b.Start, b.LenAt, b.DataAt, b.SyncAt, b.End, f.HeaderEnd} {
					for d := -2; d <= 2; d++ {
						important[p+d] = true
					}
				}
				for k := 1; k<<16 < len(b.Payload) && k <= 3; k++ {
					for d := -1; d <= 1; d++ {
						important[b.DataAt+k<<16+d] = true // 64 KiB steps into a large payload
						important[b.DataAt+k<<16+d+3000] = true
					}
				}
				for k := 1; k<<20 < len(b.Payload); k++ {
					c.rec.Realised("payload-over-1MiB")
					for d := -1; d <= 1; d++ {
						important[b.DataAt+k<<20+d] = true
					}
				}
			}
		}
		for cut := 0; cut <= n; cut++ {
			if step > 1 && cut%step != 0 && !important[cut] {
				continue
			}
			r := readBack(rf.targetType(), rf.bytes[:cut], readerKinds[(cut+fi)%len(readerKinds)], cut%2 == 0, -1, nil)
			ev := readerOutcome(r, nil)
			ev["op"], ev["cut"] = "rd_cut", cut
			c.rec.Emit(key, ev)
		}
	}
	return nil
}

func driveC07(c *driverCtx) error {
	typ := reflect.TypeFor[RRec]()
	files := readerFiles(c, true)
	for fi, rf := range files {
		if rf.name == "fixed-width-records" {
			continue // C08's file
		}
		if rf.name == "over1MiB" || rf.name == "len3bytes" || (rf.name == "count64" && !c.thorough()) {
			// bit flips over large payloads add nothing but volume (truncation of those is C08's business); the
			// intact file must still deliver exactly its records (a block larger than the reader's 1 MiB chunk)
			if rf.name == "over1MiB" {
				key := emitOpen(c, "C07", rf)
				r := readBack(rf.targetType(), rf.bytes, "bytes", false, -1, nil)
				ev := readerOutcome(r, nil)
				ev["op"], ev["cut"] = "rd_cut", len(rf.bytes)
				c.rec.Emit(key, ev)
			}
			continue
		}
		f, err := splitContainer(rf.bytes)
		if err != nil {
			continue
		}
		key := emitOpen(c, "C07", rf)
		// intact file, every reader kind
		for _, rk := range readerKinds {
			r := readBack(rf.targetType(), rf.bytes, rk, false, -1, nil)
			ev := readerOutcome(r, nil)
			ev["op"], ev["cut"] = "rd_cut", len(rf.bytes)
			c.rec.Emit(key, ev)
		}
		// callback failing at every record index
		for i := 0; i < len(rf.inputs); i++ {
			if len(rf.inputs) > 12 && i%9 != 0 {
				continue
			}
			// the error is the caller's: whatever it is -- a private sentinel, io.EOF, io.ErrUnexpectedEOF, something
			// wrapped -- it comes back unchanged
			sentinel := []error{errSentinel, io.EOF, io.ErrUnexpectedEOF, fmt.Errorf("wrapped: %w", io.EOF), errSentinel}[i%5]
			r := readBack(rf.targetType(), rf.bytes, readerKinds[(i)%len(readerKinds)], i%2 == 0, i, sentinel)
			ev := readerOutcome(r, sentinel)
			ev["op"], ev["failAt"] = "rd_cb", i
			c.rec.Emit(key, ev)
			// ... also when what follows the record's block is not what it should be (the block's sync marker damaged,
			// or the file ending right after the block's payload): the callback's error is the first thing that
			// happens, and it is what comes back
			n, blk := int64(0), -1
			for k, b := range f.Blocks {
				if n += b.Count; int64(i) < n {
					blk = k
					break
				}
			}
			if blk >= 0 {
				damaged := append([]byte{}, rf.bytes...)
				if i%2 == 0 {
					damaged[f.Blocks[blk].SyncAt+i%16] ^= 0x10
				} else {
					damaged = damaged[:f.Blocks[blk].SyncAt+i%16]
				}
				r := readBack(rf.targetType(), damaged, readerKinds[(i+3)%len(readerKinds)], i%2 == 1, i, sentinel)
				ev := readerOutcome(r, sentinel)
				ev["op"], ev["failAt"] = "rd_cb_dmg", i
				c.rec.Emit(key, ev)
			}
		}
		// bit flips: sync markers, checksums, compressed payloads
		var sites []int
		addRange := func(from, to, stride int) {
			for p := from; p < to; p += stride {
				sites = append(sites, p)
			}
		}
		addRange(f.HeaderEnd-16, f.HeaderEnd, 1)
		for _, b := range f.Blocks {
			addRange(b.SyncAt, b.End, 1)
			if rf.codec != "null" {
				stride := 1
				if !c.thorough() && len(b.Payload) > 40 {
					stride = len(b.Payload)/40 + 1
				}
				addRange(b.DataAt, b.SyncAt, stride)
				if rf.codec == "snappy" {
					addRange(b.SyncAt-4, b.SyncAt, 1)
				}
			}
		}
		// bound the number of variants per file (every variant is a full ReadFile whose deliveries are recorded)
		maxVariants := c.pick(400, 6000)
		siteStride := 1
		if !c.thorough() {
			siteStride = 1
		}
		for len(sites)*c.pick(2, 8)/siteStride > maxVariants {
			siteStride++
		}
		for si, p := range sites {
			// sync markers and checksums are never thinned out; payload sites are
			inPayload := false
			for _, b := range f.Blocks {
				if p >= b.DataAt && p < b.SyncAt-4 {
					inPayload = true
				}
			}
			if inPayload && si%siteStride != 0 {
				continue
			}
			bits := []int{0, 1, 2, 3, 4, 5, 6, 7}
			if !c.thorough() {
				bits = []int{si % 8, (si*5 + 3) % 8}
			}
			for _, bit := range bits {
				d := append([]byte{}, rf.bytes...)
				d[p] ^= 1 << uint(bit)
				ev := map[string]any{}
				// environment oracle: what an independent decompressor says about the block the flip lands in
				dec := map[string]any{"inPayload": false, "ok": true, "crc": true, "same": true}
				for bi, b := range f.Blocks {
					if p >= b.DataAt && p < b.SyncAt {
						raw, ok, crc := indepDecompress(rf.codec, d[b.DataAt:b.SyncAt])
						orig, _, _ := indepDecompress(rf.codec, b.Payload)
						dec = map[string]any{"inPayload": true, "block": bi + 1, "ok": ok, "crc": crc, "same": ok && string(raw) == string(orig)}
					}
				}
				r := readBack(rf.targetType(), d, readerKinds[(si+fi)%len(readerKinds)], si%2 == 0, -1, nil)
				for k, v := range readerOutcome(r, nil) {
					ev[k] = v
				}
				ev["op"], ev["pos"], ev["bit"], ev["dec"] = "rd_flip", p+1, bit, dec
				c.rec.Emit(key, ev)
			}
		}
	}
	// header variants, written with the harness's own container writer
	st := staticOf[RRec]("RRec")
	schemaJSON := []byte(rrecSchemaJSON)
	sync := []byte("0123456789abcdef")
	rec := RRec{ID: 5, Name: "x", F: 2}
	p := reflect.New(st.typ)
	p.Elem().Set(reflect.ValueOf(rec))
	raw, _ := primWriteRecord(st.typ, p.Elem())
	good := buildContainer(schemaJSON, "null", true, sync, [][2]any{{1, raw}})
	variants := []struct {
		name string
		file []byte
	}{
		{"intact", good},
		{"nocodec", buildContainer(schemaJSON, "null", false, sync, [][2]any{{1, raw}})},
		{"badmagic", append([]byte{'O', 'b', 'j', 2}, good[4:]...)},
		{"unknowncodec", buildContainer(schemaJSON, "bzip2", true, sync, [][2]any{{1, raw}})},
		{"noschema", replaceOnce(good, []byte("avro.schema"), []byte("avro.schemx"))},
		{"unknowncodec-empty", buildContainer(schemaJSON, "", true, sync, [][2]any{{1, raw}})},
		{"unknowncodec-upper", buildContainer(schemaJSON, "NULL", true, sync, [][2]any{{1, raw}})},
		{"unknowncodec-space", buildContainer(schemaJSON, " null", true, sync, [][2]any{{1, raw}})},
		{"unknowncodec-zstd", buildContainer(schemaJSON, "zstandard", true, sync, [][2]any{{1, raw}})},
	}
	// the same with the header's metadata map spread over several map blocks (one entry per block, and an entry no
	// reader knows): what a header says does not depend on how its map is cut into blocks
	for _, layout := range []int{1, 4} {
		metaLayout = layout
		sfx := fmt.Sprintf("-split%d", layout)
		variants = append(variants, []struct {
			name string
			file []byte
		}{
			{"intact" + sfx, buildContainer(schemaJSON, "null", true, sync, [][2]any{{1, raw}})},
			{"nocodec" + sfx, buildContainer(schemaJSON, "null", false, sync, [][2]any{{1, raw}})},
			{"unknowncodec" + sfx, buildContainer(schemaJSON, "bzip2", true, sync, [][2]any{{1, raw}})},
			{"unknowncodec-zstd" + sfx, buildContainer(schemaJSON, "zstandard", true, sync, [][2]any{{1, raw}})},
		}...)
		metaLayout = 0
	}
	for _, v := range variants {
		c.rec.NewCase()
		r := readBack(typ, v.file, "bytes", false, -1, nil)
		ev := readerOutcome(r, nil)
		ev["op"], ev["variant"], ev["file"] = "rd_hdr", v.name, byteList(v.file)
		ev["input"] = projectValue(p.Elem())
		c.rec.Emit("C07|header|"+v.name, ev)
	}
	return nil
}

func replaceOnce(b, old, new []byte) []byte {
	out := append([]byte{}, b...)
	for i := 0; i+len(old) <= len(out); i++ {
		if string(out[i:i+len(old)]) == string(old) {
			copy(out[i:], new)
			break
		}
	}
	return out
}

// primWriteRecord encodes one value with the codec the library builds for its
// generated schema (used only to obtain a payload for harness-built containers).
func primWriteRecord(t reflect.Type, v reflect.Value) ([]byte, error) {
	w := &recWriter{}
	cfg := rtConfig{Codec: "null", Block: 1 << 20, Flush: map[int]bool{}}
	if err := encodeReflect(t)(w, cfg, []reflect.Value{v}); err != nil {
		return nil, err
	}
	f, err := splitContainer(w.out)
	if err != nil || len(f.Blocks) != 1 {
		return nil, fmt.Errorf("cannot split own file")
	}
	return f.Blocks[0].Payload, nil
}
