package main

// C06: malformed input through every reading entry point. Each case runs in a
// child process (batches) under recover, with a wall-clock watchdog and an
// address-space limit, and its outcome and allocation are recorded. Judged by
// spec/Trace_Robust.tla: outcome must be ok or err, allocation bounded by a
// linear function of the input size.

import (
	"bufio"
	"bytes"
	"encoding/json"
	"fmt"
	"math"
	"os"
	"os/exec"
	"reflect"
	"runtime"
	"runtime/debug"
	"strings"
	"syscall"
	"time"
	"unsafe"

	"github.com/philpearl/avro"
)

func init() {
	drivers["C06"] = driveC06
	children["robust"] = robustChild
}

type robustCase struct {
	Entry  string `json:"entry"`  // read | skip | readfile | schema | time | codec
	Schema string `json:"schema"` // schema JSON (read/skip/codec) or text (schema)
	Var    int    `json:"var"`    // target variant
	Bytes  []byte `json:"bytes"`
	Key    string `json:"key"`
	Kind   string `json:"kind,omitempty"` // reader kind for file inputs
}

type robustResult struct {
	I       int    `json:"i"`
	Outcome string `json:"outcome"`
	Alloc   uint64 `json:"alloc"`
	Ms      int64  `json:"ms"`
	Detail  string `json:"detail"`
}

var variants = []goVariant{{}, {IntW: 16}, {PtrLevel: 1, PtrStruct: true}, {NullWrap: true, Float32: true}, {IntW: -1, PtrLevel: 2}, {PtrColl: true}}

func targetFor(schemaJSON string, vi int) (avro.Schema, any, error) {
	s, err := avro.SchemaFromString(schemaJSON)
	if err != nil {
		return s, nil, err
	}
	sn, err := schemaNodeFromJSON([]byte(schemaJSON))
	if err != nil {
		return s, nil, err
	}
	t, err := goTypeFor(sn, variants[vi%len(variants)], 0)
	if err != nil || t.Kind() != reflect.Struct {
		// schemas without a Go counterpart are read into an empty struct (everything is skipped)
		t = reflect.TypeOf(struct{}{})
	}
	return s, reflect.New(t).Interface(), nil
}

// execCase runs one case in-process.
func execCase(rc robustCase) (outcome, detail string) {
	defer func() {
		if r := recover(); r != nil {
			outcome, detail = "panic", fmt.Sprint(r)
			if panicOrigin(string(debug.Stack())) == "harness" {
				outcome = "harnessbug"
			}
		}
	}()
	switch rc.Entry {
	case "read", "skip", "codec":
		s, out, err := targetFor(rc.Schema, rc.Var)
		if err != nil {
			return "err", "schema: " + err.Error()
		}
		if rc.Entry == "skip" {
			out = &struct{}{}
		}
		codec, err := s.Codec(out)
		if err != nil {
			return "err", "codec: " + err.Error()
		}
		if rc.Entry == "codec" {
			// a codec that could be built must also survive a few inputs (result or error)
			exerciseCodec(codec, out)
			return "ok", ""
		}
		r := avro.NewReadBuf(rc.Bytes)
		defer r.ExtractResourceBank().Close()
		if err := codec.Read(r, reflect.ValueOf(out).UnsafePointer()); err != nil {
			return "err", err.Error()
		}
		// skip path of the same codec on the same bytes
		r2 := avro.NewReadBuf(rc.Bytes)
		defer r2.ExtractResourceBank().Close()
		if err := codec.Skip(r2); err != nil {
			return "err", "skip: " + err.Error()
		}
		return "ok", ""
	case "readfile":
		var out any = &struct{}{}
		if f, err := splitHeaderOnly(rc.Bytes); err == nil {
			if _, o, err := targetFor(string(f), rc.Var); err == nil {
				out = o
			}
		}
		// one of the kinds of reader a caller may hand over (the library may treat some of them specially)
		n := 0
		kind := rc.Kind
		if kind == "" {
			kind = "bytes"
		}
		err := avro.ReadFile(makeReader(kind, rc.Bytes), out, func(val unsafe.Pointer, rb *avro.ResourceBank) error {
			n++
			rb.Close()
			return nil
		})
		if err != nil {
			return "err", err.Error()
		}
		return "ok", fmt.Sprintf("%d records", n)
	case "history":
		// process history: a record with millions of bank allocations is decoded and its bank closed; afterwards a small,
		// valid input must still decode (result or error, never a panic)
		sj := `{"type":"record","name":"H","fields":[{"name":"l","type":{"type":"array","items":["null","long"]}},{"name":"s","type":{"type":"array","items":"string"}}]}`
		sch, err := avro.SchemaFromString(sj)
		if err != nil {
			return "err", err.Error()
		}
		var out struct {
			L []*int64 `json:"l"`
			S []string `json:"s"`
		}
		codec, err := sch.Codec(&out)
		if err != nil {
			return "err", err.Error()
		}
		big := rc.Bytes // the huge record is the input of this case (allocation is measured against it)
		small := []byte{6, 2, 10, 0, 2, 12, 0, 4, 2, 'a', 6, 'x', 'y', 'z', 0}
		for round := 0; round < 2; round++ {
			r := avro.NewReadBuf(big)
			if err := codec.Read(r, unsafe.Pointer(&out)); err != nil {
				return "err", "big record: " + err.Error()
			}
			r.ExtractResourceBank().Close()
			out.L, out.S = nil, nil
			for k := 0; k < 4; k++ {
				r2 := avro.NewReadBuf(small)
				err := codec.Read(r2, unsafe.Pointer(&out))
				r2.ExtractResourceBank().Close()
				out.L, out.S = nil, nil
				if err != nil {
					return "err", err.Error()
				}
			}
		}
		return "ok", ""
	case "schema":
		s, err := avro.SchemaFromString(string(rc.Bytes))
		if err != nil {
			return "err", err.Error()
		}
		// a parsed schema must also survive codec construction and marshalling
		sc, err := s.Codec(&struct{}{})
		if err != nil {
			return "err", "codec: " + err.Error()
		}
		exerciseCodec(sc, &struct{}{})
		if _, err := s.Marshal(); err != nil {
			return "err", "marshal: " + err.Error()
		}
		return "ok", ""
	case "time":
		s, err := avro.SchemaFromString(`{"type":"record","name":"T","fields":[{"name":"t","type":"string"}]}`)
		if err != nil {
			return "err", err.Error()
		}
		var out struct {
			T time.Time `json:"t"`
		}
		codec, err := s.Codec(&out)
		if err != nil {
			return "err", err.Error()
		}
		w := avro.NewWriteBuf(nil)
		w.Varint(int64(len(rc.Bytes)))
		w.Write(rc.Bytes)
		r := avro.NewReadBuf(w.Bytes())
		defer r.ExtractResourceBank().Close()
		if err := codec.Read(r, unsafe.Pointer(&out)); err != nil {
			return "err", err.Error()
		}
		return "ok", out.T.String()
	}
	return "err", "unknown entry"
}

// exerciseCodec feeds a few canned inputs to Read and Skip; errors are fine, a panic is caught by the caller.
func exerciseCodec(codec avro.Codec, out any) {
	for _, in := range [][]byte{{}, {0}, {2}, {1}, {4, 0}, {0, 0, 0, 0, 0, 0}, {0xfe, 0xff, 0xff, 0xff, 0x0f}, {2, 2, 2, 2, 2, 2, 2, 2}} {
		r := avro.NewReadBuf(in)
		_ = codec.Read(r, reflect.ValueOf(out).UnsafePointer())
		r.ExtractResourceBank().Close()
		r2 := avro.NewReadBuf(in)
		_ = codec.Skip(r2)
		r2.ExtractResourceBank().Close()
	}
}

// panicOrigin tells whether the innermost non-runtime frame of a panic is library or harness code.
func panicOrigin(stack string) string {
	seenPanic := false
	for _, line := range strings.Split(stack, "\n") {
		if strings.HasPrefix(line, "\t") || line == "" {
			continue
		}
		if strings.HasPrefix(line, "panic(") {
			seenPanic = true
			continue
		}
		if !seenPanic {
			continue
		}
		switch {
		case strings.HasPrefix(line, "github.com/philpearl/avro"):
			return "lib"
		case strings.HasPrefix(line, "main."):
			return "harness"
		}
	}
	return "lib"
}

// splitHeaderOnly returns the embedded schema text of a container, if the
// header can be split by the independent splitter.
func splitHeaderOnly(b []byte) ([]byte, error) {
	// the header's metadata only, without copying anything (this runs inside the allocation measurement)
	if len(b) < 4 || !bytes.Equal(b[:4], []byte{'O', 'b', 'j', 1}) {
		return nil, fmt.Errorf("no magic")
	}
	pos := 4
	var schema []byte
	for {
		count, p, err := readVar(b, pos)
		if err != nil {
			return nil, err
		}
		pos = p
		if count == 0 {
			break
		}
		if count < 0 {
			if _, p, err = readVar(b, pos); err != nil {
				return nil, err
			}
			pos, count = p, -count
		}
		for ; count > 0; count-- {
			var kv [2][]byte
			for i := 0; i < 2; i++ {
				l, p, err := readVar(b, pos)
				if err != nil || l < 0 || l > int64(len(b)-p) {
					return nil, fmt.Errorf("bad metadata")
				}
				kv[i] = b[p : p+int(l)]
				pos = p + int(l)
			}
			if string(kv[0]) == "avro.schema" {
				schema = kv[1]
			}
		}
	}
	if schema == nil {
		return nil, fmt.Errorf("no schema")
	}
	return schema, nil
}

const robustCaseTimeout = 20 * time.Second

// after this many children died or timed out the run stops early
const maxChildDeaths = 12

// robustChild: args = [casesFile, resultsFile, firstIndex]
func robustChild(args []string) int {
	if len(args) < 3 {
		return 2
	}
	// address-space limit: a runaway allocation kills this child, not the machine
	lim := syscall.Rlimit{Cur: 8 << 30, Max: 8 << 30}
	syscall.Setrlimit(syscall.RLIMIT_AS, &lim)
	debug.SetGCPercent(400)
	var first int
	fmt.Sscan(args[2], &first)
	data, err := os.ReadFile(args[0])
	if err != nil {
		return 2
	}
	var cases []robustCase
	if err := json.Unmarshal(data, &cases); err != nil {
		return 2
	}
	out, err := os.OpenFile(args[1], os.O_APPEND|os.O_CREATE|os.O_WRONLY, 0o644)
	if err != nil {
		return 2
	}
	defer out.Close()
	for i := first; i < len(cases); i++ {
		done := make(chan robustResult, 1)
		go func(i int) {
			var m0, m1 runtime.MemStats
			runtime.ReadMemStats(&m0)
			t0 := time.Now()
			outcome, detail := execCase(cases[i])
			ms := time.Since(t0).Milliseconds()
			runtime.ReadMemStats(&m1)
			if len(detail) > 200 {
				detail = detail[:200]
			}
			done <- robustResult{I: i, Outcome: outcome, Alloc: m1.TotalAlloc - m0.TotalAlloc, Ms: ms, Detail: detail}
		}(i)
		var res robustResult
		select {
		case res = <-done:
		case <-time.After(robustCaseTimeout):
			res = robustResult{I: i, Outcome: "timeout", Ms: robustCaseTimeout.Milliseconds()}
		}
		b, _ := json.Marshal(res)
		out.Write(append(b, '\n'))
		if res.Outcome == "timeout" {
			return 3
		}
	}
	return 0
}

// runIsolated executes the cases in child processes and returns one result per case.
func runIsolated(cases []robustCase, dir string) ([]robustResult, error) {
	casesFile := dir + "/robust-cases.json"
	resFile := dir + "/robust-results.ndjson"
	b, _ := json.Marshal(cases)
	if err := os.WriteFile(casesFile, b, 0o644); err != nil {
		return nil, err
	}
	os.Remove(resFile)
	results := make([]robustResult, 0, len(cases))
	self, _ := os.Executable()
	next := 0
	deaths := 0
	for next < len(cases) {
		if deaths >= maxChildDeaths {
			// enough evidence: every further time-out costs 20 s; the remaining cases are reported as not run
			for i := next; i < len(cases); i++ {
				results = append(results, robustResult{I: i, Outcome: "notrun"})
			}
			return results, nil
		}
		cmd := exec.Command(self, "-child", "robust", casesFile, resFile, fmt.Sprint(next))
		var stderr bytes.Buffer
		cmd.Stderr = &stderr
		cmd.Env = append(os.Environ(), "GOTRACEBACK=single")
		err := cmd.Run()
		// read what the child managed to report
		results = results[:0]
		if f, e := os.Open(resFile); e == nil {
			sc := bufio.NewScanner(f)
			sc.Buffer(make([]byte, 1<<20), 1<<24)
			for sc.Scan() {
				var r robustResult
				if json.Unmarshal(sc.Bytes(), &r) == nil {
					results = append(results, r)
				}
			}
			f.Close()
		}
		next = len(results)
		if err != nil {
			deaths++
		}
		if err != nil && next < len(cases) {
			last := len(results) - 1
			if last >= 0 && results[last].Outcome == "timeout" {
				continue // the child stopped itself after a timeout; carry on with the next case
			}
			// the child died while running case `next`
			tail := stderr.String()
			if len(tail) > 400 {
				tail = tail[:400]
			}
			r := robustResult{I: next, Outcome: "fatal", Detail: strings.ReplaceAll(tail, "\n", " | ")}
			rb, _ := json.Marshal(r)
			f, _ := os.OpenFile(resFile, os.O_APPEND|os.O_WRONLY, 0o644)
			f.Write(append(rb, '\n'))
			f.Close()
			results = append(results, r)
			next++
		}
	}
	os.Remove(casesFile)
	os.Remove(resFile)
	return results, nil
}

// ---------------------------------------------------------------------------
// case construction

func loadTLCcases(path string) ([]map[string]any, error) {
	f, err := os.Open(path)
	if err != nil {
		return nil, err
	}
	defer f.Close()
	var out []map[string]any
	sc := bufio.NewScanner(f)
	sc.Buffer(make([]byte, 1<<20), 1<<26)
	for sc.Scan() {
		var m map[string]any
		if err := json.Unmarshal(sc.Bytes(), &m); err != nil {
			return nil, err
		}
		out = append(out, m)
	}
	return out, sc.Err()
}

var replSet = [][]byte{
	{1}, {0}, {2}, {4}, {128, 1}, {254, 255, 255, 255, 15}, {128, 128, 128, 128, 16}, {128, 128, 128, 128, 128, 64},
	{128, 128, 128, 128, 128, 128, 128, 128, 128, 1}, {254, 255, 255, 255, 255, 255, 255, 255, 255, 1},
	{255, 255, 255, 255, 255, 255, 255, 255, 255, 1}, {255, 255, 255, 255, 255, 255, 255, 255, 127},
	{128, 128, 128, 128, 128, 128, 128, 128, 128, 128, 1}, {128}, {},
}
var replNames = []string{"-1", "0", "1", "2", "64", "2^31-1", "2^31", "2^40", "2^62", "2^63-1", "-2^63", "-2^62", "overflow11", "truncated", "drop"}

func spliceVarint(b []byte, at int, repl []byte) []byte {
	// the varint starting at `at` is replaced by repl
	end := at
	for end < len(b) && b[end] >= 0x80 {
		end++
	}
	end++
	if end > len(b) {
		end = len(b)
	}
	out := append([]byte{}, b[:at]...)
	out = append(out, repl...)
	return append(out, b[end:]...)
}

func driveC06(c *driverCtx) error {
	var cases []robustCase
	// file inputs are read twice, each time through ONE kind of reader (allocation is measured per case):
	// bytes.Reader and one of the others in rotation
	nfile := 0
	add := func(rc robustCase) {
		if rc.Entry == "readfile" {
			nfile++
			rc.Kind = "bytes"
			cases = append(cases, rc)
			rc.Kind = []string{"buffer", "bufio", "strings", "eagereof"}[nfile%4]
			rc.Key += "|" + rc.Kind
		}
		cases = append(cases, rc)
	}

	// (1) TLC-generated single-field mutations of valid encodings -> Read, Skip, ReadFile
	if c.cases != "" {
		tl, err := loadTLCcases(c.cases)
		if err != nil {
			return err
		}
		for i, m := range tl {
			s := wrapRecord(node(m["s"].(map[string]any)))
			sj := schemaJSONOf(s)
			b := nodeBytes(m, "bytes")
			key := fmt.Sprintf("C06|mut|%s|%s|%s", nodeStr(node(m["s"].(map[string]any)), "k"), m["role"], m["repl"])
			if hasZeroSizeItems(s) {
				// arrays of zero-byte items: the declared count is not bounded by the input (known finding);
				// kept apart under their own key and thinned out (each can run into the watchdog)
				if m["role"] != "count" || i%7 != 0 {
					continue
				}
				key = fmt.Sprintf("C06|zero-byte-items|mut|%s", m["repl"])
			}
			add(robustCase{Entry: "read", Schema: sj, Var: i, Bytes: b, Key: key + "|read"})
			if i%3 == 0 {
				add(robustCase{Entry: "skip", Schema: sj, Var: 0, Bytes: b, Key: key + "|skip"})
			}
			if i%4 == 0 {
				codec := codecs3[i%3]
				file := buildContainer([]byte(sj), codec, true, []byte("0123456789abcdef"), [][2]any{{1 + i%2, b}})
				add(robustCase{Entry: "readfile", Var: i, Bytes: file, Key: key + "|file-" + codec})
			}
		}
		c.extra["tlc_mutants"] = len(tl)
	}

	// (2) container framing: every varint of the header and of each block replaced
	files := readerFiles(c, false)
	for fi, rf := range files {
		if rf.name == "zero-width-records" {
			// a block of records that take no bytes may declare any count: the mechanism of the listed known finding
			// (zero-byte items), kept to its dedicated witnesses
			continue
		}
		f, err := splitContainer(rf.bytes)
		if err != nil {
			continue
		}
		sites := map[string]int{"meta-count": 4}
		// metadata key/value lengths
		pos := 5
		for i := 0; i < 4; i++ {
			sites[fmt.Sprintf("meta-len%d", i)] = pos
			l, p, err := readVar(rf.bytes, pos)
			if err != nil {
				break
			}
			pos = p + int(l)
		}
		sites["meta-end"] = pos
		for bi, b := range f.Blocks {
			if bi > 1 {
				break
			}
			sites[fmt.Sprintf("block%d-count", bi)] = b.Start
			sites[fmt.Sprintf("block%d-len", bi)] = b.LenAt
		}
		for name, at := range sites {
			for ri, repl := range replSet {
				if !c.thorough() && (fi+ri)%2 == 1 && len(files) > 6 {
					continue
				}
				add(robustCase{Entry: "readfile", Var: fi, Bytes: spliceVarint(rf.bytes, at, repl), Key: fmt.Sprintf("C06|frame|%s|%s|%s", rf.codec, name, replNames[ri])})
			}
		}
		// truncations and random flips
		nflip := c.pick(40, 600)
		for k := 0; k < nflip; k++ {
			d := append([]byte{}, rf.bytes...)
			switch k % 3 {
			case 0:
				d = d[:c.rng.Intn(len(d)+1)]
			case 1:
				d[c.rng.Intn(len(d))] ^= 1 << uint(c.rng.Intn(8))
			default:
				for j := 0; j < 1+c.rng.Intn(4); j++ {
					d[c.rng.Intn(len(d))] = byte(c.rng.Intn(256))
				}
			}
			add(robustCase{Entry: "readfile", Var: k, Bytes: d, Key: fmt.Sprintf("C06|filefuzz|%s|%d", rf.codec, k%3)})
		}
		// a snappy block shorter than its checksum, a header without codec
		if rf.codec == "snappy" && fi%5 == 0 {
			for n := 0; n < 4; n++ {
				file := buildRawContainer(f.Meta["avro.schema"], "snappy", true, [][2]any{{1, make([]byte, n)}})
				add(robustCase{Entry: "readfile", Bytes: file, Key: fmt.Sprintf("C06|snappy-short|%d", n)})
			}
		}
	}
	sj := `{"type":"record","name":"R","fields":[{"name":"a","type":"long"}]}`
	add(robustCase{Entry: "readfile", Bytes: buildContainer([]byte(sj), "null", false, []byte("0123456789abcdef"), [][2]any{{1, []byte{2}}}), Key: "C06|nocodec"})
	add(robustCase{Entry: "readfile", Bytes: buildRawContainer([]byte(sj), "deflate", true, [][2]any{{1, []byte{0xff, 0xff, 0xff}}}), Key: "C06|deflate-garbage"})

	// (3) random bytes into assorted codecs
	shapes := []string{
		`{"type":"record","name":"R","fields":[{"name":"a","type":"long"},{"name":"b","type":"string"},{"name":"c","type":["null","bytes"]},{"name":"d","type":{"type":"array","items":"string"}},{"name":"e","type":{"type":"map","values":"long"}}]}`,
		`{"type":"record","name":"R","fields":[{"name":"a","type":{"type":"array","items":{"type":"array","items":"long"}}},{"name":"f","type":{"type":"fixed","name":"F","size":3}}]}`,
		`{"type":"record","name":"R","fields":[{"name":"a","type":{"type":"map","values":{"type":"map","values":"string"}}},{"name":"u","type":["long","string","null"]}]}`,
		`{"type":"record","name":"R","fields":[{"name":"a","type":{"type":"array","items":"null"}},{"name":"b","type":"boolean"},{"name":"c","type":"double"},{"name":"d","type":"float"}]}`,
		`{"type":"record","name":"R","fields":[{"name":"a","type":{"type":"array","items":{"type":"record","name":"E","fields":[]}}}]}`,
	}
	alphabet := []byte{0x00, 0x01, 0x02, 0x03, 0x7f, 0x80, 0x81, 0xfe, 0xff}
	nrand := c.pick(1500, 40000)
	for i := 0; i < nrand; i++ {
		n := c.rng.Intn(14)
		b := make([]byte, n)
		for j := range b {
			if c.rng.Intn(5) == 0 {
				b[j] = byte(c.rng.Intn(256))
			} else {
				b[j] = alphabet[c.rng.Intn(len(alphabet))]
			}
		}
		entry := "read"
		if i%4 == 3 {
			entry = "skip"
		}
		si := i % 3 // shapes 3 and 4 hold arrays of zero-byte items: dedicated witnesses below
		add(robustCase{Entry: entry, Schema: shapes[si], Var: i, Bytes: b, Key: fmt.Sprintf("C06|random|shape%d|%s|len%d", si, entry, n)})
	}
	// (3b) valid encodings of deep seeded types (the harness's random legal writer) with random damage:
	// byte substitutions, bit flips, truncations, insertions
	{
		feat := featuresFromKnown("C01")
		feat.MaxDepth = 4
		ntypes := c.pick(60, 1500)
		for i := 0; i < ntypes; i++ {
			t, _ := genType(c.rng, feat)
			zero := reflect.New(t).Elem().Interface()
			sch, err := avro.SchemaForType(zero)
			if err != nil {
				continue
			}
			sjb, err := sch.Marshal()
			if err != nil {
				continue
			}
			sn, err := schemaNodeFromJSON(sjb)
			if err != nil || hasZeroSizeItems(sn) {
				continue
			}
			encSmallInts = true
			good := randomEncoding(c.rng, sn, 0)
			encSmallInts = false
			for k := 0; k < c.pick(6, 20); k++ {
				b := append([]byte{}, good...)
				if len(b) == 0 {
					break
				}
				switch k % 4 {
				case 0:
					b[c.rng.Intn(len(b))] = alphabet[c.rng.Intn(len(alphabet))]
				case 1:
					b[c.rng.Intn(len(b))] ^= 1 << uint(c.rng.Intn(8))
				case 2:
					b = b[:c.rng.Intn(len(b))]
				default:
					at := c.rng.Intn(len(b))
					b = append(b[:at], append(replSet[c.rng.Intn(len(replSet))], b[at:]...)...)
				}
				entry := "read"
				if k%5 == 4 {
					entry = "skip"
				}
				add(robustCase{Entry: entry, Schema: string(sjb), Var: 0, Bytes: b, Key: fmt.Sprintf("C06|deep|damage%d|%s", k%4, entry)})
			}
		}
	}
	// huge declared counts of zero-byte items (arrays of null / of empty records): known finding, dedicated witnesses
	zcounts := [][]byte{{254, 255, 255, 255, 15}}
	if c.thorough() {
		zcounts = append(zcounts, []byte{128, 128, 128, 128, 128, 64})
	}
	for _, cnt := range zcounts {
		tail := []byte{0, 1, 0, 0, 0, 0, 0, 0, 0, 0, 0, 0, 0, 0}
		add(robustCase{Entry: "read", Schema: shapes[3], Bytes: append(append([]byte{}, cnt...), tail...), Key: "C06|zero-byte-items|array-of-null"})
		if c.thorough() {
			add(robustCase{Entry: "skip", Schema: shapes[3], Bytes: append(append([]byte{}, cnt...), tail...), Key: "C06|zero-byte-items|array-of-null-skip"})
		}
		add(robustCase{Entry: "read", Schema: shapes[4], Bytes: append(append([]byte{}, cnt...), 0), Key: "C06|zero-byte-items|array-of-empty-record"})
	}

	// (3b) sized blocks (negative count + byte size) whose count AND size were altered together, for items of fixed
	// width (a reader that cross-checks size = count * width must not be fooled by products that wrap)
	{
		big := func(v int64) []byte { return appendVar(nil, v) }
		counts := []int64{-(1 << 61), -(1<<61 + 2), -(1 << 62), math.MinInt64, -6148914691236517207, -3074457345618258603, -1, -3, -(1 << 60), -(1<<61 + 1)}
		sizes := []int64{0, 8, 16, 5, 24, 4, 1, 3, 1 << 62, math.MaxInt64}
		for si, item := range []string{`"double"`, `"float"`, `"boolean"`, `{"type":"fixed","name":"F3","size":3}`, `"long"`, `"string"`} {
			sj := `{"type":"record","name":"Top","fields":[{"name":"v","type":{"type":"array","items":` + item + `}},{"name":"z","type":"long"}]}`
			for ci, cnt := range counts {
				for zi, sz := range sizes {
					if !c.thorough() && (ci+zi+si)%3 != 0 && !(zi < 4 && ci < 5) {
						continue
					}
					var b []byte
					b = append(b, big(cnt)...)
					b = append(b, big(sz)...)
					b = append(b, 1, 2, 3, 4, 5, 6, 7, 8, 9, 10, 11, 12, 13, 14, 15, 16, 0, 2)
					entry := "read"
					if (ci+zi)%4 == 3 {
						entry = "skip"
					}
					add(robustCase{Entry: entry, Schema: sj, Var: (ci + zi) % 6, Bytes: b, Key: "C06|sized-block|count-and-size|" + entry})
				}
			}
		}
	}

	// (3c) a small valid record decoded after a record with more than 2^21 allocations went through the same pool
	{
		n := 1<<21 + 5000
		big := make([]byte, 0, 2*n+64)
		big = appendVar(big, int64(n))
		for i := 0; i < n; i++ {
			big = append(big, 2, byte(i%60)*2)
		}
		big = append(big, 0, 0)
		add(robustCase{Entry: "history", Bytes: big, Key: "C06|history|after-huge-record"})
	}

	// (4) schema text: valid documents, every truncation, single-character damage, wrong token kinds
	docs := []string{
		shapes[0], shapes[2],
		`{"type":"record","name":"R","namespace":"a.b","fields":[{"name":"t","type":{"type":"long","logicalType":"timestamp-micros"}},{"name":"e","type":{"type":"enum","name":"E","symbols":["A","B"]}}]}`,
		`["null",{"type":"fixed","name":"F","size":4}]`,
	}
	for di, d := range docs {
		for cut := 0; cut <= len(d); cut++ {
			if !c.thorough() && cut%3 != di%3 {
				continue
			}
			add(robustCase{Entry: "schema", Bytes: []byte(d[:cut]), Key: fmt.Sprintf("C06|schema|doc%d|trunc", di)})
		}
		for k := 0; k < c.pick(60, 800); k++ {
			b := []byte(d)
			b[c.rng.Intn(len(b))] = []byte(`{}[]",:0a\ `)[c.rng.Intn(11)]
			add(robustCase{Entry: "schema", Bytes: b, Key: fmt.Sprintf("C06|schema|doc%d|damage", di)})
		}
	}
	for _, d := range []string{`"array"`, `"map"`, `"fixed"`, `"record"`, `"enum"`, `"union"`, `{"type":"array"}`, `{"type":"map"}`, `{"type":"fixed"}`, `{"type":"record"}`,
		`{"type":5}`, `{"type":null}`, `{"type":["null"]}`, `[]`, `[[]]`, `{"type":"fixed","size":-1,"name":"F"}`, `{"type":"fixed","size":1e30,"name":"F"}`, `{"type":"fixed","size":"4","name":"F"}`,
		`{"type":"record","fields":5}`, `{"type":"record","fields":[5]}`, `{"type":"record","fields":[{"name":5,"type":"long"}]}`, `{"type":"array","items":{"type":"array"}}`,
		`{"type":"record","name":"R","fields":[{"name":"a","type":"array"}]}`, `{"type":"record","name":"R","fields":[{"name":"a","type":"R"}]}`, `5`, `null`, `true`, `""`, ``, ` `,
		// named-type references (the library knows none: an error today; if they are ever resolved, a type that refers to
		// itself by short name, by full name, through a union, an array or a map must not send the builder into a loop)
		`{"type":"record","name":"Node","namespace":"com.example","fields":[{"name":"v","type":"long"},{"name":"next","type":["null","Node"]}]}`,
		`{"type":"record","name":"Node","namespace":"com.example","fields":[{"name":"next","type":["null","com.example.Node"]}]}`,
		`{"type":"record","name":"Node","fields":[{"name":"kids","type":{"type":"array","items":"Node"}}]}`,
		`{"type":"record","name":"com.example.Node","fields":[{"name":"m","type":{"type":"map","values":"Node"}}]}`,
		`{"type":"record","name":"A","namespace":"n","fields":[{"name":"b","type":{"type":"record","name":"B","fields":[{"name":"a","type":["null","A"]}]}}]}`,
		`{"type":"record","name":"R","fields":[{"name":"f","type":{"type":"fixed","name":"F","size":2}},{"name":"g","type":"F"},{"name":"e","type":{"type":"enum","name":"E","symbols":["X"]}},{"name":"h","type":"E"}]}`,
		strings.Repeat("[", 5000), strings.Repeat(`{"type":"array","items":`, 3000)} {
		add(robustCase{Entry: "schema", Bytes: []byte(d), Key: "C06|schema|handwritten"})
		add(robustCase{Entry: "codec", Schema: `{"type":"record","name":"Top","fields":[{"name":"v","type":` + d + `}]}`, Key: "C06|codec|handwritten"})
	}

	// (5) timestamp text
	good := []string{"2006-01-02T13:37:42Z", "2006-01-02T13:37:42.326+08:00", "2006-01-02T13:37:42,326876123Z", "2021-09-30", "0000-01-01T00:00:00.5-23:59"}
	for _, g := range good {
		add(robustCase{Entry: "time", Bytes: []byte(g), Key: "C06|time|valid"})
		for cut := 0; cut < len(g); cut++ {
			add(robustCase{Entry: "time", Bytes: []byte(g[:cut]), Key: "C06|time|trunc"})
			add(robustCase{Entry: "time", Bytes: []byte(g[:cut] + g[cut+1:]), Key: "C06|time|drop"})
			for _, ch := range []byte(".,Z+-:T9a \xff") {
				b := []byte(g)
				b[cut] = ch
				add(robustCase{Entry: "time", Bytes: b, Key: "C06|time|subst"})
			}
		}
		for _, suf := range []string{".", ",", ".Z", "..", ".1234567890123456789012345Z", "+", "-", "+0", "+08:", "Z.", ".+08:00"} {
			add(robustCase{Entry: "time", Bytes: []byte(g + suf), Key: "C06|time|suffix"})
			if len(g) >= 19 {
				add(robustCase{Entry: "time", Bytes: []byte(g[:19] + suf), Key: "C06|time|suffix19"})
			}
		}
	}

	// zone offsets around every boundary a table-driven parser could have (hours 12..15, 23, 24; minutes in quarter
	// steps and beyond 59)
	for _, sign := range []string{"+", "-"} {
		for _, hh := range []int{0, 1, 11, 12, 13, 14, 15, 23, 24, 29, 99} {
			for _, mm := range []int{0, 15, 30, 45, 59, 60, 75, 90, 99} {
				add(robustCase{Entry: "time", Bytes: []byte(fmt.Sprintf("2024-03-01T12:00:00%s%02d:%02d", sign, hh, mm)), Key: "C06|time|offsets"})
			}
		}
	}

	results, err := runIsolated(cases, c.rec.dir)
	if err != nil {
		return err
	}
	if len(results) != len(cases) {
		return fmt.Errorf("isolated run returned %d results for %d cases", len(results), len(cases))
	}
	notrun := 0
	defer func() { c.extra["cases_not_run_after_repeated_child_deaths"] = notrun }()
	for i, rc := range cases {
		r := results[i]
		if r.Outcome == "notrun" {
			notrun++
			continue
		}
		if r.Outcome == "harnessbug" {
			return fmt.Errorf("panic inside harness code on case %s: %s", rc.Key, r.Detail)
		}
		c.rec.NewCase()
		c.rec.Emit(rc.Key, map[string]any{"op": "feed", "entry": rc.Entry, "len": len(rc.Bytes) + len(rc.Schema), "outcome": r.Outcome,
			"allocKiB": int(r.Alloc >> 10), "ms": r.Ms, "detail": r.Detail, "input": byteList(clip(rc.Bytes, 64)), "schema": clipS(rc.Schema, 200)})
	}
	return nil
}

func clip(b []byte, n int) []byte {
	if len(b) > n {
		return b[:n]
	}
	return b
}

func clipS(s string, n int) string {
	if len(s) > n {
		return s[:n]
	}
	return s
}

// buildRawContainer is buildContainer without compressing the payloads (they are taken as the on-disk bytes).
func buildRawContainer(schemaJSON []byte, codec string, withCodecEntry bool, blocks [][2]any) []byte {
	hdr := buildContainer(schemaJSON, codec, withCodecEntry, []byte("0123456789abcdef"), nil)
	b := hdr
	for _, blk := range blocks {
		count, raw := blk[0].(int), blk[1].([]byte)
		b = appendVar(b, int64(count))
		b = appendVar(b, int64(len(raw)))
		b = append(b, raw...)
		b = append(b, []byte("0123456789abcdef")...)
	}
	return b
}

func appendVar(b []byte, v int64) []byte {
	u := uint64(v<<1) ^ uint64(v>>63)
	for u >= 0x80 {
		b = append(b, byte(u)|0x80)
		u >>= 7
	}
	return append(b, byte(u))
}
