package main

// C13 / C19: codecs built from caller-supplied schemas. Records are assembled
// from a table of (Go field type, admissible caller schemas) pairs; values stay
// inside the schema type's range. Judged by spec/Trace_Codec.tla (cs_* events).

import (
	"fmt"
	"math"
	"math/rand"
	"reflect"
	"strings"
	"time"
	"unsafe"

	"github.com/philpearl/avro"
	"github.com/unravelin/null/v5"
)

func init() {
	drivers["C13"] = func(c *driverCtx) error { return driveCallerSchemas(c, "C13") }
	drivers["C19"] = driveC19
}

type fieldSpec struct {
	class   string
	typ     reflect.Type
	schemas []string
	// gen fills v for the schema with index si
	gen func(rng *rand.Rand, v reflect.Value, schema string)
}

func nullable(s string) []string {
	return []string{s, `["null",` + s + `]`, `[` + s + `,"null"]`}
}

func intGen(bitsFor func(schema string) int) func(*rand.Rand, reflect.Value, string) {
	return func(rng *rand.Rand, v reflect.Value, schema string) {
		bits := bitsFor(schema)
		x := genInt(rng, 64)
		switch {
		case bits <= 16:
			x = int64(int16(x))
		case bits <= 32:
			x = int64(int32(x))
		}
		if v.Kind() == reflect.Ptr {
			if rng.Intn(3) == 0 {
				return
			}
			p := reflect.New(v.Type().Elem())
			p.Elem().SetInt(x)
			v.Set(p)
			return
		}
		if v.Type() == nullIntT {
			if rng.Intn(3) > 0 {
				v.Set(reflect.ValueOf(null.IntFrom(x)))
			}
			return
		}
		v.SetInt(x)
	}
}

func minBits(goBits int) func(string) int {
	return func(schema string) int {
		if strings.Contains(schema, `"int"`) && goBits > 32 {
			return 32
		}
		return goBits
	}
}

const (
	sMicros = `{"type":"long","logicalType":"timestamp-micros"}`
	sMillis = `{"type":"long","logicalType":"timestamp-millis"}`
	sDate   = `{"type":"int","logicalType":"date"}`
)

// genTimeFor returns a UTC time that the logical type of the schema can carry exactly.
func genTimeFor(rng *rand.Rand, schema string, exact bool) time.Time {
	switch {
	case strings.Contains(schema, "date"):
		// the whole range of years 0001..9999 (days -719162 .. 2932896), not only what fits a time.Duration
		day := int64(rng.Intn(2932896+719162+1) - 719162)
		switch rng.Intn(8) {
		case 0:
			day = int64(rng.Intn(5) - 2)
		case 1:
			day = -1
		case 2:
			day = []int64{-719162, 2932896, 106751, 106752, -106751, -106752, 2932895}[rng.Intn(7)]
		case 3:
			day = int64(rng.Intn(200000) - 100000)
		}
		t := time.Unix(day*86400, 0).UTC()
		if !exact {
			t = t.Add(time.Duration(rng.Int63n(86400e9)))
		}
		return t
	case strings.Contains(schema, "string"):
		return genTime(rng)
	}
	// timestamp-millis / -micros cover every year a time.Time is normally used for, not only 1678..2261
	if (strings.Contains(schema, "micros") || strings.Contains(schema, "millis")) && rng.Intn(3) == 0 {
		unitNs := 1000
		if strings.Contains(schema, "millis") {
			unitNs = 1000000
		}
		nsec := rng.Intn(1000000000)
		if exact {
			nsec = nsec / unitNs * unitNs
		}
		year := []int{1, 1600, 1677, 2262, 2300, 9999, 1 + rng.Intn(9999)}[rng.Intn(7)]
		return time.Date(year, time.Month(1+rng.Intn(12)), 1+rng.Intn(28), rng.Intn(24), rng.Intn(60), rng.Intn(60), nsec, time.UTC)
	}
	// long: instants representable in int64 nanoseconds (1678..2261), boundary-minded
	var ns int64
	switch rng.Intn(8) {
	case 0:
		ns = 0
	case 1:
		ns = -1
	case 2:
		ns = int64(rng.Intn(2000)) - 1000
	case 3:
		ns = math.MaxInt64 - int64(rng.Intn(1000))
	case 4:
		ns = math.MinInt64 + int64(rng.Intn(1000))
	default:
		ns = int64(rng.Uint64())
	}
	unit := int64(1)
	if strings.Contains(schema, "micros") {
		unit = 1000
	} else if strings.Contains(schema, "millis") {
		unit = 1e6
	}
	if exact {
		ns = ns / unit * unit
	} else if ns < math.MinInt64+unit {
		// the floor of this instant in the unit would denote an instant below the int64-nanosecond range,
		// which is outside the property's domain
		ns += unit
	}
	return time.Unix(0, ns).UTC()
}

func timeGen(exact bool) func(*rand.Rand, reflect.Value, string) {
	return func(rng *rand.Rand, v reflect.Value, schema string) {
		t := genTimeFor(rng, schema, exact)
		switch v.Type() {
		case timeT:
			if rng.Intn(12) == 0 && strings.Contains(schema, "null") {
				return // zero time: written as null in a nullable position
			}
			if t.IsZero() && !strings.Contains(schema, "null") {
				// the zero time is written as null by the time codecs; in a non-nullable position use the next
				// representable instant of the logical type instead (a whole day for dates)
				if strings.Contains(schema, "date") {
					t = t.Add(24 * time.Hour)
				} else {
					t = t.Add(time.Second)
				}
			}
			v.Set(reflect.ValueOf(t))
		case nullTimeT:
			if rng.Intn(3) > 0 {
				v.Set(reflect.ValueOf(null.TimeFrom(t)))
			}
		default: // *time.Time
			if rng.Intn(10) == 0 && (strings.Contains(schema, "string") || strings.Contains(schema, "date")) {
				z := time.Time{} // a non-nil pointer to the zero time is a value, not null
				v.Set(reflect.ValueOf(&z))
			} else if rng.Intn(3) > 0 {
				v.Set(reflect.ValueOf(&t))
			}
		}
	}
}

func plainGen(rng *rand.Rand, v reflect.Value, schema string) { genValue(rng, v, 2) }

// under a "float" schema a float64-backed wrapper can only carry float32 values exactly
func nullFloatGen(rng *rand.Rand, v reflect.Value, schema string) {
	if rng.Intn(3) == 0 {
		return
	}
	f := genFloat64(rng)
	if strings.Contains(schema, `"float"`) {
		f = float64(genFloat32(rng))
	}
	v.Set(reflect.ValueOf(null.FloatFrom(f)))
}

func fieldSpecs(exactTimes bool) []fieldSpec {
	i64, i32, i16, i := reflect.TypeOf(int64(0)), reflect.TypeOf(int32(0)), reflect.TypeOf(int16(0)), reflect.TypeOf(int(0))
	return []fieldSpec{
		{"int64", i64, append(append(nullable(`"long"`), nullable(`"int"`)...), `{"type":"long"}`, `["null",{"type":"int"}]`), intGen(minBits(64))},
		{"int", i, append(nullable(`"long"`), `"int"`), intGen(minBits(64))},
		{"int32", i32, append(nullable(`"int"`), nullable(`"long"`)...), intGen(minBits(32))},
		{"int16", i16, append(nullable(`"int"`), `"long"`), intGen(minBits(16))},
		{"ptr-int64", reflect.PointerTo(i64), []string{`["null","long"]`, `["long","null"]`, `["int","null"]`}, intGen(minBits(64))},
		{"ptr-int32", reflect.PointerTo(i32), []string{`["null","int"]`, `["int","null"]`}, intGen(minBits(32))},
		{"float32", reflect.TypeOf(float32(0)), append(nullable(`"float"`), nullable(`"double"`)...), plainGen},
		{"float64", reflect.TypeOf(float64(0)), nullable(`"double"`), plainGen},
		{"string", reflect.TypeOf(""), append(nullable(`"string"`), `{"type":"string"}`, `[{"type":"string"},"null"]`), plainGen},
		{"bytes", reflect.TypeOf([]byte(nil)), nullable(`"bytes"`), plainGen},
		{"bool", reflect.TypeOf(false), nullable(`"boolean"`), plainGen},
		{"fixed4", reflect.TypeOf([4]byte{}), []string{`{"type":"fixed","name":"F4","size":4}`, `["null",{"type":"fixed","name":"F4b","size":4}]`}, plainGen},
		{"fixed0", reflect.TypeOf([0]byte{}), []string{`{"type":"fixed","name":"F0","size":0}`}, plainGen},
		{"ptr-string", reflect.PointerTo(reflect.TypeOf("")), []string{`["null","string"]`, `["string","null"]`}, plainGen},
		{"time", timeT, []string{`"string"`, `["null","string"]`, `["string","null"]`, sMicros, sMillis, `"long"`, sDate,
			`["null",` + sMicros + `]`, `[` + sMillis + `,"null"]`, `["null","long"]`, `[` + sDate + `,"null"]`,
			// a primitive may also be written in object form, with or without attributes the library does not know
			`{"type":"long"}`, `["null",{"type":"long"}]`, `{"type":"long","doc":"nanoseconds"}`, `{"type":"string"}`}, timeGen(exactTimes)},
		{"ptr-time", reflect.PointerTo(timeT), []string{`["null","string"]`, `["null",` + sMicros + `]`, `[` + sDate + `,"null"]`, `["long","null"]`}, timeGen(exactTimes)},
		{"null.Int", nullIntT, []string{`["null","long"]`, `["long","null"]`, `["null","int"]`, `["int","null"]`}, intGen(minBits(64))},
		{"null.Float", nullFloatT, []string{`["null","double"]`, `["double","null"]`, `["null","float"]`, `["float","null"]`}, nullFloatGen},
		{"null.String", nullStringT, []string{`["null","string"]`, `["string","null"]`}, plainGen},
		{"null.Bool", nullBoolT, []string{`["null","boolean"]`, `["boolean","null"]`}, plainGen},
		{"null.Time", nullTimeT, []string{`["null","string"]`, `["string","null"]`}, timeGen(true)},
	}
}

type csField struct {
	spec   fieldSpec
	schema string
	wrap   string // "", "array", "map", "record"
	omit   bool   // the Go field is tagged omitempty (only used with nullable schemas and no wrapper)
}

// csRecord assembles a struct type and its caller schema from fields.
func csRecord(fields []csField, name string) (reflect.Type, string) {
	sfs := make([]reflect.StructField, len(fields))
	parts := make([]string, len(fields))
	for i, f := range fields {
		t, s := f.spec.typ, f.schema
		switch f.wrap {
		case "array":
			t, s = reflect.SliceOf(t), `{"type":"array","items":`+s+`}`
		case "map":
			t, s = reflect.MapOf(reflect.TypeOf(""), t), `{"type":"map","values":`+s+`}`
		case "record":
			t = reflect.StructOf([]reflect.StructField{{Name: "In", Type: t, Tag: `json:"in"`}, {Name: "Tail", Type: reflect.TypeOf(int64(0)), Tag: `json:"tail"`}})
			s = fmt.Sprintf(`{"type":"record","name":"%s_n%d","fields":[{"name":"in","type":%s},{"name":"tail","type":"long"}]}`, name, i, s)
		}
		s = strings.ReplaceAll(s, `"name":"F4`, fmt.Sprintf(`"name":"F4_%s_%d`, name, i))
		tagOpt := ""
		if f.omit {
			tagOpt = ",omitempty" // for wrap "array" / "map" this sits on the collection field
		}
		sfs[i] = reflect.StructField{Name: fmt.Sprintf("F%d", i), Type: t, Tag: reflect.StructTag(fmt.Sprintf(`json:"f%d%s"`, i, tagOpt))}
		parts[i] = fmt.Sprintf(`{"name":"f%d","type":%s}`, i, s)
	}
	return reflect.StructOf(sfs), fmt.Sprintf(`{"type":"record","name":"%s","fields":[%s]}`, name, strings.Join(parts, ","))
}

// csLongArrays: csValue makes every array long enough for any bulk path
var csLongArrays bool

func csValue(rng *rand.Rand, t reflect.Type, fields []csField) reflect.Value {
	v := reflect.New(t).Elem()
	for i, f := range fields {
		fv := v.Field(i)
		switch f.wrap {
		case "array":
			n := rng.Intn(4)
			if rng.Intn(4) == 0 || csLongArrays {
				n = []int{15, 16, 17, 40, 64}[rng.Intn(5)] // long enough for any bulk path
			}
			s := reflect.MakeSlice(fv.Type(), n, n)
			for k := 0; k < n; k++ {
				if f.spec.class != "time" && rng.Intn(5) == 0 {
					continue // a zero element is an element (never null because the collection field says omitempty)
				}
				f.spec.gen(rng, s.Index(k), f.schema)
			}
			fv.Set(s)
		case "map":
			m := reflect.MakeMap(fv.Type())
			for k := 0; k < rng.Intn(3); k++ {
				e := reflect.New(f.spec.typ).Elem()
				if f.spec.class == "time" || rng.Intn(5) != 0 {
					f.spec.gen(rng, e, f.schema)
				}
				m.SetMapIndex(reflect.ValueOf(fmt.Sprintf("k%d", k)), e)
			}
			fv.Set(m)
		case "record":
			f.spec.gen(rng, fv.Field(0), f.schema)
			fv.Field(1).SetInt(genInt(rng, 64))
		default:
			// (the zero time.Time, year 1, is outside the range of the long-based time schemas: not forced for plain times)
			if (f.omit && rng.Intn(3) == 0) || (f.spec.class != "time" && rng.Intn(6) == 0) {
				continue // the zero value: under omitempty written as null, otherwise as a value like any other (all-zero fixed, 0, "", false)
			}
			f.spec.gen(rng, fv, f.schema)
		}
	}
	return v
}

// emitCS builds the codec for (schema, type), writes the value, reads the bytes back.
func emitCS(c *driverCtx, prop, key, schemaJSON string, t reflect.Type, v reflect.Value, exact bool) {
	sn, err := schemaNodeFromJSON([]byte(schemaJSON))
	if err != nil {
		panic("harness: bad caller schema: " + err.Error() + ": " + schemaJSON)
	}
	ev := map[string]any{"op": "cs_roundtrip", "mode": prop, "schema": sn, "schemaText": schemaJSON, "value": projectValue(v), "exact": exact,
		"built": false, "builderr": "", "bytes": []int{}, "wpanic": "", "rvalue": projectValue(reflect.New(t).Elem()), "rout": "", "left": 0, "sout": "", "sleft": 0}
	s, err := avro.SchemaFromString(schemaJSON)
	if err != nil {
		ev["builderr"] = "schema: " + err.Error()
		c.rec.NewCase()
		c.rec.Emit(key, ev)
		return
	}
	var codec avro.Codec
	bp := catch(func() { codec, err = s.Codec(reflect.New(t).Interface()) })
	if bp != "" || err != nil {
		ev["builderr"] = bp + errString(err)
		ev["buildpanic"] = bp
		c.rec.NewCase()
		c.rec.Emit(key, ev)
		return
	}
	ev["built"] = true
	in := reflect.New(t)
	in.Elem().Set(v)
	w := avro.NewWriteBuf(nil)
	ev["wpanic"] = catch(func() { codec.Write(w, in.UnsafePointer()) })
	b := append([]byte{}, w.Bytes()...)
	ev["bytes"] = byteList(b)
	out := reflect.New(t)
	r := avro.NewReadBuf(b)
	o, _ := safeCall(func() error { return codec.Read(r, unsafe.Pointer(out.Pointer())) })
	ev["rout"], ev["left"] = o, r.Len()
	ev["rvalue"] = projectValue(out.Elem())
	r.ExtractResourceBank().Close()
	r2 := avro.NewReadBuf(b)
	o2, _ := safeCall(func() error { return codec.Skip(r2) })
	ev["sout"], ev["sleft"] = o2, r2.Len()
	r2.ExtractResourceBank().Close()
	c.rec.NewCase()
	c.rec.Emit(key, ev)
}

func driveCallerSchemas(c *driverCtx, prop string) error {
	specs := fieldSpecs(true)
	n := 0
	// every (field type, schema) pair alone, in an array, a map and a nested record
	for _, sp := range specs {
		for si, sch := range sp.schemas {
			for _, wrap := range []string{"", "array", "map", "record"} {
				if wrap != "" && (si+len(sp.class))%2 == 1 && !c.thorough() {
					continue
				}
				for _, omit := range []bool{false, true} {
					if omit && (wrap == "record" || !strings.HasPrefix(sch, "[")) {
						continue // (on an array or map field omitempty concerns the collection, never its nullable items)
					}
					fields := []csField{{sp, sch, wrap, omit}, {specs[0], `"long"`, "", false}}
					// the same record name (and the same Go type, StructOf is canonical) for every schema of this field type:
					// whatever the library remembers per (type, record name, field names) must not leak between schemas
					t, sj := csRecord(fields, fmt.Sprintf("R_%s_%s%v", strings.NewReplacer("-", "_", ".", "_").Replace(sp.class), wrap, omit))
					n++
					for k := 0; k < c.pick(4, 120); k++ {
						csLongArrays = k == 1 // one value of every pair has its arrays long
						emitCS(c, prop, fmt.Sprintf("%s|%s|%s|%s%s", prop, sp.class, shortSchema(sch), wrap, map[bool]string{true: "omitempty"}[omit]), sj, t, csValue(c.rng, t, fields), true)
						csLongArrays = false
					}
				}
			}
		}
	}
	// random records of several fields
	for i := 0; i < c.pick(150, 30000); i++ {
		nf := 1 + c.rng.Intn(5)
		if i%50 == 7 {
			nf = 65 + c.rng.Intn(70) // more fields than a machine word has bits
		}
		fields := make([]csField, nf)
		for j := range fields {
			sp := specs[c.rng.Intn(len(specs))]
			fields[j] = csField{sp, sp.schemas[c.rng.Intn(len(sp.schemas))], []string{"", "", "", "array", "map", "record"}[c.rng.Intn(6)], false}
			if fields[j].wrap == "" && strings.HasPrefix(fields[j].schema, "[") && c.rng.Intn(3) == 0 {
				fields[j].omit = true
			}
		}
		t, sj := csRecord(fields, fmt.Sprintf("M%d", i))
		emitCS(c, prop, fmt.Sprintf("%s|mixed|%d-fields", prop, nf), sj, t, csValue(c.rng, t, fields), true)
	}
	return nil
}

func shortSchema(s string) string {
	r := strings.NewReplacer(`"`, "", "{type:long,logicalType:timestamp-micros}", "micros", "{type:long,logicalType:timestamp-millis}", "millis", "{type:int,logicalType:date}", "date")
	out := r.Replace(s)
	if len(out) > 40 {
		out = out[:40]
	}
	return out
}

// C19: logical date / timestamp types, both directions.
func driveC19(c *driverCtx) error {
	driveC19Files(c)
	timeSpec := fieldSpecs(false)[14]
	if timeSpec.class != "time" {
		panic("harness: fieldSpecs order changed")
	}
	type T struct {
		T time.Time `json:"t"`
	}
	typ := reflect.TypeOf(T{})
	schemas := []string{sDate, sMillis, sMicros, `"long"`, `{"type":"long"}`, `{"type":"long","doc":"nanoseconds since the epoch"}`}
	for _, sch := range schemas {
		sj := `{"type":"record","name":"T","fields":[{"name":"t","type":` + sch + `}]}`
		s, err := avro.SchemaFromString(sj)
		if err != nil {
			return err
		}
		// the schema takes the trip every file header takes: serialised by the library, parsed again
		if out, err := s.Marshal(); err == nil {
			if s2, err := avro.SchemaFromString(string(out)); err == nil {
				s = s2
			}
		}
		sn, _ := schemaNodeFromJSON([]byte(sj))
		codec, err := s.Codec(&T{})
		if err != nil {
			// no decoder for a schema the library itself serialised: reported as a stored value that could not be read
			c.rec.NewCase()
			c.rec.Emit(fmt.Sprintf("C19|read|%s|no-codec", shortSchema(sch)), map[string]any{
				"op": "cs_read", "schema": sn, "bytes": []int{0}, "rvalue": projectValue(reflect.ValueOf(T{})), "rout": "codec: " + err.Error(), "left": 1})
			continue
		}
		// read direction: stored integers
		var stored []int64
		if sch == sDate {
			for _, d := range []int64{0, 1, -1, 2, -2, 365, -365, 10000, -10000, 573, 18900, math.MaxInt32, math.MinInt32, math.MaxInt32 - 1, math.MinInt32 + 1, 2932896, -719162} {
				stored = append(stored, d)
			}
			stride := int64(c.pick(9000001, 400009))
			for d := int64(math.MinInt32) + int64(c.rng.Intn(int(stride))); d <= math.MaxInt32; d += stride {
				stored = append(stored, d)
			}
			for k := 0; k < c.pick(300, 100000); k++ {
				stored = append(stored, int64(int32(c.rng.Uint32())))
			}
		} else {
			unit := int64(1)
			if sch == sMicros {
				unit = 1000
			} else if sch == sMillis {
				unit = 1e6
			}
			// every stored long is a legal timestamp of the logical type: the range of the type, not of int64 nanoseconds.
			// (Go's time.Time covers all of it; year 9999 in milliseconds is 253402300799999.) The plain long is
			// nanoseconds by the library's convention, so there the range is the int64 itself.
			lim := int64(math.MaxInt64)
			if sch == sMillis {
				lim = 9e16 // (the judge's day number must fit TLC's 32-bit integers: +-2.9 million years)
			}
			nsLim := int64(math.MaxInt64) / unit
			stored = append(stored, 0, 1, -1, 999, 1000, 1001, -999, -1000, -1001, 1e6, -1e6, 1e9, -1e9, 86400e3, -86400e3, nsLim, -nsLim, nsLim-1, -nsLim+1, nsLim+1, -nsLim-1,
				253402300799999, -62135596800000, lim, -lim, lim-1)
			if sch != sMillis {
				stored = append(stored, math.MinInt64, math.MaxInt64)
			}
			for k := 0; k < c.pick(400, 150000); k++ {
				v := int64(c.rng.Uint64()>>uint(c.rng.Intn(63))) % (lim + 1)
				if c.rng.Intn(2) == 0 {
					v = -v
				}
				stored = append(stored, v)
			}
		}
		for _, st := range stored {
			b := appendVar(nil, st)
			var out T
			r := avro.NewReadBuf(b)
			o, _ := safeCall(func() error { return codec.Read(r, unsafe.Pointer(&out)) })
			c.rec.NewCase()
			c.rec.Emit(fmt.Sprintf("C19|read|%s|%s", shortSchema(sch), magClass(st)), map[string]any{
				"op": "cs_read", "schema": sn, "bytes": byteList(b), "rvalue": projectValue(reflect.ValueOf(out)), "rout": o, "left": r.Len()})
			r.ExtractResourceBank().Close()
		}
		// write direction: times (exact multiples of the unit and arbitrary instants)
		for k := 0; k < c.pick(400, 100000); k++ {
			exact := k%2 == 0
			t := genTimeFor(c.rng, sch, exact)
			if t.IsZero() {
				continue
			}
			v := reflect.New(typ).Elem()
			v.Field(0).Set(reflect.ValueOf(t))
			emitCS(c, "C19", fmt.Sprintf("C19|write|%s|exact=%v|%s", shortSchema(sch), exact, signClass(t)), sj, typ, v, exact)
			if k%4 == 1 {
				// the same instant seen from another zone (its civil date may differ from the UTC date): the stored
				// integer depends on the instant only; the offset cannot come back, so identity is not demanded
				off := []int{-5 * 3600, 14 * 3600, -12 * 3600, 5*3600 + 45*60, -30 * 60, 3600}[k/4%6]
				vz := reflect.New(typ).Elem()
				vz.Field(0).Set(reflect.ValueOf(t.In(time.FixedZone("", off))))
				emitCS(c, "C19", fmt.Sprintf("C19|write-zoned|%s|%s", shortSchema(sch), signClass(t)), sj, typ, vz, false)
			}
		}
		// several times behind pointers in one record (their slots come from one bank)
		type T3 struct {
			A *time.Time `json:"a"`
			B *time.Time `json:"b"`
			C *time.Time `json:"c"`
		}
		s3 := `{"type":"record","name":"T3","fields":[{"name":"a","type":["null",` + sch + `]},{"name":"b","type":[` + sch + `,"null"]},{"name":"c","type":["null",` + sch + `]}]}`
		for k := 0; k < c.pick(30, 2000); k++ {
			v := reflect.New(reflect.TypeOf(T3{})).Elem()
			for f := 0; f < 3; f++ {
				if c.rng.Intn(5) == 0 {
					continue
				}
				t := genTimeFor(c.rng, sch, true)
				if t.IsZero() {
					continue
				}
				v.Field(f).Set(reflect.ValueOf(&t))
			}
			emitCS(c, "C19", fmt.Sprintf("C19|pointers|%s", shortSchema(sch)), s3, reflect.TypeOf(T3{}), v, true)
		}
		// omitempty on a time: only the zero time.Time is empty -- 1970-01-01 (stored as 0) is a value like any other
		type TO struct {
			A time.Time `json:"a,omitempty"`
			Z int64     `json:"z"`
		}
		so := `{"type":"record","name":"TO","fields":[{"name":"a","type":["null",` + sch + `]},{"name":"z","type":"long"}]}`
		for k, t := range []time.Time{time.Unix(0, 0).UTC(), time.Unix(1, 0).UTC(), time.Unix(-1, 0).UTC(), time.Unix(86400, 0).UTC(), genTimeFor(c.rng, sch, true)} {
			if t.IsZero() || (sch == sDate && t.Unix()%86400 != 0) {
				continue
			}
			emitCS(c, "C19", fmt.Sprintf("C19|omitempty|%s|%d", shortSchema(sch), k), so, reflect.TypeOf(TO{}), reflect.ValueOf(TO{A: t, Z: int64(k)}), true)
		}
		// times as the items of an array and the values of a map (whatever shortcut collections take for their
		// items, the logical type still decides what is stored)
		type TC struct {
			L []time.Time          `json:"l"`
			M map[string]time.Time `json:"m"`
		}
		sc := `{"type":"record","name":"TC","fields":[{"name":"l","type":{"type":"array","items":` + sch + `}},{"name":"m","type":{"type":"map","values":` + sch + `}}]}`
		for k := 0; k < c.pick(20, 2000); k++ {
			var tc TC
			tc.M = map[string]time.Time{}
			for n := c.rng.Intn(5); n > 0; n-- {
				if t := genTimeFor(c.rng, sch, true); !t.IsZero() {
					tc.L = append(tc.L, t)
				}
			}
			for n := c.rng.Intn(3); n > 0; n-- {
				if t := genTimeFor(c.rng, sch, true); !t.IsZero() {
					tc.M[fmt.Sprintf("k%d", n)] = t
				}
			}
			if len(tc.L) == 0 {
				tc.L = []time.Time{}
			}
			emitCS(c, "C19", fmt.Sprintf("C19|collections|%s", shortSchema(sch)), sc, reflect.TypeOf(TC{}), reflect.ValueOf(tc), true)
		}
	}
	return nil
}

// driveC19Files: the same stored integers in FILES whose schemas differ in nothing but the logical type, read one
// after the other into one Go type (whatever ReadFile remembers from one file to the next, the logical type of the
// file at hand decides what its integers mean)
func driveC19Files(c *driverCtx) {
	type T struct {
		T time.Time `json:"t"`
		Z int64     `json:"z"`
	}
	typ := reflect.TypeOf(T{})
	stored := []int64{0, 1, 86400000, 1700000000123, 1700000000123456, -5, 19000}
	order := []string{sMicros, sMillis, `"long"`, sMillis, sMicros, `"long"`, sMicros}
	for round, sch := range order {
		sj := `{"type":"record","name":"T","fields":[{"name":"t","type":` + sch + `},{"name":"z","type":"long"}]}`
		sn, err := schemaNodeFromJSON([]byte(sj))
		if err != nil {
			continue
		}
		var raw []byte
		recs := make([]any, len(stored))
		for k, st := range stored {
			b := appendVar(appendVar(nil, st), int64(k))
			recs[k] = byteList(b)
			raw = append(raw, b...)
		}
		codec := codecs3[round%3]
		file := buildContainer([]byte(sj), codec, true, []byte("0123456789abcdef"), [][2]any{{len(stored), raw}})
		r := readBack(typ, file, readerKinds[round%len(readerKinds)], round%2 == 0, -1, nil)
		c.rec.NewCase()
		c.rec.Emit(fmt.Sprintf("C19|files|%s|round%d", shortSchema(sch), round), map[string]any{
			"op": "rand_read", "mode": "C03", "schema": sn, "records": recs, "target": projectType(typ), "codec": codec,
			"delivered": orEmpty(r.delivered), "recheck": orEmpty(r.recheck), "err": errString(r.err), "panic": r.panicked})
	}
}

func magClass(v int64) string {
	a := v
	if a < 0 {
		a = -a
	}
	n := 0
	for a > 0 {
		a /= 1000
		n++
	}
	if v < 0 {
		return fmt.Sprintf("neg-1e%d", 3*n)
	}
	return fmt.Sprintf("pos-1e%d", 3*n)
}

func signClass(t time.Time) string {
	if t.Unix() < 0 {
		return "before-1970"
	}
	return "after-1970"
}
