//go:build verif

package main

// C11: decoded values under garbage collection. Children run with
// GODEBUG=clobberfree=1 (the collector overwrites what it frees), force
// collections and same-size-class churn inside the callback, between records,
// after the read and -- through the verif hook in ResourceBank.Alloc -- in the
// middle of decoding; every retained value is projected again afterwards.
// Encoding of maps runs while another goroutine forces collections.
// Judged by spec/Trace_Codec.tla (gc_roundtrip, gc_write).

import (
	"bytes"
	"encoding/json"
	"fmt"
	"os"
	"os/exec"
	"reflect"
	"runtime"
	"strings"
	"sync/atomic"
	"time"
	"unsafe"

	"github.com/philpearl/avro"
)

func init() {
	drivers["C11"] = driveC11
	children["gcrun"] = gcChild
}

// shapes the property names: maps and slices behind pointers, maps of maps, maps of slices,
// pointers to fixed arrays, pointers to registered types, plus ordinary nested data
type GCShape1 struct {
	PM *map[string]string `json:"pm"`
	PS *[]string          `json:"ps"`
	Z  int64              `json:"z"`
}
type GCShape2 struct {
	MM map[string]map[string]string `json:"mm"`
	MS map[string][]string          `json:"ms"`
	MP map[string]*string           `json:"mp"`
}
type GCShape3 struct {
	PT  *time.Time            `json:"pt"`
	LP  []*GCInner            `json:"lp"`
	MI  map[string]GCInner    `json:"mi"`
	PPM *map[string][]*string `json:"ppm"`
}
type GCInner struct {
	S  string             `json:"s"`
	B  []byte             `json:"b"`
	P  *string            `json:"p"`
	M  map[string]*string `json:"m"`
	LL [][]string         `json:"ll"`
}
type GCShape4 struct {
	In  GCInner             `json:"in"`
	PIn *GCInner            `json:"pin"`
	MPI map[string]*GCInner `json:"mpi"`
}

// same-size types with different pointer layouts in one record (8 bytes: int64, float64, pointer, map;
// 16 bytes: string, {int64, *int64}; 24 bytes: []T, time.Time, {int64, string})
type GCRec16 struct {
	X int64  `json:"x"`
	P *int64 `json:"p"`
}
type GCShape5 struct {
	A  *int64                        `json:"a"`
	PM *map[string]string            `json:"pm"`
	F  *float64                      `json:"f"`
	PB *[]byte                       `json:"pb"`
	S  *string                       `json:"s"`
	R  *GCRec16                      `json:"r"`
	T  *time.Time                    `json:"t"`
	L  *[]*string                    `json:"l"`
	I  *SInner                       `json:"i"`
	MM map[string]*map[string]*int64 `json:"mm"`
}

// GCTick is a registered custom type whose codec forces a collection every few calls: a collection in the
// middle of map iteration (Write) and between map entries (Read), where the library has no hook
type GCTick int64

var gcTickCalls int

type gcTickCodec struct{ avro.Int64Codec }

func (c gcTickCodec) Write(w *avro.WriteBuf, p unsafe.Pointer) {
	gcTickCalls++
	if gcTickCalls%3 == 0 {
		gcNow()
	}
	c.Int64Codec.Write(w, p)
}

func (c gcTickCodec) Read(r *avro.ReadBuf, p unsafe.Pointer) error {
	gcTickCalls++
	if gcTickCalls%3 == 0 {
		gcNow()
	}
	return c.Int64Codec.Read(r, p)
}

type GCShape6 struct {
	M  map[string]GCTick            `json:"m"`
	MM map[string]map[string]GCTick `json:"mm"`
	ML map[string][]GCTick          `json:"ml"`
	L  []GCTick                     `json:"l"`
}

// map values (small and large) that are structs: freshly allocated memory (a slice, a byte string, a string, a
// pointee) is decoded BEFORE a field whose codec forces a collection, and the value reaches the map only afterwards
type GCVal struct {
	A []int64 `json:"a"`
	T GCTick  `json:"t"`
	S string  `json:"s"`
	P *int64  `json:"p"`
}
type GCValBig struct {
	B  []byte            `json:"b"`
	L  []string          `json:"l"`
	T  GCTick            `json:"t"`
	M  map[string]string `json:"m"`
	F  int64             `json:"f"`
	T2 GCTick            `json:"t2"`
}

// items whose pointer fields are all outside Avro: the decoder never writes them, the application does, afterwards
type GCItemX struct {
	A int64   `json:"a"`
	B float64 `json:"b"`
	X *int64  `json:"-"`
	y *string
}
type GCShape8 struct {
	L []GCItemX `json:"l"`
	Z int64     `json:"z"`
}
type GCShape7 struct {
	M  map[string]GCVal    `json:"m"`
	MB map[string]GCValBig `json:"mb"`
	L  []GCVal             `json:"l"`
	PV *GCVal              `json:"pv"`
}

// gcFatten makes sure the collections inside GCShape7's map values are big enough to be heap objects of their own
// (objects under 16 bytes share allocator blocks and are not freed one by one)
func gcFatten(rng interface{ Intn(int) int }, vals []reflect.Value) {
	for _, v := range vals {
		s7, ok := v.Addr().Interface().(*GCShape7)
		if !ok {
			return
		}
		if s7.M == nil {
			s7.M = map[string]GCVal{}
		}
		for i := 0; i < 4; i++ {
			a := make([]int64, 12+rng.Intn(30))
			for j := range a {
				a[j] = int64(1000*i + j)
			}
			x := int64(i)
			s7.M[fmt.Sprintf("k%d", i)] = GCVal{A: a, T: GCTick(i), S: fmt.Sprintf("string number %d of some length", i), P: &x}
		}
		if s7.MB == nil {
			s7.MB = map[string]GCValBig{}
		}
		for i := 0; i < 3; i++ {
			s7.MB[fmt.Sprintf("b%d", i)] = GCValBig{B: bytes.Repeat([]byte{byte(i + 1)}, 100), L: []string{"one long string in a list", "and another one"}, T: GCTick(i), M: map[string]string{"k": "v"}, T2: 5}
		}
	}
}

func init() {
	avro.Register(reflect.TypeOf(GCTick(0)), func(s avro.Schema, t reflect.Type, omit bool) (avro.Codec, error) { return gcTickCodec{}, nil })
	avro.RegisterSchema(reflect.TypeOf(GCTick(0)), avro.Schema{Type: "long"})
}

func gcShapes() []rtCase {
	return []rtCase{staticOf[GCShape5]("GCShape5"), staticOf[GCShape6]("GCShape6"), staticOf[GCShape7]("GCShape7"), staticOf[GCShape8]("GCShape8"), staticOf[GCShape1]("GCShape1"), staticOf[GCShape2]("GCShape2"), staticOf[GCShape3]("GCShape3"), staticOf[GCShape4]("GCShape4"),
		staticOf[SColl]("SColl"), staticOf[SPtr]("SPtr"), staticOf[STime]("STime")}
}

// churn allocates and drops objects of many size classes so that freed memory is reused
// (all state is local: it runs on several goroutines)
func churn() {
	for k := 0; k < 3; k++ {
		var sink [][]byte
		var sinkP []*[4]uintptr
		for _, sz := range []int{8, 16, 24, 32, 48, 64, 96, 128, 256} {
			for i := 0; i < 64; i++ {
				b := make([]byte, sz)
				for j := range b {
					b[j] = 0xCC
				}
				sink = append(sink, b)
				p := new([4]uintptr)
				p[0], p[1], p[2], p[3] = 0xdeadbeef, 0xdeadbeef, 0xdeadbeef, 0xdeadbeef
				sinkP = append(sinkP, p)
			}
		}
		runtime.KeepAlive(sink)
		runtime.KeepAlive(sinkP)
	}
}

func gcNow() {
	runtime.GC()
	churn()
	runtime.GC()
}

type gcResult struct {
	Shape     string `json:"shape"`
	Codec     string `json:"codec"`
	Mode      string `json:"mode"`
	Inputs    []any  `json:"inputs"`
	Delivered []any  `json:"delivered"`
	After     []any  `json:"after"`
	Err       string `json:"err"`
	Panic     string `json:"panic"`
	// what the application stored, after decoding, in fields of decoded values that Avro does not map, read back later
	Xs     []int64 `json:"xs"`
	XsWant []int64 `json:"xsWant"`
	// encode side
	SchemaText string `json:"schemaText"`
	Bytes      []int  `json:"bytes"`
	Value      any    `json:"value"`
}

// gcChild: args = [seed, outFile, rounds]
func gcChild(args []string) int {
	var seed int64
	var rounds int
	fmt.Sscan(args[0], &seed)
	fmt.Sscan(args[2], &rounds)
	f, err := os.Create(args[1])
	if err != nil {
		return 2
	}
	defer f.Close()
	enc := json.NewEncoder(f)
	c := &driverCtx{rng: newRand(seed)}
	var allocs atomic.Int64
	every := int64(3)
	inDecode := atomic.Bool{}
	avro.VerifHook = func(p string) {
		if p == "bank.alloc" && inDecode.Load() && allocs.Add(1)%every == 0 {
			gcNow() // a collection in the middle of decoding
		}
	}
	for round := 0; round < rounds; round++ {
		for si, sh := range gcShapes() {
			vals := genValues(c.rng, sh.typ, 2+c.rng.Intn(4))
			gcFatten(c.rng, vals)
			if (round+si)%2 == 1 && len(vals) >= 3 {
				// the record the application will drop (see the callback) takes nothing from its bank
				vals[1].Set(reflect.Zero(sh.typ))
			}
			codec := codecs3[(round+si)%3]
			cfg := rtConfig{Codec: codec, Block: []int{0, 50, 1 << 20}[(round+si)%3], Flush: map[int]bool{}}
			w := &recWriter{}
			if err, p := safeMake(sh.mk, w, cfg, vals); err != nil || p != "" {
				// a shape that cannot even be written is reported, not dropped
				enc.Encode(gcResult{Shape: sh.name, Codec: codec, Mode: "decode", Inputs: []any{}, Delivered: []any{}, After: []any{}, Err: "cannot write the file: " + errString(err) + p})
				continue
			}
			res := gcResult{Shape: sh.name, Codec: codec, Mode: "decode"}
			for _, v := range vals {
				res.Inputs = append(res.Inputs, projectValue(v))
			}
			// announce the case before running it: if the process dies the parent knows which case was open
			enc.Encode(map[string]any{"op": "gc_open", "shape": sh.name, "round": round})
			f.Sync()
			var kept []reflect.Value
			var banks []*avro.ResourceBank
			dropped := map[int]bool{}
			every = int64(1 + c.rng.Intn(4))
			func() {
				defer func() {
					if r := recover(); r != nil {
						res.Panic = fmt.Sprint(r)
					}
				}()
				inDecode.Store(true)
				err := avro.ReadFile(bytes.NewReader(w.out), reflect.New(sh.typ).Elem().Interface(), func(val unsafe.Pointer, rb *avro.ResourceBank) error {
					inDecode.Store(false)
					cp := reflect.New(sh.typ).Elem()
					cp.Set(reflect.NewAt(sh.typ, val).Elem())
					kept = append(kept, cp)
					if s8, ok := cp.Addr().Interface().(*GCShape8); ok {
						// the decoded slice is the application's now: it hangs its own objects on the items
						for i := range s8.L {
							x := new(int64)
							*x = int64(7000 + 10*len(kept) + i)
							str := fmt.Sprint("own string ", *x)
							s8.L[i].X, s8.L[i].y = x, &str
							res.XsWant = append(res.XsWant, *x, int64(len(str)))
						}
					}
					gcNow() // a collection inside the callback
					res.Delivered = append(res.Delivered, safeProject(cp))
					if (round+si)%2 == 1 && len(kept)%3 == 2 {
						// the application drops this record: its bank goes back at once, the others are kept
						dropped[len(kept)-1] = true
						rb.Close()
					} else {
						banks = append(banks, rb)
					}
					inDecode.Store(true)
					return nil
				})
				inDecode.Store(false)
				res.Err = errString(err)
				gcNow() // after the read; the ReadBuf and its bank are gone, the retained banks are still open
				gcNow()
				for i, v := range kept {
					if s8, ok := v.Addr().Interface().(*GCShape8); ok {
						func() {
							defer func() {
								if recover() != nil {
									res.Xs = append(res.Xs, -1)
								}
							}()
							for j := range s8.L {
								res.Xs = append(res.Xs, *s8.L[j].X, int64(len(*s8.L[j].y)))
							}
						}()
					}
					if dropped[i] {
						res.After = append(res.After, res.Delivered[i]) // nothing to look at any more
						continue
					}
					res.After = append(res.After, safeProject(v))
				}
			}()
			for _, b := range banks {
				b.Close()
			}
			enc.Encode(map[string]any{"op": "gc_result", "result": res})
		}
		// direct codec use: NewReadBuf + Codec.Read, the ReadBuf dropped without extracting its bank while the
		// decoded value is kept; collections and further decodes (which draw banks from the pool) follow
		for si, sh := range gcShapes() {
			zero := reflect.New(sh.typ).Elem().Interface()
			s, err := avro.SchemaForType(zero)
			if err != nil {
				continue
			}
			codec, err := s.Codec(zero)
			if err != nil {
				continue
			}
			v := genValues(c.rng, sh.typ, 1)[0]
			gcFatten(c.rng, []reflect.Value{v})
			wb := avro.NewWriteBuf(nil)
			codec.Write(wb, v.Addr().UnsafePointer())
			data := append([]byte{}, wb.Bytes()...)
			res := gcResult{Shape: sh.name, Codec: "direct", Mode: "decode", Inputs: []any{projectValue(v)}}
			enc.Encode(map[string]any{"op": "gc_open", "shape": sh.name + "-direct", "round": round})
			f.Sync()
			kept := reflect.New(sh.typ)
			func() {
				defer func() {
					if r := recover(); r != nil {
						res.Panic = fmt.Sprint(r)
					}
				}()
				func() {
					r := avro.NewReadBuf(data)
					res.Err = errString(codec.Read(r, unsafe.Pointer(kept.Pointer())))
				}() // the ReadBuf is unreachable from here on
				res.Delivered = append(res.Delivered, safeProject(kept.Elem()))
				for k := 0; k < 6; k++ {
					gcNow()
					// other decodes of other data through fresh ReadBufs
					o := genValues(c.rng, sh.typ, 1)[0]
					ow := avro.NewWriteBuf(nil)
					codec.Write(ow, o.Addr().UnsafePointer())
					tmp := reflect.New(sh.typ)
					r2 := avro.NewReadBuf(ow.Bytes())
					codec.Read(r2, unsafe.Pointer(tmp.Pointer()))
					r2.ExtractResourceBank().Close()
				}
				res.After = append(res.After, safeProject(kept.Elem()))
			}()
			enc.Encode(map[string]any{"op": "gc_result", "result": res})
			_ = si
		}
		// encode side: maps written while collections run concurrently
		for _, sh := range []rtCase{staticOf[GCShape6]("GCShape6"), staticOf[GCShape2]("GCShape2"), staticOf[SColl]("SColl")} {
			v := genValues(c.rng, sh.typ, 1)[0]
			if sh.name == "GCShape6" {
				big := map[string]GCTick{}
				for i := 0; i < 60; i++ {
					big[fmt.Sprint("key", i)] = GCTick(i)
				}
				v.Field(0).Set(reflect.ValueOf(big))
			}
			zero := reflect.New(sh.typ).Elem().Interface()
			s, err := avro.SchemaForType(zero)
			if err != nil {
				continue
			}
			codec, err := s.Codec(zero)
			if err != nil {
				continue
			}
			sj, _ := s.Marshal()
			enc.Encode(map[string]any{"op": "gc_open", "shape": sh.name + "-write", "round": round})
			f.Sync()
			stop := make(chan struct{})
			done := make(chan struct{})
			go func() {
				defer close(done)
				for {
					select {
					case <-stop:
						return
					default:
						runtime.GC()
						churn()
					}
				}
			}()
			var out []byte
			for k := 0; k < 20; k++ {
				wb := avro.NewWriteBuf(nil)
				codec.Write(wb, v.Addr().UnsafePointer())
				out = append([]byte{}, wb.Bytes()...)
				time.Sleep(time.Millisecond)
			}
			close(stop)
			<-done
			enc.Encode(map[string]any{"op": "gc_result", "result": gcResult{Shape: sh.name, Mode: "encode", SchemaText: string(sj), Bytes: byteList(out), Value: projectValue(v)}})
		}
	}
	return 0
}

func driveC11(c *driverCtx) error {
	self, _ := os.Executable()
	envs := [][]string{{"GODEBUG=clobberfree=1"}}
	if c.thorough() {
		envs = append(envs, []string{"GODEBUG=clobberfree=1,gcstoptheworld=1", "GOGC=1"})
	}
	for ei, env := range envs {
		for run := 0; run < c.pick(2, 6); run++ {
			out := fmt.Sprintf("%s/gc-%d-%d.ndjson", c.rec.dir, ei, run)
			cmd := exec.Command(self, "-child", "gcrun", fmt.Sprint(c.seed*100+int64(run)), out, fmt.Sprint(c.pick(2, 6)))
			var stderr bytes.Buffer
			cmd.Stderr = &stderr
			cmd.Env = append(os.Environ(), env...)
			cmd.Env = append(cmd.Env, "GOTRACEBACK=single")
			done := make(chan error, 1)
			go func() { done <- cmd.Run() }()
			var err error
			select {
			case err = <-done:
			case <-time.After(10 * time.Minute):
				cmd.Process.Kill()
				err = fmt.Errorf("timeout")
			}
			events, lerr := loadTLCcases(out)
			os.Remove(out)
			if lerr != nil && err == nil {
				return lerr
			}
			open := ""
			for _, e := range events {
				switch e["op"] {
				case "gc_open":
					open = fmt.Sprint(e["shape"])
				case "gc_result":
					open = ""
					r := e["result"].(map[string]any)
					c.rec.NewCase()
					if r["mode"] == "encode" {
						sn, _ := schemaNodeFromJSON([]byte(r["schemaText"].(string)))
						c.rec.Emit(fmt.Sprintf("C11|encode|%s|%s", r["shape"], strings.Join(env, ",")), map[string]any{"op": "gc_write", "schema": sn, "value": r["value"], "bytes": r["bytes"]})
					} else {
						c.rec.Emit(fmt.Sprintf("C11|decode|%s|%s|%s", r["shape"], r["codec"], strings.Join(env, ",")), map[string]any{"op": "gc_roundtrip",
							"inputs": orNil(r["inputs"]), "delivered": orNil(r["delivered"]), "after": orNil(r["after"]), "err": r["err"], "panic": r["panic"],
							"xs": orNil(r["xs"]), "xsWant": orNil(r["xsWant"])})
					}
				}
			}
			if err != nil {
				c.rec.NewCase()
				c.rec.Emit(fmt.Sprintf("C11|crash|%s|%s", open, strings.Join(env, ",")), map[string]any{"op": "gc_crash", "open": open, "detail": clipS(stderr.String(), 1200)})
			}
		}
	}
	return nil
}

func orNil(x any) any {
	if x == nil {
		return []any{}
	}
	return x
}
