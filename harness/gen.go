package main

// Seeded generators of Go struct types (reflect.StructOf) and of values with
// boundary-heavy distributions. Nothing here knows what the library should do
// with the values.

import (
	"fmt"
	"math"
	"math/rand"
	"reflect"
	"strings"
	"time"

	"github.com/unravelin/null/v5"
)

// features the generator may use; a feature listed in known_findings.json is
// kept out of composite cases and exercised only by its dedicated witness
type features struct {
	Int16          bool
	PtrSlice       bool // *[]T, *map[string]T
	MapNullableVal bool // map[string]*T, map[string]time.Time, map[string]null.X
	PtrPtr         bool // **T
	PtrNullWrapper bool // *null.X
	OmitString     bool // string with omitempty
	MapOfMap       bool
	Time           bool
	Null           bool
	Unexported     bool
	Excluded       bool // json:"-" / bq:"-" fields
	Fixed          bool // [N]byte (only usable with caller-supplied schemas)
	MaxDepth       int
	MaxFields      int
}

func defaultFeatures() features {
	return features{
		Int16: true, PtrSlice: true, MapNullableVal: true, PtrPtr: false, PtrNullWrapper: false,
		OmitString: true, MapOfMap: true, Time: true, Null: true, Unexported: true, Excluded: true,
		MaxDepth: 3, MaxFields: 6,
	}
}

type typeGen struct {
	rng  *rand.Rand
	f    features
	desc []string // feature tags used by the type under construction (for case keys)
}

func (g *typeGen) tag(s string) {
	for _, d := range g.desc {
		if d == s {
			return
		}
	}
	g.desc = append(g.desc, s)
}

var scalarTypes = []reflect.Type{
	reflect.TypeOf(false), reflect.TypeOf(int(0)), reflect.TypeOf(int32(0)), reflect.TypeOf(int64(0)),
	reflect.TypeOf(float32(0)), reflect.TypeOf(float64(0)), reflect.TypeOf(""), reflect.TypeOf([]byte(nil)),
}

func (g *typeGen) scalar() reflect.Type {
	n := g.rng.Intn(100)
	switch {
	case n < 8 && g.f.Int16:
		g.tag("int16")
		return reflect.TypeOf(int16(0))
	case n < 20 && g.f.Time:
		g.tag("time")
		return timeT
	case n < 35 && g.f.Null:
		g.tag("null")
		return []reflect.Type{nullIntT, nullBoolT, nullFloatT, nullStringT, nullTimeT}[g.rng.Intn(5)]
	}
	return scalarTypes[g.rng.Intn(len(scalarTypes))]
}

func isNullableRegistered(t reflect.Type) bool {
	switch t {
	case timeT, nullIntT, nullBoolT, nullFloatT, nullStringT, nullTimeT:
		return true
	}
	return false
}

func isNullWrapper(t reflect.Type) bool { return isNullableRegistered(t) && t != timeT }

// fieldType generates the type of a field / element at the given depth.
func (g *typeGen) fieldType(depth int) reflect.Type {
	n := g.rng.Intn(100)
	if depth >= g.f.MaxDepth || n < 45 {
		return g.scalar()
	}
	switch {
	case n < 57:
		return g.structType(depth + 1)
	case n < 70: // pointer
		var e reflect.Type
		m := g.rng.Intn(100)
		switch {
		case m < 45:
			e = g.scalar()
		case m < 75:
			e = g.structType(depth + 1)
		case m < 85 && g.f.PtrSlice:
			g.tag("ptr-collection")
			if g.rng.Intn(2) == 0 {
				e = reflect.SliceOf(g.elemType(depth + 1))
			} else {
				e = reflect.MapOf(reflect.TypeOf(""), g.mapValueType(depth+1))
			}
		case m < 92 && g.f.PtrPtr:
			g.tag("ptr-ptr")
			e = reflect.PointerTo(g.scalar())
		default:
			e = g.scalar()
		}
		if isNullWrapper(e) && !g.f.PtrNullWrapper {
			e = reflect.TypeOf(int64(0))
		}
		g.tag("ptr")
		return reflect.PointerTo(e)
	case n < 85:
		g.tag("slice")
		return reflect.SliceOf(g.elemType(depth + 1))
	default:
		g.tag("map")
		return reflect.MapOf(reflect.TypeOf(""), g.mapValueType(depth+1))
	}
}

func (g *typeGen) elemType(depth int) reflect.Type {
	t := g.fieldType(depth)
	if t.Kind() == reflect.Slice && t.Elem().Kind() == reflect.Uint8 && g.rng.Intn(2) == 0 {
		return reflect.TypeOf("")
	}
	return t
}

func (g *typeGen) mapValueType(depth int) reflect.Type {
	for i := 0; i < 20; i++ {
		t := g.fieldType(depth)
		nullable := t.Kind() == reflect.Ptr || isNullableRegistered(t)
		if nullable && !g.f.MapNullableVal {
			continue
		}
		if t.Kind() == reflect.Map && !g.f.MapOfMap {
			continue
		}
		if nullable {
			g.tag("map-nullable-value")
		}
		if t.Kind() == reflect.Map {
			g.tag("map-of-map")
		}
		return t
	}
	return reflect.TypeOf(int64(0))
}

func (g *typeGen) structType(depth int) reflect.Type {
	nf := 1 + g.rng.Intn(g.f.MaxFields)
	if depth > 1 && nf > 3 {
		nf = 3
	}
	if depth == 0 && g.rng.Intn(60) == 0 {
		nf = 65 + g.rng.Intn(30) // more fields than a machine word has bits
		g.tag("wide-record")
	}
	fields := make([]reflect.StructField, 0, nf)
	for i := 0; i < nf; i++ {
		ft := g.fieldType(depth)
		sf := reflect.StructField{Name: fmt.Sprintf("F%d", i), Type: ft}
		jsonName := ""
		opts := ""
		switch g.rng.Intn(10) {
		case 0, 1, 2:
			jsonName = fmt.Sprintf("f_%d", i)
		case 3:
			jsonName = fmt.Sprintf("Name%d", i)
		case 4:
			jsonName = fmt.Sprintf("_u%d", i) // a leading underscore is a legal Avro name
		}
		// Avro names are case-sensitive: now and then a field is named like its predecessor in another case
		if i > 0 && g.rng.Intn(8) == 0 {
			prev := fields[i-1]
			pn, _, _ := strings.Cut(prev.Tag.Get("json"), ",")
			if pn == "" {
				pn = prev.Name
			}
			taken := false
			for _, f := range fields {
				fn, _, _ := strings.Cut(f.Tag.Get("json"), ",")
				if fn == "" {
					fn = f.Name
				}
				taken = taken || fn == flipCase(pn)
			}
			if v := flipCase(pn); !taken && prev.PkgPath == "" && pn != "-" && prev.Tag.Get("bq") != "-" && v != pn {
				jsonName = v
				g.tag("case-variant-names")
			}
		}
		canOmit := true
		if ft.Kind() == reflect.String && !g.f.OmitString {
			canOmit = false
		}
		if canOmit && g.rng.Intn(3) == 0 {
			opts = ",omitempty"
			switch g.rng.Intn(6) {
			case 0:
				opts = ",string,omitempty"
			case 1:
				opts = ",omitempty,string" // omitempty is an option wherever it stands
			}
			g.tag("omitempty")
		}
		tag := ""
		if jsonName != "" || opts != "" {
			tag = fmt.Sprintf(`json:"%s%s"`, jsonName, opts)
		}
		if g.f.Excluded && g.rng.Intn(14) == 0 {
			if g.rng.Intn(2) == 0 {
				tag = `json:"-"`
			} else {
				tag = strings.TrimSpace(tag + ` bq:"-"`)
			}
			g.tag("excluded")
		}
		if g.f.Unexported && g.rng.Intn(16) == 0 {
			sf.Name = fmt.Sprintf("u%d", i)
			sf.PkgPath = "main"
			g.tag("unexported")
		}
		sf.Tag = reflect.StructTag(tag)
		fields = append(fields, sf)
	}
	return reflect.StructOf(fields)
}

func flipCase(s string) string {
	if u := strings.ToUpper(s); u != s {
		return u
	}
	return strings.ToLower(s)
}

// genType returns a struct type and the feature tags it uses.
func genType(rng *rand.Rand, f features) (reflect.Type, []string) {
	g := &typeGen{rng: rng, f: f}
	t := g.structType(1)
	return t, g.desc
}

// ---------------------------------------------------------------------------
// values

var boundaryInts = []int64{0, 1, -1, 2, -2, 63, 64, -64, -65, 127, 128, -128, -129, 8191, 8192, -8192, -8193,
	math.MaxInt16, math.MinInt16, math.MaxInt32, math.MinInt32, math.MaxInt64, math.MinInt64, math.MaxInt32 + 1, math.MinInt32 - 1}

func genInt(rng *rand.Rand, bits int) int64 {
	var v int64
	if rng.Intn(3) == 0 {
		v = boundaryInts[rng.Intn(len(boundaryInts))]
	} else {
		v = int64(rng.Uint64() >> uint(rng.Intn(64)))
		if rng.Intn(2) == 0 {
			v = -v
		}
	}
	switch bits {
	case 16:
		return int64(int16(v))
	case 32:
		return int64(int32(v))
	}
	return v
}

func genFloat64(rng *rand.Rand) float64 {
	switch rng.Intn(12) {
	case 0:
		return math.NaN()
	case 1:
		return math.Inf(1)
	case 2:
		return math.Inf(-1)
	case 3:
		return math.Copysign(0, -1)
	case 4:
		return 0
	case 5:
		return math.Float64frombits(0x7ff0000000000001 | rng.Uint64()&0xfffffffffffff) // NaN with payload
	case 6:
		return math.SmallestNonzeroFloat64
	case 7:
		return math.MaxFloat64
	}
	return math.Float64frombits(rng.Uint64())
}

func genFloat32(rng *rand.Rand) float32 {
	switch rng.Intn(10) {
	case 0:
		return float32(math.NaN())
	case 1:
		return float32(math.Inf(1))
	case 2:
		return float32(math.Copysign(0, -1))
	case 3:
		return 0
	case 4:
		return math.SmallestNonzeroFloat32
	case 5:
		return math.MaxFloat32
	}
	return math.Float32frombits(rng.Uint32())
}

func genBytes(rng *rand.Rand) []byte {
	var n int
	switch rng.Intn(20) {
	case 0:
		return nil
	case 1:
		n = 0
	case 2:
		n = 64 + rng.Intn(3) // two-byte length varint
	case 3:
		if rng.Intn(8) == 0 {
			n = 8192 + rng.Intn(3) // three-byte length varint
		} else {
			n = 63
		}
	default:
		n = rng.Intn(12)
	}
	b := make([]byte, n)
	for i := range b {
		switch rng.Intn(6) {
		case 0:
			b[i] = byte(rng.Intn(256)) // may be invalid UTF-8
		case 1:
			b[i] = 0
		default:
			b[i] = byte('a' + rng.Intn(26))
		}
	}
	return b
}

func genTime(rng *rand.Rand) time.Time {
	switch rng.Intn(10) {
	case 0:
		return time.Time{}
	case 1:
		return time.Unix(0, 0).UTC()
	case 2:
		return time.Date(1, 1, 1, 0, 0, 0, 1, time.UTC)
	case 3:
		return time.Date(9999, 12, 31, 23, 59, 59, 999999999, time.UTC)
	}
	year := 1 + rng.Intn(9999)
	if rng.Intn(3) == 0 {
		year = 1960 + rng.Intn(80)
	}
	ns := 0
	switch rng.Intn(4) {
	case 0:
		ns = rng.Intn(1e9)
	case 1:
		ns = rng.Intn(1000) * 1e6
	case 2:
		ns = rng.Intn(1e6) * 1e3
	}
	loc := time.UTC
	if rng.Intn(2) == 0 {
		offMin := rng.Intn(28*60+1) - 14*60
		if rng.Intn(6) == 0 {
			offMin = []int{-30, -44, -1, 1, -59, 59, -60, -61, 30}[rng.Intn(9)] // sub-hour offsets of either sign
		}
		loc = time.FixedZone("", offMin*60)
	}
	t := time.Date(year, time.Month(1+rng.Intn(12)), 1+rng.Intn(28), rng.Intn(24), rng.Intn(60), rng.Intn(60), ns, loc)
	if t.Year() < 1 || t.Year() > 9999 || t.UTC().Year() < 1 || t.UTC().Year() > 9999 {
		return time.Date(2001, 2, 3, 4, 5, 6, ns, time.UTC)
	}
	return t
}

// genValue fills v (settable) with a generated value.
func genValue(rng *rand.Rand, v reflect.Value, depth int) {
	t := v.Type()
	switch t {
	case timeT:
		v.Set(reflect.ValueOf(genTime(rng)))
		return
	case nullIntT:
		if rng.Intn(3) > 0 {
			v.Set(reflect.ValueOf(null.IntFrom(genInt(rng, 64))))
		}
		return
	case nullBoolT:
		if rng.Intn(3) > 0 {
			v.Set(reflect.ValueOf(null.BoolFrom(rng.Intn(2) == 0)))
		}
		return
	case nullFloatT:
		if rng.Intn(3) > 0 {
			v.Set(reflect.ValueOf(null.FloatFrom(genFloat64(rng))))
		}
		return
	case nullStringT:
		if rng.Intn(3) > 0 {
			v.Set(reflect.ValueOf(null.StringFrom(string(genBytes(rng)))))
		}
		return
	case nullTimeT:
		if rng.Intn(3) > 0 {
			v.Set(reflect.ValueOf(null.TimeFrom(genTime(rng))))
		}
		return
	}
	switch t.Kind() {
	case reflect.Bool:
		v.SetBool(rng.Intn(2) == 0)
	case reflect.Int, reflect.Int64:
		v.SetInt(genInt(rng, 64))
	case reflect.Int32:
		v.SetInt(genInt(rng, 32))
	case reflect.Int16:
		v.SetInt(genInt(rng, 16))
	case reflect.Int8:
		v.SetInt(int64(int8(genInt(rng, 16))))
	case reflect.Float32:
		setRaw32(v, math.Float32bits(genFloat32(rng)))
	case reflect.Float64:
		v.SetFloat(genFloat64(rng))
	case reflect.String:
		v.SetString(string(genBytes(rng)))
	case reflect.Slice:
		if t.Elem().Kind() == reflect.Uint8 {
			v.SetBytes(genBytes(rng))
			return
		}
		var n int
		switch rng.Intn(12) {
		case 0:
			return // nil
		case 1:
			v.Set(reflect.MakeSlice(t, 0, 0))
			return
		case 2:
			if depth <= 2 && rng.Intn(3) == 0 {
				n = 64 + rng.Intn(3) // two-byte count varint
			} else {
				n = 5
			}
		default:
			n = 1 + rng.Intn(3)
		}
		s := reflect.MakeSlice(t, n, n)
		for i := 0; i < n; i++ {
			genValue(rng, s.Index(i), depth+1)
		}
		v.Set(s)
	case reflect.Map:
		switch rng.Intn(8) {
		case 0:
			return
		case 1:
			v.Set(reflect.MakeMap(t))
			return
		}
		n := 1 + rng.Intn(3)
		m := reflect.MakeMap(t)
		for i := 0; i < n; i++ {
			k := reflect.New(t.Key()).Elem()
			k.SetString(fmt.Sprintf("k%d%s", i, string(genBytes(rng))))
			e := reflect.New(t.Elem()).Elem()
			genValue(rng, e, depth+1)
			m.SetMapIndex(k, e)
		}
		v.Set(m)
	case reflect.Ptr:
		if rng.Intn(3) == 0 {
			return
		}
		p := reflect.New(t.Elem())
		genValue(rng, p.Elem(), depth+1)
		v.Set(p)
	case reflect.Struct:
		for i := 0; i < t.NumField(); i++ {
			sf := t.Field(i)
			if !sf.IsExported() {
				continue // stays zero; the library never sees it
			}
			if avroName(sf) == "-" {
				continue // excluded fields are not part of the record: keep them zero
			}
			genValue(rng, v.Field(i), depth+1)
		}
	case reflect.Array:
		for i := 0; i < t.Len(); i++ {
			genValue(rng, v.Index(i), depth+1)
		}
	case reflect.Uint8:
		v.SetUint(uint64(rng.Intn(256)))
	}
}

// setRaw32 stores a float32 bit pattern without passing through float64
// (which would quiet signalling NaNs).
func setRaw32(v reflect.Value, bits uint32) {
	*(*uint32)(v.Addr().UnsafePointer()) = bits
}

func genValues(rng *rand.Rand, t reflect.Type, n int) []reflect.Value {
	out := make([]reflect.Value, n)
	for i := range out {
		p := reflect.New(t)
		if rng.Intn(8) != 0 { // sometimes the all-zero record (nothing taken from its bank)
			genValue(rng, p.Elem(), 1)
		}
		if rng.Intn(3) == 0 {
			zeroSome(rng, p.Elem()) // zero-heavy records: zero fields next to non-zero neighbours
		}
		out[i] = p.Elem()
	}
	return out
}

// zeroSome resets about half of the top-level scalar fields to zero.
func zeroSome(rng *rand.Rand, v reflect.Value) {
	for i := 0; i < v.NumField(); i++ {
		f := v.Field(i)
		if !f.CanSet() {
			continue
		}
		switch f.Kind() {
		case reflect.Bool, reflect.Int, reflect.Int16, reflect.Int32, reflect.Int64, reflect.Float32, reflect.Float64, reflect.String:
			if rng.Intn(2) == 0 {
				f.Set(reflect.Zero(f.Type()))
			}
		}
	}
}
