package main

// C10: ResourceBank allocations and retained records.
//  (A) bank operation sequences through the public surface (NewReadBuf,
//      ReadBuf.Alloc / NextAsString / ExtractResourceBank, ResourceBank.Alloc /
//      ToString / Close); after each allocation the harness writes a pattern
//      (as an application would) and after every step records, for every live
//      allocation, its address range (rank-compressed, order preserving) and a
//      content hash.
//  (B) multi-block files: every delivered record is retained (shallow copy +
//      bank); banks are closed in a seeded order while reading continues, so
//      recycled banks serve later records; retained records whose bank is still
//      open are re-projected at checkpoints.
// Judged by spec/Trace_Bank.tla.

import (
	"bytes"
	"fmt"
	"hash/fnv"
	"reflect"
	"sort"
	"strings"
	"time"
	"unsafe"

	"github.com/philpearl/avro"
)

func init() { drivers["C10"] = driveC10 }

type bankAlloc struct {
	id    int
	bank  int
	ptr   unsafe.Pointer
	size  int
	str   bool
	keep  string // keeps string allocations reachable
	stamp byte
}

func (a *bankAlloc) bytes() []byte {
	if a.size == 0 {
		return nil
	}
	return unsafe.Slice((*byte)(a.ptr), a.size)
}

func hashOf(b []byte) int {
	h := fnv.New32a()
	h.Write(b)
	return int(h.Sum32() & 0xffffff)
}

type bankT1 struct {
	A int64
	B [3]int32
}
type bankT2 struct {
	P *int64
	S string
	X [5]byte
}

func driveBankOps(c *driverCtx, run int) {
	key := fmt.Sprintf("C10|bankops|run%d", run)
	c.rec.NewCase()
	// types with and without pointers, sizes that are and are not multiples of the word size
	types := []reflect.Type{reflect.TypeOf(bankT1{}), reflect.TypeOf(bankT2{}), reflect.TypeOf(int64(0)), reflect.TypeOf([40]byte{}),
		reflect.TypeOf(int32(0)), reflect.TypeOf([13]byte{}), reflect.TypeOf(struct{ A, B, C int32 }{}), reflect.TypeOf(int16(0)), reflect.TypeOf(struct {
			A int64
			B bool
		}{})}
	type bankH struct {
		id   int
		rb   *avro.ResourceBank
		open bool
	}
	var banks []*bankH
	var live []*bankAlloc
	nextAlloc, nextBank := 1, 1
	get := func() *bankH {
		r := avro.NewReadBuf(nil)
		b := &bankH{id: nextBank, rb: r.ExtractResourceBank(), open: true}
		nextBank++
		banks = append(banks, b)
		return b
	}
	snapshot := func() []any {
		// rank-compress the address ranges of the live allocations of open banks
		var pts []uintptr
		for _, a := range live {
			pts = append(pts, uintptr(a.ptr), uintptr(a.ptr)+uintptr(a.size))
		}
		sort.Slice(pts, func(i, j int) bool { return pts[i] < pts[j] })
		rank := map[uintptr]int{}
		for _, p := range pts {
			if _, ok := rank[p]; !ok {
				rank[p] = len(rank) + 1
			}
		}
		out := make([]any, len(live))
		for i, a := range live {
			out[i] = map[string]any{"id": a.id, "bank": a.bank, "lo": rank[uintptr(a.ptr)], "hi": rank[uintptr(a.ptr)+uintptr(a.size)], "hash": hashOf(a.bytes()), "size": a.size}
		}
		return out
	}
	emit := func(op string, extra map[string]any) {
		ev := map[string]any{"op": op, "live": snapshot()}
		for k, v := range extra {
			ev[k] = v
		}
		c.rec.Emit(key, ev)
	}
	c.rec.Emit(key, map[string]any{"op": "bank_reset"})
	steps := c.pick(60, 400)
	for s := 0; s < steps; s++ {
		var openBanks []*bankH
		for _, b := range banks {
			if b.open {
				openBanks = append(openBanks, b)
			}
		}
		r := c.rng.Intn(10)
		switch {
		case len(openBanks) == 0 || (r == 0 && len(openBanks) < 4):
			b := get()
			emit("bank_get", map[string]any{"bank": b.id})
		case r <= 5: // typed allocation
			b := openBanks[c.rng.Intn(len(openBanks))]
			t := types[c.rng.Intn(len(types))]
			p := b.rb.Alloc(t)
			a := &bankAlloc{id: nextAlloc, bank: b.id, ptr: p, size: int(t.Size())}
			nextAlloc++
			zero := true
			for _, x := range a.bytes() {
				if x != 0 {
					zero = false
				}
			}
			live = append(live, a)
			emit("bank_alloc", map[string]any{"bank": b.id, "id": a.id, "zero": zero, "type": t.String()})
			// the application writes into its memory (non-pointer types only get a byte pattern)
			if t != types[1] {
				a.stamp = byte(1 + c.rng.Intn(250))
				for i := range a.bytes() {
					a.bytes()[i] = a.stamp
				}
			} else {
				v := (*bankT2)(p)
				n := int64(a.id)
				v.P, v.S, v.X = &n, fmt.Sprint("s", a.id), [5]byte{1, 2, 3, 4, byte(a.id)}
			}
			emit("bank_write", map[string]any{"id": a.id})
		case r <= 7: // string interning
			b := openBanks[c.rng.Intn(len(openBanks))]
			src := payload(c.rng, 1+c.rng.Intn(60))
			str := b.rb.ToString(src)
			a := &bankAlloc{id: nextAlloc, bank: b.id, ptr: unsafe.Pointer(unsafe.StringData(str)), size: len(str), str: true, keep: str}
			nextAlloc++
			live = append(live, a)
			emit("bank_string", map[string]any{"bank": b.id, "id": a.id, "equal": str == string(src), "srchash": hashOf(src)})
		default: // close a bank: its allocations are dead from now on
			b := openBanks[c.rng.Intn(len(openBanks))]
			b.rb.Close()
			b.open = false
			kept := live[:0]
			for _, a := range live {
				if a.bank != b.id {
					kept = append(kept, a)
				}
			}
			live = kept
			emit("bank_close", map[string]any{"bank": b.id})
		}
	}
	for _, b := range banks {
		if b.open {
			b.rb.Close()
		}
	}
}

// retained records across blocks with banks closed while reading continues
func driveRetain(c *driverCtx, run int) {
	st := staticOf[GCInnerLite]("GCInnerLite")
	n := 12 + c.rng.Intn(30)
	vals := genValues(c.rng, st.typ, n)
	codec := codecs3[run%3]
	cfg := rtConfig{Codec: codec, Block: []int{0, 40, 200, 1 << 20}[run%4], Flush: map[int]bool{}}
	if run%4 == 1 {
		// few distinct long strings, so that a record's first string often equals an earlier record's last one, and
		// records that take nothing from their bank in between
		pool := []string{"the quick brown fox jumps", "over the lazy dog and back", "sphinx of black quartz, judge", ""}
		pick := func() string { return pool[c.rng.Intn(len(pool))] }
		for i, v := range vals {
			if i%5 == 4 {
				v.Set(reflect.Zero(v.Type()))
				continue
			}
			v.FieldByName("S").SetString(pick())
			p := pick()
			v.FieldByName("P").Set(reflect.ValueOf(&p))
			v.FieldByName("L").Set(reflect.ValueOf([]string{pick(), pick()}))
			// nothing with strings of its own after the list: the record's last string comes from the pool too
			for _, f := range []string{"LP", "M", "In", "T", "PT"} {
				v.FieldByName(f).Set(reflect.Zero(v.FieldByName(f).Type()))
			}
		}
	}
	large := run%6 == 5
	if large {
		// payloads far above any small-buffer threshold, one record per block: whatever the reader hands out must not
		// live in a buffer that the next block overwrites
		vals = vals[:5]
		for i, v := range vals {
			v.FieldByName("B").SetBytes(payload(c.rng, 33000+1000*i))
			v.FieldByName("S").SetString(strings.Repeat(string(rune('a'+i)), 40000+i))
		}
		n, cfg.Block = len(vals), 0
		codec = codecs3[(run/6)%3]
		cfg.Codec = codec
	}
	w := &recWriter{}
	if err, p := safeMake(st.mk, w, cfg, vals); err != nil || p != "" {
		return
	}
	key := fmt.Sprintf("C10|retain|%s|B%d", codec, cfg.Block)
	if large {
		key += "|large-payloads"
	}
	inputs := make([]any, n)
	for i, v := range vals {
		inputs[i] = projectValue(v)
	}
	type kept struct {
		v    reflect.Value
		bank *avro.ResourceBank
		open bool
	}
	var ks []*kept
	lastWrite := map[int]any{} // record index -> the record as its owner left it after writing into it
	var checkpoints []any
	checkpoint := func(after string) {
		var idx, ids []int
		var vs, wr []any
		zn := []string{}
		for i, k := range ks {
			if k.open {
				idx = append(idx, i+1)
				vs = append(vs, safeProject(k.v))
				if lw, ok := lastWrite[i]; ok {
					wr = append(wr, lw)
				} else {
					wr = append(wr, node{"k": "none"})
				}
				ids = append(ids, bankID(k.bank))
				zn = append(zn, zoneNames(k.v))
			}
		}
		checkpoints = append(checkpoints, map[string]any{"after": after, "open": orEmptyInts(idx), "values": orEmpty(vs), "banks": orEmptyInts(ids), "zn": zn, "written": orEmpty(wr)})
	}
	// the application writes into the memory it was handed with record i: through the record's pointers, and by
	// appending to its byte slice (which may use whatever capacity the slice came with). That memory is this record's
	// alone: the record shows the writes from now on, no other record changes.
	appWrite := func(i int) {
		g := ks[i].v.Addr().Interface().(*GCInnerLite)
		if g.PB != nil {
			*g.PB = !*g.PB
		}
		if g.Q != nil {
			*g.Q += 1000
		}
		if g.P != nil {
			*g.P = "written by the application"
		}
		if len(g.B) > 0 {
			g.B[0] ^= 0xff
		}
		_ = append(g.B, 0xEE, 0xEE, 0xEE, 0xEE)
		lastWrite[i] = projectValue(ks[i].v) // the record as its owner left it
	}
	var rerr error
	pan := catch(func() {
		rerr = avro.ReadFile(bytes.NewReader(w.out), reflect.New(st.typ).Elem().Interface(), func(val unsafe.Pointer, rb *avro.ResourceBank) error {
			cp := reflect.New(st.typ).Elem()
			cp.Set(reflect.NewAt(st.typ, val).Elem())
			ks = append(ks, &kept{v: cp, bank: rb, open: true})
			if !large && c.rng.Intn(3) == 0 {
				appWrite(len(ks) - 1)
			}
			// close some earlier banks (their memory is recycled for later records)
			for c.rng.Intn(3) == 0 {
				j := c.rng.Intn(len(ks))
				if ks[j].open && j != len(ks)-1 {
					ks[j].bank.Close()
					ks[j].open = false
				}
			}
			if len(ks)%4 == 0 {
				checkpoint(fmt.Sprintf("record %d", len(ks)))
			}
			return nil
		})
	})
	checkpoint("end of read")
	if !large {
		// ... and again now that every record has been decoded (whatever lies behind a record's bytes is in use by now)
		for i, k := range ks {
			if k.open && i%2 == 0 {
				appWrite(i)
			}
		}
		checkpoint("application writes")
	}
	// close in a seeded order, checking the survivors after each close
	order := c.rng.Perm(len(ks))
	for _, j := range order {
		if ks[j].open {
			ks[j].bank.Close()
			ks[j].open = false
			if c.rng.Intn(3) == 0 {
				checkpoint(fmt.Sprintf("close %d", j+1))
			}
		}
	}
	c.rec.NewCase()
	c.rec.Emit(key, map[string]any{"op": "retain", "inputs": inputs, "checkpoints": checkpoints, "err": errString(rerr), "panic": pan, "delivered": len(ks)})
}

// driveCloseInCallback: the usual consumer: look at the record, close its bank, return. Banks come back two records
// later. The records are made so that a later record starts with exactly the string an earlier one ended with, the
// earlier one having stored it at a small offset of its string store: whatever a recycled bank remembers about its
// previous life shows up as a changed string.
func driveCloseInCallback(c *driverCtx, run int) {
	st := staticOf[GCInnerLite]("GCInnerLite")
	x := fmt.Sprintf("a long string that several records share, number %d", run)
	y := strings.Repeat("y", 40+run%7)
	z := strings.Repeat("z", 33)
	var vals []reflect.Value
	for i := 0; i < 12; i++ {
		v := reflect.New(st.typ).Elem()
		g := GCInnerLite{}
		if i%3 == 0 {
			sh := "ab"
			g = GCInnerLite{S: "", P: &sh, L: []string{"c", x}} // ends with x, stored early
		} else {
			yy := y
			g = GCInnerLite{S: x, P: &yy, L: []string{z, fmt.Sprint("tail", i), x}} // starts with x, then plenty more
		}
		v.Set(reflect.ValueOf(g))
		vals = append(vals, v)
	}
	codec := codecs3[run%3]
	cfg := rtConfig{Codec: codec, Block: []int{0, 1 << 20, 100}[run%3], Flush: map[int]bool{}}
	w := &recWriter{}
	if err, p := safeMake(st.mk, w, cfg, vals); err != nil || p != "" {
		return
	}
	inputs := make([]any, len(vals))
	for i, v := range vals {
		inputs[i] = projectValue(v)
	}
	var checkpoints []any
	n := 0
	var rerr error
	pan := catch(func() {
		rerr = avro.ReadFile(bytes.NewReader(w.out), reflect.New(st.typ).Elem().Interface(), func(val unsafe.Pointer, rb *avro.ResourceBank) error {
			n++
			v := reflect.NewAt(st.typ, val).Elem()
			checkpoints = append(checkpoints, map[string]any{"after": fmt.Sprintf("record %d, in the callback", n), "open": []int{n}, "values": []any{safeProject(v)}, "banks": []int{bankID(rb)}, "zn": []string{zoneNames(v)}})
			rb.Close()
			return nil
		})
	})
	c.rec.NewCase()
	c.rec.Emit(fmt.Sprintf("C10|close-in-callback|%s|B%d", codec, cfg.Block), map[string]any{"op": "retain", "inputs": inputs, "checkpoints": checkpoints, "err": errString(rerr), "panic": pan, "delivered": n})
}

// driveRetainAcrossReads: a read that the callback aborts (after closing the bank it was given, the usual
// "found it, stop" idiom), then two complete reads of the same file whose records are all retained with their banks
// open: the banks handed out by the later reads must be different banks.
func driveRetainAcrossReads(c *driverCtx, run int) {
	st := staticOf[GCInnerLite]("GCInnerLite")
	n := 4 + c.rng.Intn(8)
	vals := genValues(c.rng, st.typ, n)
	codec := codecs3[run%3]
	cfg := rtConfig{Codec: codec, Block: []int{0, 60, 1 << 20}[run%3], Flush: map[int]bool{}}
	w := &recWriter{}
	if err, p := safeMake(st.mk, w, cfg, vals); err != nil || p != "" {
		return
	}
	// the second complete read is of a file with other values (a recycled bank filled with the same bytes again
	// would hide the recycling)
	vals2 := genValues(c.rng, st.typ, n)
	w2 := &recWriter{}
	if err, p := safeMake(st.mk, w2, cfg, vals2); err != nil || p != "" {
		return
	}
	abortAt := c.rng.Intn(n)
	closeBefore := run%2 == 0
	key := fmt.Sprintf("C10|retain-after-abort|%s|B%d|close%v", codec, cfg.Block, closeBefore)
	inputs := make([]any, 0, 2*n+1)
	if !closeBefore {
		inputs = append(inputs, projectValue(vals[abortAt])) // the record kept from the aborted read comes first
	}
	for _, vs := range [][]reflect.Value{vals, vals2} {
		for _, v := range vs {
			inputs = append(inputs, projectValue(v))
		}
	}
	sentinel := fmt.Errorf("stop here")
	seen := 0
	type kept struct {
		v      reflect.Value
		bank   *avro.ResourceBank
		closed bool
	}
	var ks []*kept
	pan := catch(func() {
		avro.ReadFile(bytes.NewReader(w.out), reflect.New(st.typ).Elem().Interface(), func(val unsafe.Pointer, rb *avro.ResourceBank) error {
			seen++
			if seen-1 == abortAt {
				if closeBefore {
					rb.Close()
				} else {
					// "found it": the record and its bank are kept, reading stops
					cp := reflect.New(st.typ).Elem()
					cp.Set(reflect.NewAt(st.typ, val).Elem())
					ks = append(ks, &kept{v: cp, bank: rb})
				}
				return sentinel
			}
			rb.Close()
			return nil
		})
	})
	var checkpoints []any
	checkpoint := func(after string) {
		var idx, ids []int
		var vs []any
		zn := []string{}
		for i, k := range ks {
			if k.closed {
				continue
			}
			idx = append(idx, i+1)
			vs = append(vs, safeProject(k.v))
			ids = append(ids, bankID(k.bank))
			zn = append(zn, zoneNames(k.v))
		}
		checkpoints = append(checkpoints, map[string]any{"after": after, "open": orEmptyInts(idx), "values": orEmpty(vs), "banks": orEmptyInts(ids), "zn": zn})
	}
	var rerr error
	for rep := 0; rep < 2 && pan == "" && rerr == nil; rep++ {
		pan = catch(func() {
			rerr = avro.ReadFile(bytes.NewReader([][]byte{w.out, w2.out}[rep]), reflect.New(st.typ).Elem().Interface(), func(val unsafe.Pointer, rb *avro.ResourceBank) error {
				cp := reflect.New(st.typ).Elem()
				cp.Set(reflect.NewAt(st.typ, val).Elem())
				ks = append(ks, &kept{v: cp, bank: rb})
				return nil
			})
		})
		checkpoint(fmt.Sprintf("end of read %d after an aborted read", rep+1))
		if rep == 0 {
			// every other record of the first read is done with: its bank may be recycled by the second read
			for i, k := range ks {
				if i%2 == 1 {
					k.bank.Close()
					k.closed = true
				}
			}
			checkpoint("every other bank of read 1 closed")
		}
	}
	for _, k := range ks {
		if !k.closed {
			k.bank.Close()
		}
	}
	c.rec.NewCase()
	c.rec.Emit(key, map[string]any{"op": "retain", "inputs": inputs, "checkpoints": checkpoints, "err": errString(rerr), "panic": pan, "delivered": len(ks)})
}

// bankID names a bank object by the order in which the harness first saw it (identity of the *ResourceBank, the
// abstract state of spec/BankPool.tla: which holder holds which bank)
var bankIDs = map[*avro.ResourceBank]int{}

func bankID(b *avro.ResourceBank) int {
	if id, ok := bankIDs[b]; ok {
		return id
	}
	bankIDs[b] = len(bankIDs) + 1
	return len(bankIDs)
}

func orEmptyInts(x []int) []int {
	if x == nil {
		return []int{}
	}
	return x
}

// GCInnerLite: strings, bytes, pointers, slices and maps (everything that lives in bank memory)
type GCInnerLite struct {
	S  string             `json:"s"`
	B  []byte             `json:"b"`
	P  *string            `json:"p"`
	Q  *int64             `json:"q"`
	L  []string           `json:"l"`
	LP []*SInner          `json:"lp"`
	M  map[string]*string `json:"m"`
	In *SInner            `json:"in"`
	T  time.Time          `json:"t"`
	PT *time.Time         `json:"pt"`
	PB *bool              `json:"pb"`
}

// zoneNames: the names of the zones of the record's times (reachable from the record like everything else)
func zoneNames(v reflect.Value) string {
	defer func() { recover() }()
	g := v.Interface().(GCInnerLite)
	zn, _ := g.T.Zone()
	out := zn
	if g.PT != nil {
		z2, _ := g.PT.Zone()
		out += "|" + z2
	}
	return out
}

// RFix: pointers to byte arrays under a caller-supplied schema with fixed types (schema generation never produces
// fixed, so only files written by someone else reach this)
type RFix struct {
	F *[4]byte  `json:"f"`
	G *[16]byte `json:"g"`
	Z int64     `json:"z"`
}

// driveRetainFixed: a file of one-record blocks with fixed values, written by the harness's own container writer,
// read with every record kept while the following blocks are decoded (whatever a decoded pointer refers to must
// not be the reader's block buffer)
func driveRetainFixed(c *driverCtx, run int) {
	const sj = `{"type":"record","name":"RFix","fields":[{"name":"f","type":["null",{"type":"fixed","name":"F4","size":4}]},{"name":"g","type":["null",{"type":"fixed","name":"F16","size":16}]},{"name":"z","type":"long"}]}`
	codec := codecs3[run%3]
	n := 6 + c.rng.Intn(6)
	typ := reflect.TypeOf(RFix{})
	inputs := make([]any, n)
	var blocks [][2]any
	var pendingRaw []byte
	pending := 0
	for i := 0; i < n; i++ {
		var v RFix
		var b []byte
		if i%4 != 3 {
			f := [4]byte{byte(i), byte(i + 1), byte(c.rng.Intn(256)), 0xF4}
			v.F = &f
			b = append(appendVar(b, 1), f[:]...)
		} else {
			b = appendVar(b, 0)
		}
		if i%3 != 2 {
			var g [16]byte
			copy(g[:], payload(c.rng, 16))
			v.G = &g
			b = append(appendVar(b, 1), g[:]...)
		} else {
			b = appendVar(b, 0)
		}
		v.Z = int64(1000 + i)
		b = appendVar(b, v.Z)
		inputs[i] = projectValue(reflect.ValueOf(v))
		pendingRaw = append(pendingRaw, b...)
		pending++
		if run%2 == 0 || pending == 2 || i == n-1 { // one record per block, or two
			blocks = append(blocks, [2]any{pending, pendingRaw})
			pendingRaw, pending = nil, 0
		}
	}
	file := buildContainer([]byte(sj), codec, true, []byte("0123456789abcdef"), blocks)
	type kept struct {
		v    reflect.Value
		bank *avro.ResourceBank
	}
	var ks []*kept
	var checkpoints []any
	checkpoint := func(after string) {
		var idx, ids []int
		var vs []any
		zn := []string{}
		for i, k := range ks {
			idx = append(idx, i+1)
			vs = append(vs, safeProject(k.v))
			ids = append(ids, bankID(k.bank))
			zn = append(zn, "")
		}
		checkpoints = append(checkpoints, map[string]any{"after": after, "open": orEmptyInts(idx), "values": orEmpty(vs), "banks": orEmptyInts(ids), "zn": zn})
	}
	var rerr error
	pan := catch(func() {
		rerr = avro.ReadFile(makeReader(readerKinds[run%len(readerKinds)], file), RFix{}, func(val unsafe.Pointer, rb *avro.ResourceBank) error {
			cp := reflect.New(typ).Elem()
			cp.Set(reflect.NewAt(typ, val).Elem())
			ks = append(ks, &kept{v: cp, bank: rb})
			if len(ks)%3 == 0 {
				checkpoint(fmt.Sprintf("record %d", len(ks)))
			}
			return nil
		})
	})
	checkpoint("end of read")
	for _, k := range ks {
		k.bank.Close()
	}
	c.rec.NewCase()
	c.rec.Emit(fmt.Sprintf("C10|retain-fixed-pointers|%s", codec), map[string]any{"op": "retain", "inputs": inputs, "checkpoints": checkpoints, "err": errString(rerr), "panic": pan, "delivered": len(ks)})
}

func driveC10(c *driverCtx) error {
	for run := 0; run < c.pick(6, 120); run++ {
		driveRetainFixed(c, run)
	}
	for run := 0; run < c.pick(6, 300); run++ {
		driveBankOps(c, run)
	}
	for run := 0; run < c.pick(24, 3000); run++ {
		driveRetain(c, run)
	}
	for run := 0; run < c.pick(12, 600); run++ {
		driveRetainAcrossReads(c, run)
	}
	for run := 0; run < c.pick(9, 300); run++ {
		driveCloseInCallback(c, run)
	}
	return nil
}
