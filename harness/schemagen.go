package main

// C15: SchemaForType over compile-time types (named, embedded, self-referential,
// used twice, every tag combination) and seeded reflect.StructOf types including
// kinds the library cannot express. Each call runs in a child process when the
// type is self-referential (a stack overflow is unrecoverable). Judged by
// spec/Trace_Schema.tla against spec/SchemaGen.tla.

import (
	"encoding/json"
	"fmt"
	"os"
	"os/exec"
	"reflect"
	"time"

	"github.com/philpearl/avro"
	"github.com/unravelin/null/v5"
)

func init() {
	drivers["C15"] = driveC15
	children["schemagen"] = schemagenChild
}

// ---- compile-time types ----
type GNamedInner struct {
	A int64 `json:"a"`
}
type GTags struct {
	Plain     int
	Named     int     `json:"named"`
	Omit      int     `json:"omit,omitempty"`
	OmitOnly  string  `json:",omitempty"`
	OmitOther float64 `json:"oo,string,omitempty"`
	OtherOpt  bool    `json:"other,string"`
	Dash      int     `json:"-"`
	BQDash    int     `json:"bqd" bq:"-"`
	BQOther   int     `json:"bqo" bq:"renamed"`
	hidden    int
	Ptr       *int32   `json:"ptr"`
	PtrOmit   *string  `json:"ptromit,omitempty"`
	PtrSlice  *[]int64 `json:"ptrslice"`
	PtrMap    *map[string]int64
	SliceOmit []int64        `json:"so,omitempty"`
	MapOmit   map[string]int `json:"mo,omitempty"`
	Bytes     []byte
	T         time.Time
	TOmit     time.Time `json:"tomit,omitempty"`
	PT        *time.Time
	NI        null.Int
	PNI       *null.Int
}
type GEmbedded struct {
	GNamedInner
	*GTags
	X int
}
type GTwice struct {
	A GNamedInner
	B GNamedInner
}
type GTwiceDeep struct {
	L []GNamedInner
	M map[string]GNamedInner
}
type GSelfPtr struct {
	V    int64
	Next *GSelfPtr
}
type GSelfSlice struct {
	Kids []GSelfSlice
}
type GSelfMap struct {
	M map[string]*GSelfMap
}
type GMutualA struct{ B *GMutualB }
type GMutualB struct{ A []GMutualA }
type GUnsupported struct {
	U  uint32
	I8 int8
	A  [4]int64
	AB [4]byte
}
type GBadMap struct{ M map[int]string }
type GIface struct{ I any }
type GChan struct{ C chan int }
type GFunc struct{ F func() }
type GComplex struct{ C complex128 }
type GNamedPrims struct {
	E myEmail
	C myCelsius
	L myTags
}
type (
	myEmail   string
	myCelsius float64
	myTags    []string
)

func c15Types() []reflect.Type {
	return []reflect.Type{
		reflect.TypeOf(GNamedInner{}), reflect.TypeOf(GTags{}), reflect.TypeOf(GEmbedded{}), reflect.TypeOf(GTwice{}), reflect.TypeOf(GTwiceDeep{}),
		reflect.TypeOf(GSelfPtr{}), reflect.TypeOf(GSelfSlice{}), reflect.TypeOf(GSelfMap{}), reflect.TypeOf(GMutualA{}),
		reflect.TypeOf(GUnsupported{}), reflect.TypeOf(GBadMap{}), reflect.TypeOf(GIface{}), reflect.TypeOf(GChan{}), reflect.TypeOf(GFunc{}), reflect.TypeOf(GComplex{}),
		reflect.TypeOf(GNamedPrims{}), reflect.TypeOf(SBasic{}), reflect.TypeOf(SOmit{}), reflect.TypeOf(SPtr{}), reflect.TypeOf(STime{}),
		reflect.TypeOf(STags{}), reflect.TypeOf(SEmbedded{}), reflect.TypeOf(SPacked{}), reflect.TypeOf(WPtrPtr{}), reflect.TypeOf(WMapMap{}),
		reflect.TypeOf(struct{}{}), reflect.TypeOf(struct{ hidden int }{}),
	}
}

func isSelfRef(t reflect.Type) bool {
	n := projectType(t)
	var walk func(x node) bool
	walk = func(x node) bool {
		if nodeStr(x, "k") == "recursion" {
			return true
		}
		for _, k := range nodeKids(x) {
			if walk(k) {
				return true
			}
		}
		return false
	}
	return walk(n)
}

type schemagenResult struct {
	Outcome string `json:"outcome"`
	Err     string `json:"err"`
	Schema  node   `json:"schema"`
	Schema2 node   `json:"schema2"`
	Codec   string `json:"codec"`
	Marshal string `json:"marshal"`
}

func schemagenOnce(t reflect.Type) schemagenResult {
	res := schemagenResult{Outcome: "ok", Schema: snode("null", "", "", 0, nil, nil), Schema2: snode("null", "", "", 0, nil, nil), Codec: "none", Marshal: "none"}
	zero := reflect.New(t).Elem().Interface()
	var s, s2 avro.Schema
	var err, err2 error
	if p := catch(func() { s, err = avro.SchemaForType(zero) }); p != "" {
		res.Outcome, res.Err = "panic", p
		return res
	}
	if err != nil {
		if p := catch(func() { _, err2 = avro.SchemaForType(reflect.New(t).Interface()) }); p != "" {
			res.Outcome, res.Err = "panic", p
			return res
		}
		if err2 == nil {
			res.Outcome, res.Err = "nondeterministic", fmt.Sprint(err, " / ", err2)
			return res
		}
		res.Outcome, res.Err = "err", err.Error()
		return res
	}
	res.Schema = projectLibSchema(s)
	var cerr error
	if p := catch(func() { _, cerr = s.Codec(zero) }); p != "" {
		res.Codec = "panic: " + p
	} else if cerr != nil {
		res.Codec = "err"
	} else {
		res.Codec = "built"
	}
	// the generated schema must serialise to valid JSON that denotes the same schema (feeds C14)
	if out, err := s.Marshal(); err != nil {
		res.Marshal = "err"
	} else if _, err := schemaNodeFromJSON(out); err != nil {
		res.Marshal = "invalid-json"
	} else {
		res.Marshal = "ok"
	}
	// the caller owns what it was given: after it has edited the returned schema in place (every name, every union
	// branch, every field), generating again -- from a pointer this time -- must give the same schema as before
	scrambleSchema(&s, 0)
	if p := catch(func() { s2, err2 = avro.SchemaForType(reflect.New(t).Interface()) }); p != "" {
		res.Outcome, res.Err = "panic", p
		return res
	}
	if err2 != nil {
		res.Outcome, res.Err = "nondeterministic", fmt.Sprint(nil, " / ", err2)
		return res
	}
	res.Schema2 = projectLibSchema(s2)
	// ... and from a typed nil pointer: the schema is a function of the type, there is nothing to dereference
	var s3 avro.Schema
	var err3 error
	if p := catch(func() { s3, err3 = avro.SchemaForType(reflect.Zero(reflect.PointerTo(t)).Interface()) }); p != "" {
		res.Outcome, res.Err = "panic", "typed nil pointer: "+p
		return res
	}
	if err3 != nil {
		res.Outcome, res.Err = "nondeterministic", "typed nil pointer: "+err3.Error()
		return res
	}
	if s3n := projectLibSchema(s3); !reflect.DeepEqual(s3n, res.Schema2) {
		res.Schema2 = s3n // the judge compares schema and schema2
	}
	return res
}

func scrambleSchema(s *avro.Schema, depth int) {
	if depth > 20 {
		return
	}
	for i := range s.Union {
		scrambleSchema(&s.Union[i], depth+1)
	}
	if o := s.Object; o != nil {
		for i := range o.Fields {
			scrambleSchema(&o.Fields[i].Type, depth+1)
			o.Fields[i].Name = "edited_" + o.Fields[i].Name
		}
		scrambleSchema(&o.Items, depth+1)
		scrambleSchema(&o.Values, depth+1)
		o.Name, o.Namespace, o.LogicalType = "Edited", "edited.ns", "edited"
		if len(o.Fields) > 1 {
			o.Fields[0], o.Fields[1] = o.Fields[1], o.Fields[0]
		}
	}
	if len(s.Union) > 1 {
		s.Union[0], s.Union[1] = s.Union[1], s.Union[0]
	}
	s.Type = "edited"
}

// two different struct types of the same name (function-local declarations)
func c15SameName1() reflect.Type {
	type Event struct {
		ID   int64  `json:"id"`
		Kind string `json:"kind"`
	}
	return reflect.TypeOf(Event{})
}

func c15SameName2() reflect.Type {
	type Event struct {
		At    float64  `json:"at"`
		Tags  []string `json:"tags"`
		Count *int64   `json:"count"`
	}
	return reflect.TypeOf(Event{})
}

func schemagenChild(args []string) int {
	var idx int
	fmt.Sscan(args[0], &idx)
	ts := c15Types()
	if idx < 0 || idx >= len(ts) {
		return 2
	}
	b, _ := json.Marshal(schemagenOnce(ts[idx]))
	os.Stdout.Write(b)
	return 0
}

func schemagenIsolated(idx int) schemagenResult {
	self, _ := os.Executable()
	cmd := exec.Command(self, "-child", "schemagen", fmt.Sprint(idx))
	cmd.Env = append(os.Environ(), "GOTRACEBACK=none")
	done := make(chan struct{})
	var out []byte
	var err error
	go func() { out, err = cmd.Output(); close(done) }()
	select {
	case <-done:
	case <-time.After(60 * time.Second):
		cmd.Process.Kill()
		return schemagenResult{Outcome: "timeout", Schema: snode("null", "", "", 0, nil, nil), Schema2: snode("null", "", "", 0, nil, nil)}
	}
	var res schemagenResult
	if err != nil || json.Unmarshal(out, &res) != nil {
		return schemagenResult{Outcome: "fatal", Err: fmt.Sprint(err), Schema: snode("null", "", "", 0, nil, nil), Schema2: snode("null", "", "", 0, nil, nil)}
	}
	return res
}

// extra kinds for run-time types: things schema generation must refuse (or may map naturally)
var oddTypes = []reflect.Type{
	reflect.TypeOf(uint(0)), reflect.TypeOf(uint8(0)), reflect.TypeOf(uint64(0)), reflect.TypeOf(int8(0)), reflect.TypeOf([3]int64{}), reflect.TypeOf([2]byte{}),
	reflect.TypeOf(map[int]string(nil)), reflect.TypeOf(map[[2]byte]int(nil)), reflect.TypeOf((*any)(nil)).Elem(), reflect.TypeOf((chan int)(nil)), reflect.TypeOf((func())(nil)),
	reflect.TypeOf(complex64(0)), reflect.TypeOf(uintptr(0)), reflect.TypeOf([]uint16(nil)), reflect.TypeOf(map[string]uint(nil)), reflect.TypeOf((*uint32)(nil)),
	reflect.TypeOf([]any(nil)), reflect.TypeOf(map[string]chan int(nil)),
}

func emitSchemaGen(c *driverCtx, key string, t reflect.Type, res schemagenResult) {
	c.rec.NewCase()
	c.rec.Emit(key, map[string]any{"op": "schemagen", "type": projectType(t), "typeName": t.String(), "outcome": res.Outcome, "err": clipS(res.Err, 200),
		"schema": res.Schema, "schema2": res.Schema2, "codec": res.Codec, "marshal": res.Marshal, "regs": []any{}})
}

// registered types: generate, register the schema of a contained type, generate again
type C15Custom struct{ V float64 }
type C15Holder struct {
	In C15Custom            `json:"in"`
	P  *C15Custom           `json:"p"`
	L  []C15Custom          `json:"l"`
	M  map[string]C15Custom `json:"m"`
	O  C15Custom            `json:"o,omitempty"`
}
type C15Outer struct {
	H C15Holder `json:"h"`
	X int64     `json:"x"`
}

// named types whose underlying kind is a primitive, registered with schemas that differ from the default mapping
type C15Date string
type C15Micros int64
type C15Flag bool
type C15PrimHolder struct {
	D  C15Date              `json:"d"`
	PD *C15Date             `json:"pd"`
	LD []C15Date            `json:"ld"`
	MM map[string]C15Micros `json:"mm"`
	O  C15Micros            `json:"o,omitempty"`
	F  C15Flag              `json:"f"`
	S  string               `json:"s"`
	// an unnamed type with a registered schema (registrations are keyed by reflect.Type, declared or not); one
	// occurrence only: a named schema at several positions is the mechanism of the listed known finding
	PID *cObjID `json:"pid"`
}

func c15Registered(c *driverCtx) {
	step := func(name string, regs []any) {
		for _, t := range []reflect.Type{reflect.TypeOf(C15Outer{}), reflect.TypeOf(C15Holder{}), reflect.TypeOf(C15Custom{})} {
			res := schemagenOnce(t)
			if name == "0-before" && t.Name() != "C15Custom" {
				// generated (so that anything memoised is memoised) but not judged: before the registration the
				// holder uses one named struct in several positions, which is the listed known finding
				continue
			}
			c.rec.NewCase()
			c.rec.Emit("C15|registered|"+name+"|"+t.Name(), map[string]any{"op": "schemagen", "type": projectType(t), "typeName": t.String(), "outcome": res.Outcome, "err": clipS(res.Err, 200),
				"schema": res.Schema, "schema2": res.Schema2, "codec": "err", "marshal": res.Marshal, "regs": regs})
		}
	}
	reg := func(sj string) []any {
		s, err := avro.SchemaFromString(sj)
		if err != nil {
			panic(err)
		}
		avro.RegisterSchema(reflect.TypeOf(C15Custom{}), s)
		sn, _ := schemaNodeFromJSON([]byte(sj))
		return []any{map[string]any{"name": "C15Custom", "schema": sn}}
	}
	// named primitive kinds with registered schemas
	{
		regs := []any{}
		for _, r := range []struct {
			t  reflect.Type
			sj string
		}{{reflect.TypeOf(C15Date("")), `{"type":"int","logicalType":"date"}`}, {reflect.TypeOf(C15Micros(0)), `{"type":"long","logicalType":"timestamp-micros"}`}, {reflect.TypeOf(C15Flag(false)), `"string"`},
			{reflect.TypeOf(cObjID{}), `{"type":"fixed","name":"ObjID","size":12}`}} {
			sch, err := avro.SchemaFromString(r.sj)
			if err != nil {
				panic(err)
			}
			avro.RegisterSchema(r.t, sch)
			sn, _ := schemaNodeFromJSON([]byte(r.sj))
			name := r.t.Name()
			if cn, ok := customNames[r.t]; ok && name == "" {
				name = cn
			}
			regs = append(regs, map[string]any{"name": name, "schema": sn})
		}
		t := reflect.TypeOf(C15PrimHolder{})
		res := schemagenOnce(t)
		c.rec.NewCase()
		c.rec.Emit("C15|registered|primitive-kinds|"+t.Name(), map[string]any{"op": "schemagen", "type": projectType(t), "typeName": t.String(), "outcome": res.Outcome, "err": clipS(res.Err, 200),
			"schema": res.Schema, "schema2": res.Schema2, "codec": "err", "marshal": res.Marshal, "regs": regs})
	}
	// two different types of the same name, one after the other and the first one again
	for i, t := range []reflect.Type{c15SameName1(), c15SameName2(), c15SameName1()} {
		emitSchemaGen(c, fmt.Sprintf("C15|same-type-name|%d", i), t, schemagenOnce(t))
	}
	step("0-before", []any{})
	step("1-double", reg(`"double"`))
	step("2-nullable", reg(`["null","double"]`))
	step("3-string", reg(`"string"`))
	step("4-null-second", reg(`["double","null"]`))
}

func driveC15(c *driverCtx) error {
	defer c15Registered(c)
	for i, t := range c15Types() {
		var res schemagenResult
		if isSelfRef(t) {
			res = schemagenIsolated(i)
		} else {
			res = schemagenOnce(t)
		}
		emitSchemaGen(c, "C15|static|"+t.Name(), t, res)
	}
	// TLC-enumerated types (role B)
	if c.cases != "" {
		ts, err := tlcTypes(c.cases)
		if err != nil {
			return err
		}
		for _, t := range ts {
			emitSchemaGen(c, "C15|tlc", t, schemagenOnce(t))
		}
		c.extra["tlc_types"] = len(ts)
	}
	feat := featuresFromKnown("C15")
	feat.PtrPtr, feat.PtrNullWrapper = true, true
	for i := 0; i < c.pick(250, 60000); i++ {
		t, tags := genType(c.rng, feat)
		cls := "gen"
		if i%3 == 0 {
			// splice an odd kind in as an extra field
			odd := oddTypes[c.rng.Intn(len(oddTypes))]
			fs := make([]reflect.StructField, 0, t.NumField()+1)
			for j := 0; j < t.NumField(); j++ {
				fs = append(fs, t.Field(j))
			}
			pos := c.rng.Intn(len(fs) + 1)
			wrap := []func(reflect.Type) reflect.Type{func(x reflect.Type) reflect.Type { return x }, reflect.SliceOf, reflect.PointerTo,
				func(x reflect.Type) reflect.Type { return reflect.MapOf(reflect.TypeOf(""), x) }}[c.rng.Intn(4)]
			nf := reflect.StructField{Name: "Odd", Type: wrap(odd)}
			fs = append(fs[:pos], append([]reflect.StructField{nf}, fs[pos:]...)...)
			t = reflect.StructOf(fs)
			cls = "gen-odd|" + odd.Kind().String()
		}
		_ = tags
		emitSchemaGen(c, "C15|"+cls, t, schemagenOnce(t))
	}
	return nil
}
