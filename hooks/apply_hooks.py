#!/usr/bin/env python3
"""One-off: adds the verif hooks to /repo (run once; the result is committed in /repo as separate small commits)."""
import sys
def sub(path, old, new):
    s = open(path).read()
    assert s.count(old) == 1, (path, old, s.count(old))
    open(path, 'w').write(s.replace(old, new))

step = sys.argv[1]
if step == "files":
    open('/repo/verif_off.go', 'w').write('''//go:build !verif

package avro

// verifPoint marks a point of interest for the verification harness. It does
// nothing (and is inlined away) unless the package is built with -tags verif.
func verifPoint(string) {}
''')
    open('/repo/verif_on.go', 'w').write('''//go:build verif

package avro

// VerifHook, when set, is called at named points inside critical sections and
// allocation paths. It exists only in builds with -tags verif and is used by
// the verification harness to observe and to schedule those points.
var VerifHook func(point string)

func verifPoint(p string) {
	if h := VerifHook; h != nil {
		h(p)
	}
}
''')
    open('/repo/time/verif_off.go', 'w').write('''//go:build !verif

package time

// verifPoint: see the avro package. No-op unless built with -tags verif.
func verifPoint(string) {}
''')
    open('/repo/time/verif_on.go', 'w').write('''//go:build verif

package time

// VerifHook: see the avro package.
var VerifHook func(point string)

func verifPoint(p string) {
	if h := VerifHook; h != nil {
		h(p)
	}
}
''')
elif step == "sites":
    sub('/repo/build.go', '''	registryMutex.Lock()
	defer registryMutex.Unlock()
	registry[typ] = f''', '''	registryMutex.Lock()
	defer registryMutex.Unlock()
	verifPoint("registry.w.enter")
	defer verifPoint("registry.w.leave")
	registry[typ] = f''')
    sub('/repo/build.go', '''		registryMutex.RLock()
		cf, ok := registry[typ]
		registryMutex.RUnlock()''', '''		registryMutex.RLock()
		verifPoint("registry.r.enter")
		cf, ok := registry[typ]
		verifPoint("registry.r.leave")
		registryMutex.RUnlock()''')
    sub('/repo/buildschema.go', '''	schemaRegistryMutex.Lock()
	defer schemaRegistryMutex.Unlock()
	schemaRegistry[typ] = s''', '''	schemaRegistryMutex.Lock()
	defer schemaRegistryMutex.Unlock()
	verifPoint("schema.w.enter")
	defer verifPoint("schema.w.leave")
	schemaRegistry[typ] = s''')
    sub('/repo/buildschema.go', '''	schemaRegistryMutex.RLock()
	defer schemaRegistryMutex.RUnlock()
	s, ok := schemaRegistry[typ]''', '''	schemaRegistryMutex.RLock()
	defer schemaRegistryMutex.RUnlock()
	verifPoint("schema.r.enter")
	defer verifPoint("schema.r.leave")
	s, ok := schemaRegistry[typ]''')
    sub('/repo/time/parse.go', '''	tzLock.Lock()
	defer tzLock.Unlock()
	tz, ok := tzMap[offset]''', '''	tzLock.Lock()
	defer tzLock.Unlock()
	verifPoint("tz.w.enter")
	defer verifPoint("tz.w.leave")
	tz, ok := tzMap[offset]''')
    sub('/repo/buffer.go', '''	typedmemclr(rt.ptyp, ptr)
	return ptr''', '''	typedmemclr(rt.ptyp, ptr)
	verifPoint("bank.alloc")
	return ptr''')
    sub('/repo/buffer.go', '''func (rb *ResourceBank) Close() {
''', '''func (rb *ResourceBank) Close() {
	verifPoint("bank.close")
''')
